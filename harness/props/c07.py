"""C07 — a simulation stopped at any point resumes without losing or double counting work
(DESIGN.md §5 C07).

Tie to source: `lean/PyPhysim/Model/C07.lean` is the C05 runner machine plus a
durable store, the save schedule of `save_partial_results_maybe` and the trace
of everything a crash can separate (calls, file-system steps of every save).  It
is tied to `runner.py` / `results.py` by FAULT ENUMERATION ON THE REAL CODE: a
scripted `SimulationRunner` is run with a results file name; `builtins.open`,
`os.replace`, the clock of `runner.py` and `_run_simulation` are instrumented so
that every event of the model's trace is an instrumented step of the code; a
`BaseException` is raised after the m-th event (and inside a write, leaving the
bytes written so far) and, separately, the directory is snapshotted at that very
moment (what a hard kill leaves).  A fresh runner with the same file name then
runs to completion on both directories.  Files after the crash, restart status,
call log, `runned_reps`, stored statistics and files after the restart are
compared with the model's prediction for that crash point.  The save-rule
constants (500 repetitions / 300 s) and the write discipline of `save_to_file`
are re-read from the source by `harness/gen/c07.py`.

The property oracles below recompute everything from the files on disk and the
raw call logs (token arithmetic); they do not use the model.
"""
import builtins
import json
import os
import shutil
import tempfile

from harness import core

MODULE = 'PyPhysim.Properties.C07'
DRIVER = 'drv_c07'
GENERATED = ['C07SaveRule']

CLAIM = {
    'technique': 'Lean 4 proof over EVERY prefix of the event trace of a run (calls + the individual file-system '
                 'steps of every partial/final save) for two write disciplines, composed with the C05 loop '
                 'specification; write discipline and save-rule constants regenerated from the source; fault '
                 'enumeration on the real code (exception and hard-kill snapshot after every instrumented event, '
                 'torn writes) compared with the model per crash point',
    'text': 'Model = the C05 runner machine + a durable store (per variation: absent | torn | valid(acc, skipped, rep, '
            'tag), plus a temp-file flag; one slot for the final results file) + the schedule of '
            'save_partial_results_maybe driven by an arbitrary stream of call durations + the trace of everything '
            'a crash can separate. Kernel-checked for every results type and merge (no law assumed), every rep_max, '
            '_keep_going, number of variations, save period/threshold, duration stream (= every save schedule), '
            'outcome stream, and EVERY crash point (any prefix of the trace, i.e. inside any repetition and between '
            'any two file-system steps of any save): (1) crash_never_worse / saved_is_prefix_merge_run: after the '
            'crash every variation before the interrupted one holds its final state, the interrupted one holds its '
            'old file or the merge of a PREFIX of its own outcomes, later files are untouched, the segments are '
            'disjoint pieces of the stream; with temp+os.replace no file is ever torn; (2) saved_is_prefix_merge: '
            'invariant over any number of interrupted runs - every file is missing or the merge and count of one '
            'sequence of successful calls, tagged with its own parameters; (3) resume_exact: a restart with the same '
            'parameters on the crash disk never raises, and when it returns each variation\'s result and count are '
            'those of ONE run over (durably saved prefix of run 1) ++ (what run 2 executed), guard false at the end, '
            'resume_completes: it returns normally when the stream holds n*max(1,rep_max) successes, '
            'calls = |seg2| per variation in order - nothing lost, nothing counted twice; resume_exact_count: with '
            'the default _keep_going exactly rep_max repetitions for every variation; restart_never_fails on every '
            'reachable disk; completed_variation_not_rerun; restart_ignores_temp_files (leftover .tmp, swept .tmp, '
            'half-written final file make no difference); (4) mismatch_refused: a file saved for other parameters '
            '=> no normal return, no call and no write for that variation, ValueError; (5) torn_breaks_restart: '
            'negative witness for in-place writing (the code before the fix); simulate_spec ties a complete run to '
            'the C05 specification. generated_save_matches_model is re-proved against the source on every run: the '
            'file-system steps of _save_to_pickle/_save_to_json must be [open tmp, write, os.replace] and the save '
            'rule `> 300 or % 500 == 0`. The model is tied to runner.py/results.py by fault enumeration: every event '
            'of the trace is an instrumented step of the code (call, open, write, os.replace); for every scenario '
            'and every crash point (plus 3 torn-write variants per write) the files after the crash, restart status, '
            'call log, runned_reps, stored statistics (unique per-call tokens) and files after the restart are '
            'compared with the model, once with exception unwinding and once on a directory snapshot taken at the '
            'crash (hard kill); independent oracles re-check the property from files and raw call logs.',
    'note': 'R8-R14: R8 argument forms - simulate() / simulate(None) / simulate(param_variation_index=None), '
            'set_results_filename positional / keyword, partial_results_folder default / explicitly the default / custom / '
            'None, delete flag explicit, the configuration setters in random order, and the documented equivalent entry '
            'point: the restart as simulate(0), simulate(1), ... (same or fresh runner per call) followed by simulate() - '
            'in the MODEL (simSingleC / simSinglesC, driver via=singles[:list]; theorem single_variation_run: crash spec, '
            'other files untouched, the saved file is what a later simulate() loads) + correspondence + oracles; there is '
            'no constructor path for this configuration (the constructor only takes a config file). R9 the variation '
            'index as int / np.int8..int64 / np.uint8/16 / np.intp / 0-d array / str / bool, positional and keyword, '
            'indexes 255..257 of 258 variations: correspondence + oracle. R10 result values whose type changes from '
            'repetition to repetition (np.int32/int16/int/int64 then float/float32 with .5 fractions; the sum must not '
            'be truncated to the first type) and parameter lists with mixed element types: correspondence + oracle. R11 '
            '27 query methods of runner / parameters / results (repr, properties, get_*, ==, !=, to_dict, pickle, deep '
            'copies) called before and after every run with everything observable (values, value TYPES, file names, files) '
            'compared around each call, the runs then compared with the model as usual: oracle (query-mutates:<name>, '
            'query-raises:<name>) + correspondence; in the model every function is pure. R12 insertion order of the '
            'parameters (different in the two runs), of the configuration steps and of the named results inside every '
            'repetition (all SUMTYPE, so a positional mix-up is silent), results checked by NAME (named-result-mixed-up): '
            'correspondence + oracle. R13 unpacked children mutated after derivation (values, added / removed '
            'parameters) must not reach the parent or the run; the parent changed IN PLACE (add / remove / __setitem__ / '
            'set_unpack_parameter / growing the list object the user holds) on the interrupted runner before it simulates '
            'again must be refused or extended exactly like a new configuration; pickle round trip of a child gives the '
            'child; the saved partial file carries the child: correspondence + oracle. R14 258 variations (3-digit file '
            'names, indexes above 256), 300 named results per repetition, 300 parameters (a change in p257 alone must be '
            'refused): correspondence + oracle, sampled crash points (quick: 2 of the 258-variation run; 2^16+1 is not '
            'cheap here: 5 ms per repetition). A library exception anywhere (configuration, first run, queries, reading) '
            'is a failing input with a replay (first-run-raises / library-exception / restart-fails), never exit 2. '
            'Power loss (one level below os.replace): Model/C07Power.lean gives every file a buffer, an OS content and a '
            'durable content; atomic_protocol_power_safe / power_loss_is_a_crash_point prove that with the protocol '
            '[open tmp, write, flush, fsync, close, rename] a power loss after ANY prefix of the trace leaves exactly '
            'the results files a process kill at that point leaves (old complete or new complete, sound again), so '
            'every crash theorem holds verbatim for power losses; no_flush / no_fsync / fsync_after_rename are proved '
            'negative witnesses; the regenerated tie requires flush, fsync, close, rename in this order in the source. '
            'On the real code flush / os.fsync / close / os.replace are instrumented events and the bytes made durable by '
            'the last fsync of each file are tracked; a power loss at a crash point = the directory as the OS has it with '
            'every file written by the run cut to its fsynced size (renames kept), then a fresh restart, compared with '
            'the model\'s PDisk prediction and the oracles (quick: after every fsync/close/rename; thorough: after every '
            'file event and torn write). What remains trusted there: the operating system honouring fsync (fsynced '
            'bytes survive), rename being atomic and itself persistent (no directory fsync is modelled), truncation to '
            'the fsynced size as the power-loss outcome (no reordered or garbage blocks). '
            'Trusted beyond the common base: the hand model <-> code correspondence (a behaviour not reached by the '
            'generators is not tied); harness/gen/c07.py recognising the write steps in the AST; os.replace is '
            'atomic and durable, fsync ordering / page cache below it are outside the model (the snapshot hard kill '
            'shows the directory as the OS has it at that moment, not a power loss); pickle of a complete file '
            'loads, a proper prefix of a pickle never loads. Termination is relative to the outcome stream: '
            'resume_completes proves a normal return whenever the stream holds n*max(1,rep_max) successful outcomes; '
            'a _run_simulation that skips for ever is the explicit Exhausted ending. Not modelled: '
            'delete_partial_results_bool=True (deleting partial files after the final save; that path is checked by the '
            'property oracles on the real code only, every crash point incl. between the removals), simulate(index) '
            'under crashes, simulate_in_parallel, progress bars, a change in the number of digits of the variation '
            'count between runs (other file names). The in-place model is kept for the negative witness; it matched '
            'the unfixed code on every exception crash point. '
            'Robustness classes: R4 by theorem (refused_restart_changes_nothing, mismatch_refused: a refused restart '
            'performs no call and no file-system step; the following correct restart equals a direct one) + '
            'correspondence (byte-identical folder, restart-after-refusal compared with the model) + oracle; R5/R7 '
            'kinds of parameter difference (changed value, removed / ADDED scalar or array parameter, changed unpacked '
            'set, grid reordered / shrunk / extended, int->str, 0->None, changed shape incl. broadcast-compatible and '
            'size-0) by correspondence (the model only sees tag (in)equality, computed from the logical values) + '
            'oracle classes mismatch-not-refused:<kind>; R1 (int/float/np.int8..int64/uint8/uint16/float16/float32 '
            'scalars, int16/int32/int64/uint8/float32/complex64 arrays, tuples for parameters, rep_max and result '
            'values; representation changed BETWEEN the runs must resume) and R2 (reversed / strided / zero-stride / '
            'Fortran views, 0-d arrays, 2-D values, zero-length unpacked axis, size-0 values) by correspondence + '
            'oracle only (the model is a function of the logical value by construction: tags are abstract); R3 (values '
            'handed to the runner unchanged after crash, restart and a further restart; an earlier runner keeps its '
            'results when another runner sharing the same parameter objects restarts) oracle only; R5 boundaries '
            '(rep_max 0/1/499/500/501/1001, single variation, zero variations, 0/None/\'\' parameter values, first/last '
            'crash index) correspondence + the theorems are unbounded; R6 (all result values x 2^40 / 2^-40 with a stop '
            'rule on the sum; compared after exact unscaling) correspondence only - the runner has no tolerance; R7 '
            '(simulate() again on the SAME runner object after the interruption, also with a raised rep_max; repeated '
            'restart in a completed folder) correspondence + oracle; in the model a run is a function of the disk alone, '
            'so no runner state exists to go stale (restart_ignores_temp_files). list vs tuple as the VALUE of a fixed '
            'parameter is not exercised (the library treats them as different values, refusing the restart).',
}

PERIOD = 500
SECS = 300
BASE = 'res'
TOKBITS = 480      # the unique token 2^position is stored in chunks (pyphysim's Result converts to float)


def ntok(case):
    return (len(case['outs1']) + len(case['outs2'])) // TOKBITS + 1


def tok_of(res, j, n):
    """the token sum of the j-th stored variation, reassembled from its chunks"""
    return sum(int(res['tok%d' % k][j]._value) << (TOKBITS * k) for k in range(n))


class Crash(BaseException):
    """the injected interruption"""


class ScriptExhausted(BaseException):
    """the scripted outcome stream ran out (a real program would still be running)"""


# ------------------------------------------------------------------ keep rules (as C05)
def eval_rule(rule, s, k, r):
    t = rule.split(':')
    if t[0] == 'always':
        return True
    if t[0] == 'sumlt':
        return s < int(t[1])
    if t[0] == 'replt':
        return r < int(t[1])
    if t[0] == 'skiplt':
        return k < int(t[1])
    raise ValueError(rule)


# ------------------------------------------------------------------ parameters
# A spec holds LOGICAL values (ints, strings, None, nested lists of ints); `spec['rep'][name]` says how the value
# is handed to the library (R1 element types / R2 layouts).  Two specs with the same logical values are the
# same parameters whatever their representation.
SCALAR_REPS = ['int', 'float', 'np.int8', 'np.uint8', 'np.int16', 'np.uint16', 'np.int32', 'np.int64',
               'np.float16', 'np.float32', 'np.float64', 'nd0']
SEQ_REPS = ['list', 'mixlist', 'nd:int16', 'nd:int32', 'nd:int64', 'nd:uint8', 'nd:float32', 'nd:float64', 'nd:complex64',
            'nd:int64:rev', 'nd:float64:stride', 'nd:int32:F', 'nd:int64:bcast']


def build(v, rep):
    """the Python object for the logical value `v` in representation `rep`"""
    import numpy as np
    if v is None or isinstance(v, str):
        return v
    if isinstance(v, (list, tuple)):
        rep = rep or 'list'
        if rep == 'list':
            return [build(x, None) if isinstance(x, list) else x for x in v]
        if rep == 'mixlist':        # R10: a list whose elements differ in type
            kinds = ['int', 'float', 'np.int16', 'np.float32', 'np.int64', 'nd0']
            return [build(x, None) if isinstance(x, list) else build(x, kinds[j % len(kinds)])
                    for j, x in enumerate(v)]
        if rep == 'tuple':
            return tuple(v)
        t = rep.split(':')
        dt = getattr(np, t[1])
        flag = t[2] if len(t) > 2 else ''
        if flag == 'rev':            # a negative-stride view
            return np.array(v[::-1], dtype=dt)[::-1]
        if flag == 'stride':         # every second element of a longer buffer
            buf = np.zeros(2 * len(v), dtype=dt) if not v or not isinstance(v[0], list) \
                else np.zeros((2 * len(v),) + np.shape(v[0]), dtype=dt)
            buf[::2] = v
            return buf[::2]
        if flag == 'F':              # Fortran order (matters for 2-D values)
            return np.asfortranarray(np.array(v, dtype=dt))
        if flag == 'bcast' and v and all(x == v[0] for x in v) and not isinstance(v[0], list):
            return np.broadcast_to(np.array(v[0], dtype=dt), (len(v),))     # zero-stride view
        return np.array(v, dtype=dt)
    if v != v:
        return float('nan')
    rep = rep or 'int'
    if rep == 'int':
        return int(v)
    if rep == 'float':
        return float(v)
    if rep == 'nd0':
        return np.array(v)
    if rep == 'bool':
        return bool(v)
    if rep.startswith('nd:'):
        return np.array(v, dtype=getattr(np, rep.split(':')[1]))     # a 0-d array of that dtype
    if rep in ('list', 'tuple'):
        return int(v)
    return getattr(np, rep.split('.')[1])(v)


def canon(v):
    """logical value of a Python object (numbers by value, sequences by shape and elements)"""
    import numpy as np
    from fractions import Fraction
    if v is None:
        return ('none',)
    if isinstance(v, str):
        return ('str', v)
    if isinstance(v, np.ndarray):
        if v.ndim == 0:
            return canon(v.item())
        return ('seq', tuple(canon(x) for x in v))
    if isinstance(v, (list, tuple)):
        return ('seq', tuple(canon(x) for x in v))
    if isinstance(v, (complex, np.complexfloating)):
        if v.imag != 0:
            return ('cplx', repr(complex(v)))
        v = v.real
    if v != v:
        return ('nan',)
    return ('num', Fraction(float(v)) if isinstance(v, (float, np.floating)) else Fraction(int(v)))


def order_of(items, seed, salt):
    """R12: an insertion order derived from `seed` (None = as listed)"""
    items = list(items)
    if seed is not None:
        core.Rng(seed, 'c07-order-%s' % salt).shuffle(items)
    return items


def make_params(p, spec, order=None, built=None):
    """fill the SimulationParameters object `p` (in the insertion order given by `order`); returns the objects
    that were handed over (`built`: hand over these objects instead of building new ones)"""
    rep = spec.get('rep', {})
    built = dict(built) if built is not None else {}
    for k, v in spec['fixed'].items():
        if k not in built:
            built[k] = build(v, rep.get(k))
    for n in spec['names']:
        if n not in built:
            built[n] = build(list(spec['vals'][n]), rep.get(n))
    for k in order_of(sorted(spec['fixed']) + list(spec['names']), order, 'params'):
        p.add(k, built[k])
    for n in order_of(spec['names'], order, 'unpack'):
        p.set_unpack_parameter(n)
    return built


def nvar_of(spec):
    n = 1
    for nm in spec['names']:
        n *= len(spec['vals'][nm])
    return n


def variation_keys(spec):
    """what identifies variation i: its index and the LOGICAL values of its parameters (rep_max excluded) —
    written down here from the statement of the property, not from `__eq__`"""
    names = sorted(spec['names'])
    dims = [len(spec['vals'][n]) for n in names]
    out = []
    for i in range(nvar_of(spec)):
        j, combo = i, {}
        for name, d in reversed(list(zip(names, dims))):
            j, k = divmod(j, d)
            combo[name] = spec['vals'][name][k]
        items = dict(spec['fixed'])
        items.update(combo)
        idx = i if names else -1
        out.append((idx, tuple(sorted((k, canon(v)) for k, v in items.items()))))
    return out


def params_key(p):
    """the same identification computed from a SimulationParameters object (a loaded file)"""
    return (p.unpack_index, tuple(sorted((k, canon(v)) for k, v in p.parameters.items() if k != 'rep_max')))


def diff_kind(case):
    """how the parameters of run 2 differ from those of run 1 (computed from the two specs)"""
    p1, p2 = case['p1'], case['p2']
    if variation_keys(p1) == variation_keys(p2):
        return 'same' if p1.get('rep', {}) == p2.get('rep', {}) else 'representation-only'
    n1 = set(p1['fixed']) | set(p1['names'])
    n2 = set(p2['fixed']) | set(p2['names'])
    if n2 - n1:
        return 'added-parameter'
    if n1 - n2:
        return 'removed-parameter'
    if set(p1['names']) != set(p2['names']):
        return 'unpacked-set-changed'
    for k in p1['fixed']:
        a, b = canon(p1['fixed'][k]), canon(p2['fixed'][k])
        if a != b:
            if a[0] != b[0] and 'seq' not in (a[0], b[0]):
                return 'type-changed'
            if a[0] != b[0] or (a[0] == 'seq' and len(a[1]) != len(b[1])):
                return 'shape-changed'
            return 'value-changed'
    return 'grid-changed'


def tag_table(case):
    tab = {}
    for spec in (case['p1'], case['p2']):
        for key in variation_keys(spec):
            tab.setdefault(key, len(tab))
    return tab


def idx_str(spec, i):
    total = nvar_of(spec)
    return str(i if spec['names'] else -1).zfill(len(str(total)))


# ------------------------------------------------------------------ case -> driver line
def case_line(case, pts):
    tab = tag_table(case)
    t1 = [tab[k] for k in variation_keys(case['p1'])]
    t2 = [tab[k] for k in variation_keys(case['p2'])]

    def outs(o):
        return ','.join('s' if x == 's' else str(x) for x in o)

    def clk(c):
        return ','.join(str(x) for x in c)
    return ('resume via=%s mode=%s period=%d secs=%d keep=%s n1=%d rm1=%d tags1=%s outs1=%s clk1=%s '
            'n2=%d rm2=%d tags2=%s outs2=%s clk2=%s pts=%s') % (
        case.get('via', 'all') + (':' + ','.join(map(str, case['single_idx'])) if case.get('single_idx') else ''),
        case.get('mode', 'atomic'), PERIOD, SECS, ';'.join(case['keep']),
        len(t1), case['rm1'], ','.join(map(str, t1)), outs(case['outs1']), clk(case['clk1']),
        len(t2), case['rm2'], ','.join(map(str, t2)), outs(case['outs2']), clk(case['clk2']),
        'all' if pts is None else ','.join(map(str, pts)))


def parse_reply(reply):
    """-> (header dict, {m: {field: value}})"""
    segs = [s.strip() for s in reply.split(' ; ')]
    head = dict(t.split('=', 1) for t in segs[0].split(' ') if '=' in t)
    pts = {}
    for s in segs[1:]:
        d = dict(t.split('=', 1) for t in s.split(' ') if '=' in t)
        pts[int(d['m'])] = d
    return head, pts


# ------------------------------------------------------------------ instrumentation of the real code
class FakeClock:
    def __init__(self):
        self.now = 1000.0

    def __call__(self):
        return self.now


class Hooks:
    """counts the events of the model's trace as the code performs them; raises `Crash` right after
    event number `crash_after`, or inside the write that would be event `tear[0]` after a fraction
    `tear[1]` of its bytes; snapshots the directory at that moment (hard kill)"""

    def __init__(self, root, crash_after=None, tear=None, snap=None, final=None, psnap=None):
        self.root = os.path.realpath(root) + os.sep
        self.final = final
        self.crash_after = crash_after
        self.tear = tear
        self.snap = snap
        self.psnap = psnap        # where to put what a POWER LOSS at the crash point leaves
        self.n = 0
        self.kinds = []
        self.fired = None
        self.durable = {}         # real path -> number of bytes made durable by the last fsync of that file
        self.fds = {}             # file descriptor -> FileProxy

    def inside(self, path):
        try:
            return os.path.realpath(os.fspath(path)).startswith(self.root)
        except TypeError:
            return False

    def is_final(self, path):
        p = os.path.basename(os.fspath(path))
        return self.final is not None and p in (self.final, self.final + '.tmp')

    def fire(self, where):
        self.fired = where
        if self.snap is not None:
            shutil.copytree(self.root, self.snap, dirs_exist_ok=True)
        if self.psnap is not None:
            # power loss: the directory as the operating system has it (renames persist), every file written
            # by this run cut to the size its last fsync made durable
            shutil.copytree(self.root, self.psnap, dirs_exist_ok=True)
            for path, size in self.durable.items():
                q = os.path.join(self.psnap, os.path.relpath(path, self.root))
                if os.path.isfile(q) and os.path.getsize(q) > size:
                    os.truncate(q, size)
        raise Crash()

    def event(self, kind):
        if self.fired is not None:
            return              # exception unwinding after the crash is not part of the run
        self.n += 1
        self.kinds.append(kind)
        if self.crash_after is not None and self.n == self.crash_after:
            self.fire(kind)


class FileProxy:
    """a file opened for writing inside the results directory"""

    def __init__(self, f, hooks, kind, path):
        self.__dict__['_f'] = f
        self.__dict__['_hooks'] = hooks
        self.__dict__['_kind'] = kind
        self.__dict__['_written'] = False
        self.__dict__['_path'] = os.path.realpath(os.fspath(path))
        self.__dict__['_renamed'] = False
        self.__dict__['_closed'] = False
        hooks.durable[self._path] = 0          # created / truncated: nothing of it is durable yet
        try:
            hooks.fds[f.fileno()] = self
        except (OSError, ValueError):
            pass

    def flush(self):
        r = self._f.flush()
        if self._kind.endswith('tmpOpen'):
            self._hooks.event(self._kind.replace('tmpOpen', 'tmpFlush'))
        return r

    def close(self):
        if not self._closed:
            self.__dict__['_closed'] = True
            try:
                self._hooks.fds.pop(self._f.fileno(), None)
            except (OSError, ValueError):
                pass
            self._f.close()
            if self._kind.endswith('tmpOpen'):
                self._hooks.event(self._kind.replace('tmpOpen', 'tmpClose'))

    def write(self, data):
        h = self._hooks
        if not self._written:
            self.__dict__['_written'] = True
            if h.tear is not None and h.n + 1 == h.tear[0]:
                cut = min(len(data) - 1, max(0, int(len(data) * h.tear[1])))
                self._f.write(data[:cut])
                self._f.flush()
                h.fire('tear:' + self._kind)
            r = self._f.write(data)
            h.event(self._kind.replace('tmpOpen', 'tmpWrite').replace('trunc', 'write'))
            return r
        return self._f.write(data)

    def __enter__(self):
        return self

    def __exit__(self, *a):
        self.close()
        return False

    def __getattr__(self, name):
        return getattr(self._f, name)

    def __iter__(self):
        return iter(self._f)


class Instrument:
    """context manager: patches builtins.open, os.replace and the clock of runner.py"""

    def __init__(self, hooks, clock):
        self.hooks = hooks
        self.clock = clock

    def __enter__(self):
        import pyphysim.simulations.runner as rmod
        self.rmod = rmod
        self.real_open = builtins.open
        self.real_replace = os.replace
        self.real_remove = os.remove
        self.real_fsync = os.fsync
        self.real_time = rmod.time
        hooks = self.hooks
        real_open = self.real_open
        real_replace = self.real_replace

        def my_open(file, mode='r', *a, **k):
            f = real_open(file, mode, *a, **k)
            if hooks is not None and isinstance(mode, str) and ('w' in mode or 'a' in mode or 'x' in mode) \
                    and hooks.inside(file):
                kind = ('F' if hooks.is_final(file) else '') + \
                    ('tmpOpen' if os.fspath(file).endswith('.tmp') else 'trunc')
                try:
                    hooks.event(kind)
                except Crash:
                    f.close()
                    raise
                return FileProxy(f, hooks, kind, file)
            return f

        def my_replace(src, dst, *a, **k):
            rs = os.path.realpath(os.fspath(src))
            rd = os.path.realpath(os.fspath(dst))
            r = real_replace(src, dst, *a, **k)
            if hooks is not None and hooks.inside(dst):
                # the rename persists; the content is durable as far as the renamed file was
                hooks.durable[rd] = hooks.durable.pop(rs, 0)
                for pr in hooks.fds.values():
                    if pr._path == rs:
                        pr.__dict__['_path'] = rd
                        pr.__dict__['_renamed'] = True
                hooks.event(('F' if hooks.is_final(dst) else '') + 'rename')
            return r
        real_fsync = self.real_fsync

        def my_fsync(fd):
            r = real_fsync(fd)
            pr = hooks.fds.get(fd) if hooks is not None else None
            if pr is None and hooks is not None:
                # a descriptor opened some other way (os.open of the renamed file, ...)
                try:
                    path = os.path.realpath('/proc/self/fd/%d' % fd)
                except OSError:
                    path = None
                if path in hooks.durable:
                    hooks.durable[path] = os.fstat(fd).st_size
                    hooks.event(('F' if hooks.is_final(path) else '') + 'syncMain')
            if pr is not None:
                hooks.durable[pr._path] = os.fstat(fd).st_size      # what the operating system has of it now
                if pr._renamed:
                    hooks.event(('F' if hooks.is_final(pr._path) else '') + 'syncMain')
                elif pr._kind.endswith('tmpOpen'):
                    hooks.event(pr._kind.replace('tmpOpen', 'tmpFsync'))
            return r
        real_remove = self.real_remove

        def my_remove(path, *a, **k):
            r = real_remove(path, *a, **k)
            # deleting a partial-results file (delete_partial_results_bool); the clean-up of a temp
            # file during exception unwinding is not an event of the run
            if hooks is not None and hooks.fired is None and hooks.inside(path) \
                    and not os.fspath(path).endswith('.tmp'):
                hooks.event('remove')
            return r
        builtins.open = my_open
        os.replace = my_replace
        os.remove = my_remove
        os.fsync = my_fsync
        rmod.time = self.clock
        return self

    def __exit__(self, *a):
        builtins.open = self.real_open
        os.replace = self.real_replace
        os.remove = self.real_remove
        os.fsync = self.real_fsync
        self.rmod.time = self.real_time
        return False


def scale_of(case):
    return 2.0 ** case['scale_exp'] if case.get('scale_exp') else 1


def out_value(o, case, c=0):
    """the value a scripted repetition returns for the logical outcome `o` (R1 types, R6 scale, R10 mixed)"""
    if case.get('out_mix'):
        # logical value o/2 (scale_exp = -1): an integer type when that is exact and the call index is even,
        # a float (possibly x.5) otherwise - the accumulated sum must not be truncated to the first type
        import numpy as np
        if o % 2 == 0 and c % 2 == 0:
            return [np.int32, np.int16, int, np.int64][(c // 2) % 4](o // 2)
        return [float, np.float32, np.float64][c % 3](o * 0.5)
    if case.get('scale_exp'):
        return float(o) * scale_of(case)
    return build(o, case.get('out_rep'))


def unscale(x, case):
    """logical value of a stored sum (exact: the scale is a power of two)"""
    if case.get('scale_exp'):
        return x / scale_of(case)
    return x


FOLDERS = {'explicit': 'partial_results', 'custom': 'pr2', 'none': None}


def folder_of(case):
    f = (case.get('forms') or {}).get('folder', 'default')
    return 'partial_results' if f == 'default' else FOLDERS[f]


def make_runner(case, which, built=None):
    """a scripted runner configured for run `which`; what it does is in `runner.script` (see `arm`)"""
    from pyphysim.simulations.results import Result, SimulationResults
    from pyphysim.simulations.runner import SimulationRunner, SkipThisOne

    class Scripted(SimulationRunner):
        def __init__(self):
            super().__init__(read_command_line_args=False)
            self.update_progress_function_style = None
            self.script = None

        def _run_simulation(self, current_parameters):
            sc = self.script
            outs, clk, off = sc['outs'], sc['clk'], sc['off']
            if sc['pos'] >= len(outs):
                raise ScriptExhausted()
            c = sc['pos']
            o = outs[c]
            sc['pos'] += 1
            sc['clock'].now += clk[c] if c < len(clk) else 0
            sc['log'].append((max(current_parameters.unpack_index, 0), off + c, o))
            if sc['hooks'] is not None:
                sc['hooks'].event('call')
            if o == 's':
                raise SkipThisOne('scripted skip')
            cs = sc['case']
            val = out_value(o, cs, off + c)
            entries = [('sum', val)]
            for k in range(sc['nt']):
                entries.append(('tok%d' % k, (1 << ((off + c) % TOKBITS)) if (off + c) // TOKBITS == k else 0))
            for j in range(cs.get('extra_results', 0)):     # R14: many named results, all of the same type
                entries.append(('x%03d' % j, val))
            r = SimulationResults()
            # R12: the order in which a repetition adds its results is not part of their meaning
            for name, v in order_of(entries, None if cs.get('order') is None else cs['order'] * 1009 + off + c,
                                    'results'):
                r.add_new_result(name, Result.SUMTYPE, v)
            return r

        def _keep_going(self, current_params, current_sim_results, current_rep):
            sc = self.script
            pos = max(current_params.unpack_index, 0)
            keep = sc['case']['keep']
            return eval_rule(keep[pos % len(keep)], unscale(current_sim_results['sum'][-1]._value, sc['case']),
                             current_sim_results['num_skipped_reps'][-1]._value, current_rep)

    runner = Scripted()
    spec = case['p%d' % which]
    forms = case.get('forms') or {}
    order = None if case.get('order') is None else case['order'] * 31 + which

    def set_params():
        runner.built = make_params(runner.params, spec, order, built)

    def set_name():
        if forms.get('filename') == 'kw':
            runner.set_results_filename(filename=BASE + case.get('ext', ''))
        else:
            runner.set_results_filename(BASE + case.get('ext', ''))

    def set_folder():
        if forms.get('folder', 'default') != 'default':
            runner.partial_results_folder = FOLDERS[forms['folder']]

    def set_delete():
        if case.get('delete'):
            runner.delete_partial_results_bool = True
        elif forms.get('delete') == 'explicit':
            runner.delete_partial_results_bool = False

    # R8: the pieces of configuration are independent setters; the order in which they are made is not meaningful
    for step in order_of([set_params, set_name, set_folder, set_delete], order, 'config'):
        step()
    return runner


def new_script(case, which, hooks, clock, log):
    return {'outs': case['outs%d' % which], 'clk': case['clk%d' % which], 'pos': 0,
            'off': 0 if which == 1 else len(case['outs1']), 'log': log, 'hooks': hooks,
            'clock': clock, 'case': case, 'nt': ntok(case)}


def arm(runner, case, which, script):
    runner.rep_max = build(case['rm%d' % which], case.get('rm_rep'))
    runner.script = script


IDX_FORMS = ['int', 'np.int8', 'np.int16', 'np.int32', 'np.int64', 'np.uint8', 'np.uint16', 'np.intp', 'nd0', 'str',
             'bool', 'kw:int', 'kw:np.int64']


def idx_obj(i, form):
    """R9: the index `i` of a variation in one of the forms `simulate(param_variation_index)` accepts"""
    import numpy as np
    form = form.split(':')[-1]
    if form == 'str':
        return str(i)
    if form == 'nd0':
        return np.array(i)
    if form == 'bool':
        return bool(i) if i in (0, 1) else i
    if form.startswith('np.'):
        t = getattr(np, form[3:])
        return t(i) if i <= np.iinfo(t).max else np.int64(i)
    return int(i)


def call_simulate(runner, form):
    if form == '(None)':
        runner.simulate(None)
    elif form == 'kw':
        runner.simulate(param_variation_index=None)
    else:
        runner.simulate()


def mutate_children(runner):
    """R13: objects derived from the parameters (the unpacked children) are changed; the parent - and what is
    simulated - must not follow"""
    lst = runner.params.get_unpacked_params_list()
    for ch in lst:
        if ch is runner.params:         # nothing is unpacked: the "child" IS the parent (documented)
            continue
        for k in list(ch.parameters):
            v = ch.parameters[k]
            if isinstance(v, list):
                v.append(12345)
            elif hasattr(v, 'fill') and getattr(v, 'ndim', 0) > 0 and v.flags.writeable:
                v.fill(77)
        ch.add('zz_child_only', 1)
        ch.parameters.pop(sorted(ch.parameters)[0], None)


def mutate_parent(runner, p1, p2):
    """R13/R7: the parameters object of a runner that already ran is changed IN PLACE through its mutators
    (and through the list objects the user still holds) into the parameters `p2`"""
    params = runner.params
    rep = p2.get('rep', {})
    for k in list(p1['fixed']):
        if k not in p2['fixed'] and k not in p2['names']:
            params.remove(k)
    for k, v in p2['fixed'].items():
        if k not in p1['fixed'] or canon(p1['fixed'][k]) != canon(v):
            if k in p1['fixed']:
                params[k] = build(v, rep.get(k))          # __setitem__
            else:
                params.add(k, build(v, rep.get(k)))
    for n in p2['names']:
        if n in p1['names'] and p1['vals'][n] != p2['vals'][n]:
            old = runner.built.get(n)
            if isinstance(old, list) and p2['vals'][n][:len(p1['vals'][n])] == p1['vals'][n]:
                old.extend(p2['vals'][n][len(p1['vals'][n]):])    # the list object itself grows
            else:
                params[n] = build(list(p2['vals'][n]), rep.get(n))
        elif n not in p1['names']:
            if n not in p1['fixed']:
                params.add(n, build(list(p2['vals'][n]), rep.get(n)))
            params.set_unpack_parameter(n)


def _int(x):
    try:
        return str(int(x)) if int(x) == x else repr(x)
    except Exception:
        return repr(x)


def final_name(case):
    ext = case.get('ext', '')
    return BASE + (ext if ext else '.pickle')


def part_name(case, spec, i):
    name = '%s%s_unpack_%s.pickle' % (BASE, case.get('ext', ''), idx_str(spec, i))
    folder = folder_of(case)
    return os.path.join(folder, name) if folder is not None else name


def read_disk(case, root, tab):
    """state of the files, in the driver's format, + raw facts for the oracles"""
    from pyphysim.simulations.results import SimulationResults
    nshow = max(nvar_of(case['p1']), nvar_of(case['p2']))
    # both runs must address the same files for the comparison to make sense
    parts, facts = [], {}
    for i in range(nshow):
        spec = case['p1'] if i < nvar_of(case['p1']) else case['p2']
        fn = os.path.join(root, part_name(case, spec, i))
        s = 'A'
        if os.path.exists(fn):
            try:
                sr = SimulationResults.load_from_file(fn)
                tag = tab.get(params_key(sr.params), 'x')
                f = (int(sr.current_rep), int(sr['num_skipped_reps'][-1]._value),
                     unscale(sr['sum'][-1]._value, case), tok_of(sr, -1, ntok(case)), tag)
                s = 'V%s.%s.%s.%s.%s' % (_int(f[0]), _int(f[1]), _int(f[2]), _int(f[3]), f[4])
                facts[i] = f
            except Exception as e:      # a file that cannot be loaded
                s = 'T'
                facts[i] = ('torn', type(e).__name__)
        if os.path.exists(fn + '.tmp'):
            s += '+t'
        parts.append(s)
    fn = os.path.join(root, final_name(case))
    s = 'A'
    if os.path.exists(fn):
        try:
            sr = SimulationResults.load_from_file(fn)
            n = len(sr['sum']) if 'sum' in sr.get_result_names() else 0
            s = 'V%s/%s' % (','.join(_int(r) for r in sr.runned_reps), '_'.join(
                '%s.%s.%s' % (_int(unscale(sr['sum'][j]._value, case)), _int(tok_of(sr, j, ntok(case))),
                              _int(sr['num_skipped_reps'][j]._value)) for j in range(n)))
        except Exception:
            s = 'T'
    if os.path.exists(fn + '.tmp'):
        s += '+t'
    return '|'.join(parts) + '|F:' + s, facts


ERRMAP = {'EOFError': 'LoadError', 'UnpicklingError': 'LoadError'}


def observable(runner):
    """everything a query must leave alone"""
    res = runner.results
    names = sorted(res.get_result_names())
    saver = runner._simulation_results_saver
    return (repr(runner.rep_max), params_key(runner.params), tuple(runner.params.unpacked_parameters),
            tuple(sorted((k, describe(v)) for k, v in runner.params.parameters.items())),
            runner.results_filename, saver.results_base_filename, runner.partial_results_folder,
            runner.delete_partial_results_bool, repr(runner.runned_reps),
            tuple((n, tuple((repr(r._value), repr(r._total), r.num_updates) for r in res[n])) for n in names
                  if n != 'elapsed_time'))


def queries_for(runner, stage):
    """R11: public methods that are not documented as setters"""
    import copy
    import pickle
    p = runner.params
    q = [('repr(runner)', lambda: repr(runner)),
         ('runner.results_filename', lambda: runner.results_filename),
         ('runner.runned_reps', lambda: runner.runned_reps),
         ('runner.partial_results_folder', lambda: runner.partial_results_folder),
         ('runner.delete_partial_results_bool', lambda: runner.delete_partial_results_bool),
         ('params.get_num_unpacked_variations', lambda: p.get_num_unpacked_variations()),
         ('params.get_unpacked_params_list', lambda: p.get_unpacked_params_list()),
         ('params.unpacked_parameters', lambda: p.unpacked_parameters),
         ('params.fixed_parameters', lambda: p.fixed_parameters),
         ('repr(params)', lambda: repr(p)),
         ('len(params)', lambda: len(p)),
         ('params==copy', lambda: p == copy.deepcopy(p)),
         ('params!=other', lambda: p != runner.results.params),
         ('child==child', lambda: [c == c2 for c in p.get_unpacked_params_list()[:3]
                                   for c2 in p.get_unpacked_params_list()[:3]]),
         ('pickle(params)', lambda: pickle.loads(pickle.dumps(p))),
         ('params.to_dict', lambda: p.to_dict()),
         ('repr(results)', lambda: repr(runner.results)),
         ('len(results)', lambda: len(runner.results)),
         ('results.get_result_names', lambda: runner.results.get_result_names()),
         ('results==copy', lambda: runner.results == copy.deepcopy(runner.results))]
    if stage == 'after':
        res = runner.results
        q += [('results.get_result_values_list', lambda: res.get_result_values_list('sum')),
              ('results[name]', lambda: res['sum']),
              ('results.params', lambda: res.params),
              ('results.to_dict', lambda: res.to_dict()),
              ('pickle(results)', lambda: pickle.dumps(res)),
              ('result.get_result', lambda: [r.get_result() for r in res['sum']]),
              ('runner.elapsed_time', lambda: runner.elapsed_time)]
    return q


def query_storm(runner, stage, root):
    """call every query; returns [(name, what)] for those that changed something or raised"""
    bad = []
    for name, fn in queries_for(runner, stage):
        before, files = observable(runner), dir_digest(root)
        try:
            fn()
        except Exception as e:
            bad.append((name, 'raised %s: %s' % (type(e).__name__, str(e)[:100])))
            continue
        if observable(runner) != before:
            bad.append((name, 'changed the runner / its parameters / its results'))
        elif dir_digest(root) != files:
            bad.append((name, 'changed a file'))
    # R13: every child of the parameters survives a pickle round trip as that child
    import pickle
    for ch in runner.params.get_unpacked_params_list()[:4]:
        back = pickle.loads(pickle.dumps(ch))
        if params_key(back) != params_key(ch) or back.get_num_unpacked_variations() != ch.get_num_unpacked_variations():
            bad.append(('pickle(child)', 'the unpacked child with index %r came back as %r' % (ch.unpack_index,
                                                                                              params_key(back)[:1])))
    return bad


def run_to_end(case, which, root, tab, hooks=None, runner=None, clock=None, built=None, mutate=None):
    """run `simulate()` of run `which` in `root` (on a fresh runner unless one is given); returns observations.
    An exception of the library anywhere (configuration included) is the status, never a harness error."""
    log = []
    clock = clock or FakeClock()
    cwd = os.getcwd()
    os.chdir(root)
    status = 'ok'
    qbad = []
    forms = case.get('forms') or {}
    try:
        with Instrument(hooks, clock):
            try:
                if runner is None:
                    runner = make_runner(case, which, built)
                elif mutate is not None:
                    mutate_parent(runner, *mutate)
                script = new_script(case, which, hooks, clock, log)
                arm(runner, case, which, script)
                if which == 2 and case.get('derive'):
                    mutate_children(runner)
                if case.get('queries'):
                    qbad += query_storm(runner, 'before', root)
                if which == 2 and case.get('via') == 'singles':
                    # R8/R9: one `simulate(index)` per variation (index in many forms), then `simulate()`
                    fl = case.get('idx_forms') or ['int']
                    for i in (case.get('single_idx') or range(nvar_of(case['p2']))):
                        r = runner
                        if case.get('via_fresh'):
                            r = make_runner(case, which)
                            arm(r, case, which, script)
                        form = fl[i % len(fl)]
                        if form.startswith('kw:'):
                            r.simulate(param_variation_index=idx_obj(i, form))
                        else:
                            r.simulate(idx_obj(i, form))
                call_simulate(runner, forms.get('simulate', '()'))
                if case.get('queries'):
                    qbad += query_storm(runner, 'after', root)
            except Crash:
                status = 'crash'
            except ScriptExhausted:
                status = 'Exhausted'
            except Exception as e:
                status = ERRMAP.get(type(e).__name__, type(e).__name__)
    finally:
        os.chdir(cwd)
    ob = {'status': status, 'log': log, 'runner': runner, 'clock': clock, 'query_bad': qbad}
    ob.update(runner_stats(runner, case) if runner is not None else {'reps': [], 'stats': [], 'toks': [],
                                                                     'extra_bad': None})
    return ob


def runner_stats(runner, case):
    res = runner.results
    n = len(res['sum']) if 'sum' in res.get_result_names() else 0
    nt = ntok(case)
    stats = ['%s.%s.%s' % (_int(unscale(res['sum'][j]._value, case)), _int(tok_of(res, j, nt)),
                           _int(res['num_skipped_reps'][j]._value)) for j in range(n)]
    reps = runner.runned_reps if isinstance(runner.runned_reps, list) else [runner.runned_reps]
    extra_bad = None
    for k in range(case.get('extra_results', 0)):       # R14/R12: every named result holds ITS sum
        nm = 'x%03d' % k
        for j in range(n):
            if nm not in res.get_result_names() or res[nm][j]._value != res['sum'][j]._value \
                    or res[nm][j].num_updates != res['sum'][j].num_updates:
                extra_bad = extra_bad or (nm, j)
    return {'reps': [int(r) for r in reps], 'stats': stats, 'toks': [tok_of(res, j, nt) for j in range(n)],
            'extra_bad': extra_bad}


def describe(obj):
    """everything observable about a value handed to the library"""
    import numpy as np
    if isinstance(obj, np.ndarray):
        return ('nd', str(obj.dtype), obj.shape, obj.strides, canon(obj))
    return (type(obj).__name__, canon(obj))


def dir_digest(root):
    """names and bytes of every file below `root`"""
    out = {}
    for dp, _, fns in os.walk(root):
        for fn in fns:
            with open(os.path.join(dp, fn), 'rb') as f:
                out[os.path.relpath(os.path.join(dp, fn), root)] = f.read()
    return out


def trace_kinds(case, scratch):
    """event kinds of a complete run 1 (no crash)"""
    root = tempfile.mkdtemp(prefix='c07_', dir=scratch)
    try:
        h = Hooks(root, final=final_name(case))
        ob = run_to_end(case, 1, root, {}, h)
        return h.kinds, ob
    finally:
        shutil.rmtree(root, ignore_errors=True)


def crash_and_restart(case, m, tear, scratch, tab, hard=True, extras=False, power=False):
    """run 1 with the crash (after event m, or torn inside the write that is event tear[0]); then run 2
    in the directory as the unwinding left it (soft) and in the snapshot taken at the crash (hard).
    `case['same_runner']`: the soft restart calls simulate() again on the SAME runner object.
    `extras`: additionally (soft only) R3 inputs untouched, R4 a refused restart changes no file and a
    following correct restart behaves as if it had never happened, R3/R7 a further restart on shared
    parameter objects changes neither them nor the earlier runner's results.
    Returns {'soft': obs, 'hard': obs | None}; obs = {'crash': diskstr, 'facts', 'calls1', 'run2', 'disk', ...}"""
    root = tempfile.mkdtemp(prefix='c07_', dir=scratch)
    snap = root + '_snap' if hard and not case.get('same_runner') else None
    psnap = root + '_psnap' if power and not case.get('same_runner') else None
    out = {}
    try:
        h = Hooks(root, crash_after=m if tear is None else None, tear=tear, snap=snap, final=final_name(case),
                  psnap=psnap)
        if m == 0 and tear is None:
            ob1 = {'log': [], 'status': 'crash', 'runner': None, 'clock': None,
                   'query_bad': []}                           # killed before anything happened
            if snap:
                os.mkdir(snap)
            if psnap:
                os.mkdir(psnap)
            h.fired = 'start'
        else:
            ob1 = run_to_end(case, 1, root, tab, h)
        fired = h.fired
        for kind in ('soft', 'hard', 'power'):
            if kind != 'soft':
                src = snap if kind == 'hard' else psnap
                if src is None or not os.path.isdir(src):
                    out[kind] = None
                    continue
                shutil.rmtree(root)
                os.rename(src, root)
            crash, facts = read_disk(case, root, tab)
            before = dir_digest(root) if extras and kind == 'soft' else None
            reuse = kind == 'soft' and case.get('same_runner') and ob1['runner'] is not None
            if reuse:
                mut = (case['p1'], case['p2']) if case['p1'] is not case['p2'] and case['p1'] != case['p2'] else None
                ob2 = run_to_end(case, 2, root, tab, runner=ob1['runner'], clock=ob1['clock'], mutate=mut)
            else:
                ob2 = run_to_end(case, 2, root, tab)
            disk, facts2 = read_disk(case, root, tab)
            ob = {'crash': crash, 'facts': facts, 'calls1': len(ob1['log']), 'log1': ob1['log'],
                  'status1': ob1['status'], 'fired': fired if kind != 'power' else 'power-loss:%s' % fired,
                  'fired_raw': fired, 'run2': ob2, 'disk': disk, 'facts2': facts2,
                  'run1q': ob1.get('query_bad')}
            if extras and kind == 'soft':
                ex = {}
                # R3: the values handed to the runners are what they were
                mutated_on_purpose = bool(reuse and case['p1'] != case['p2'])
                for which, r in ((1, ob1['runner']), (2, ob2['runner'])):
                    if r is None or mutated_on_purpose:
                        continue
                    spec = case['p%d' % which]
                    fresh = {k: build(v, spec.get('rep', {}).get(k)) for k, v in spec['fixed'].items()}
                    fresh.update({n: build(list(spec['vals'][n]), spec.get('rep', {}).get(n)) for n in spec['names']})
                    for k in sorted(fresh):
                        if describe(r.built[k]) != describe(fresh[k]):
                            ex['input_mutated'] = (k, spec.get('rep', {}).get(k), repr(describe(r.built[k]))[:120])
                # R4: a refused restart leaves every file as it was; then the correct restart
                k1, k2 = variation_keys(case['p1']), variation_keys(case['p2'])
                if ob2['status'] == 'ValueError' and not ob2['log'] and 0 in facts and k1[:1] != k2[:1]:
                    # the very first variation is refused: nothing at all may have happened
                    after = dir_digest(root)
                    ex['refused_changed'] = sorted(k for k in set(before) | set(after) if before.get(k) != after.get(k))
                    case_ok = dict(case, p2=case['p1'])
                    crash_ok, facts_ok = read_disk(case_ok, root, tab)
                    ob3 = run_to_end(case_ok, 2, root, tab)
                    disk3, facts3 = read_disk(case_ok, root, tab)
                    ex['after_refusal'] = dict(ob, crash=crash_ok, facts=facts_ok, run2=ob3, disk=disk3, facts2=facts3)
                # R3/R7: one more restart, on the SAME parameter objects, in the completed folder
                if ob2['status'] == 'ok' and not mutated_on_purpose:
                    snap2 = runner_stats(ob2['runner'], case)
                    ob3 = run_to_end(case, 2, root, tab, built=ob2['runner'].built)
                    ex['again'] = {'status': ob3['status'], 'calls': len(ob3['log']), 'stats': ob3['stats'],
                                   'reps': ob3['reps'], 'earlier_now': runner_stats(ob2['runner'], case),
                                   'earlier_then': snap2}
                    for k in sorted(ob2['runner'].built):
                        spec = case['p2']
                        v = spec['fixed'][k] if k in spec['fixed'] else list(spec['vals'][k])
                        if describe(ob2['runner'].built[k]) != describe(build(v, spec.get('rep', {}).get(k))):
                            ex['input_mutated'] = (k, spec.get('rep', {}).get(k), 'after a further restart')
                ob['extras'] = ex
            out[kind] = ob
        return out
    finally:
        shutil.rmtree(root, ignore_errors=True)
        for x in (snap, psnap):
            if x:
                shutil.rmtree(x, ignore_errors=True)


def impl_repr(ob):
    r2 = ob['run2']
    return 'calls1=%d crash=%s st=%s log=%s reps=%s res=%s disk=%s' % (
        ob['calls1'], ob['crash'], r2['status'], ','.join(str(c[0]) for c in r2['log']),
        ','.join(map(str, r2['reps'])), '_'.join(r2['stats']), ob['disk'])


def model_repr(d, soft):
    """`soft`: True (exception), False (hard kill) or 'power' (power loss: the model's PDisk)"""
    if soft == 'power':
        if d['prun2'] != 'same':
            d = dict(d, **dict(t.split('=', 1) for t in d['prun2'].split('~') if '=' in t))
        return 'calls1=%s crash=%s st=%s log=%s reps=%s res=%s disk=%s' % (
            d['calls1'], d['pcrash'], d['st'], d['log'], d['reps'], d['res'], d['disk'])
    # exception unwinding removes the temp file that was being written (Disk.sweep); a hard kill does not
    crash = d['crash'].replace('+t', '') if soft else d['crash']
    disk = d['disk'].replace('+t', '') if soft else d['disk']
    return 'calls1=%s crash=%s st=%s log=%s reps=%s res=%s disk=%s' % (
        d['calls1'], crash, d['st'], d['log'], d['reps'], d['res'], disk)


# ------------------------------------------------------------------ first-principles oracles
def popcount(x):
    return bin(int(x)).count('1')


def oracle_point(case, ob):
    """The property, checked on one crash point from the files and the raw call logs alone.
    Returns [(call, class, detail)]."""
    out = []
    call = 'SimulationRunner.simulate'
    fired = ob['fired'] or 'end'
    same = variation_keys(case['p1']) == variation_keys(case['p2'])
    kind = diff_kind(case)
    k1 = variation_keys(case['p1'])
    k2 = variation_keys(case['p2'])
    tab = tag_table(case)
    facts = ob['facts']
    r2 = ob['run2']
    rm2 = case['rm2']
    # --- what the crashed run did, by variation: tokens and values of the successful calls, in order
    ok1 = {}
    for v, pos, o in ob['log1']:
        if o != 's':
            ok1.setdefault(v, []).append((1 << pos, o))
    # the call that was being executed when the interruption came returned nothing
    if ob.get('fired_raw', fired) == 'call' and ob['log1'] and ob['log1'][-1][2] != 's':
        v = ob['log1'][-1][0]
        ok1[v] = ok1[v][:-1]
    # --- saved_is_prefix_merge: a loadable file holds the first k successful repetitions of its variation
    for i, f in sorted(facts.items()):
        if f[0] == 'torn':
            continue
        rep, _skipped, sm, tok, tag = f
        mine = ok1.get(i, [])
        if i >= len(k1) or rep > len(mine) or tok != sum(t for t, _ in mine[:rep]) \
                or sm != sum(o for _, o in mine[:rep]) or tag != tab[k1[i]] or rep < 1:
            out.append((call, 'saved-not-prefix-merge',
                        'after the crash (%s) the file of variation %d holds rep=%r sum=%r tok=%r tag=%r; '
                        'its successful repetitions so far: %r' % (fired, i, rep, sm, tok, tag, mine)))
            return out
    # --- the restart
    if same:
        if r2['status'] not in ('ok', 'Exhausted'):
            torn = sorted(i for i, f in facts.items() if f[0] == 'torn')
            cls = 'restart-fails:after-' + fired
            if not torn and kind == 'representation-only':
                cls = 'same-parameters-refused:representation-only'   # R1/R2: same values, other types/layout
            elif not torn and any(c[0] == 'nan' for k in k1 for _, c in k[1]):
                cls = 'same-parameters-refused:nan-value'
            out.append((call, cls, 'restart with the same parameters raised %s; unreadable partial files: %r'
                        % (r2['status'], torn)))
            return out
        first_bad = None
    else:
        first_bad = None
        for i in range(len(k2)):
            f = facts.get(i)
            if f is not None and (f[0] == 'torn' or i >= len(k1) or k1[i] != k2[i]):
                first_bad = i
                break
        if first_bad is not None:
            later = [c for c in r2['log'] if c[0] >= first_bad]
            changed = [i for i in facts if i >= first_bad and ob['facts2'].get(i) != facts[i]]
            if r2['status'] in ('ok',) or later or changed or (
                    r2['status'] not in ('ValueError', 'Exhausted') and facts[first_bad][0] != 'torn'):
                out.append(('SimulationResultsSaver.load_partial_results', 'mismatch-not-refused:' + kind,
                            'variation %d has partial results saved for other parameters (%s); restart status '
                            '%s, calls to it or later ones: %d, files changed: %r'
                            % (first_bad, kind, r2['status'], len(later), changed)))
            return out
        if r2['status'] not in ('ok', 'Exhausted'):
            out.append((call, 'restart-fails:after-' + fired, 'restart raised %s' % r2['status']))
            return out
    if r2['status'] != 'ok':
        return out
    ok2 = {}
    for v, pos, o in r2['log']:
        if o != 's':
            ok2.setdefault(v, []).append((1 << pos, o))
    for i in range(len(k2)):
        f = facts.get(i)
        dur_tok, dur_rep = (f[3], f[0]) if f is not None else (0, 0)
        new = ok2.get(i, [])
        exp_tok = dur_tok + sum(t for t, _ in new)
        if i >= len(r2['toks']) or r2['toks'][i] != exp_tok:
            out.append((call, 'lost-or-double-counted',
                        'variation %d: final token sum %r, durable %r + newly executed %r'
                        % (i, r2['toks'][i] if i < len(r2['toks']) else None, dur_tok, [t for t, _ in new])))
            return out
        if popcount(r2['toks'][i]) != r2['reps'][i] or r2['reps'][i] != dur_rep + len(new):
            out.append((call, 'rep-count-mismatch', 'variation %d: runned_reps %r, %d durable + %d new '
                        'repetitions, %d distinct tokens' % (i, r2['reps'][i], dur_rep, len(new),
                                                            popcount(r2['toks'][i]))))
            return out
        if f is not None and dur_rep >= rm2 and any(c[0] == i for c in r2['log']) and all(k.split(':')[0] != 'skiplt'
                                                                         for k in case['keep']):
            out.append((call, 're-executed-completed-variation',
                        'variation %d had %d >= rep_max repetitions saved and was run again' % (i, dur_rep)))
            return out
        if case['keep'] == ['always'] and r2['reps'][i] != max(rm2, dur_rep, 1):
            out.append((call, 'wrong-number-of-repetitions', 'variation %d ended with %d repetitions, '
                        'rep_max=%d, durable=%d' % (i, r2['reps'][i], rm2, dur_rep)))
            return out
    if len(r2['reps']) != len(k2):
        out.append((call, 'wrong-number-of-repetitions', 'runned_reps has %d entries for %d variations'
                    % (len(r2['reps']), len(k2))))
    return out


def features(case):
    """which argument forms / robustness features a scenario uses (for failure classes)"""
    f = []
    if case.get('via') == 'singles':
        f.append('via-singles')
    if case.get('order') is not None:
        f.append('insertion-order')
    if case.get('queries'):
        f.append('queries')
    if case.get('derive'):
        f.append('derived-children')
    if case.get('out_mix'):
        f.append('mixed-result-types')
    if case.get('extra_results'):
        f.append('many-results')
    if case.get('forms'):
        f.append('argument-forms')
    if case.get('same_runner'):
        f.append('same-runner')
    if max(nvar_of(case['p1']), nvar_of(case['p2'])) > 256:
        f.append('many-variations')
    if max(len(case['p1']['fixed']), len(case['p2']['fixed'])) > 256:
        f.append('many-parameters')
    return f or ['plain']


def oracle_general(case, ob):
    """R8-R14 observations available at every crash point. Returns [(call, class, detail)]."""
    out = []
    call = 'SimulationRunner.simulate'
    feat = '+'.join(features(case))
    if ob['status1'] not in ('crash', 'ok', 'Exhausted'):
        out.append((call, 'first-run-raises:' + feat, 'the interrupted run itself raised %s' % ob['status1']))
    for which, run in (('interrupted run', ob.get('run1q') or []), ('restart', ob['run2'].get('query_bad') or [])):
        for name, what in run:
            out.append((call, ('query-raises:' if what.startswith('raised') else 'query-mutates:') + name,
                        '%s, during the %s' % (what, which)))
    if ob['run2'].get('extra_bad') and ob['run2']['status'] == 'ok':
        out.append((call, 'named-result-mixed-up', 'result %r of variation %d does not hold the sum of its own '
                    'values' % ob['run2']['extra_bad']))
    return out


def oracle_extras(case, ob):
    """R3 / R4 / R7 observations of one (soft) crash point. Returns [(call, class, detail)]."""
    out = []
    ex = ob.get('extras') or {}
    call = 'SimulationRunner.simulate'
    if 'input_mutated' in ex:
        k, rep, what = ex['input_mutated']
        out.append((call, 'input-mutated:%s' % (rep or 'default'),
                    'the value handed over for parameter %r was changed by the library: %s' % (k, what)))
    if ex.get('refused_changed'):
        out.append(('SimulationResultsSaver.load_partial_results', 'refused-restart-changed-files:' + diff_kind(case),
                    'the restart was refused with ValueError but these files changed: %r' % ex['refused_changed']))
    if 'after_refusal' in ex:
        case_ok = dict(case, p2=case['p1'])
        for c, cls, d in oracle_point(case_ok, ex['after_refusal']):
            out.append((c, cls + ':after-refused-restart', d))
    ag = ex.get('again')
    if ag is not None:
        r2 = ob['run2']
        if ag['earlier_now'] != ag['earlier_then']:
            out.append((call, 'earlier-results-changed', 'results of the finished runner changed when another '
                        'runner restarted in the same folder: %r -> %r' % (ag['earlier_then'], ag['earlier_now'])))
        limit = all(r >= case['rm2'] for r in r2['reps'])
        core_ = lambda st: [x.rsplit('.', 1)[0] for x in st]     # sum and tokens (the skip counter restarts at 0)
        # every variation at its limit: nothing is left to do; otherwise a stop rule may legitimately go on
        if ag['status'] != 'ok' or (limit and (core_(ag['stats']) != core_(r2['stats']) or ag['reps'] != r2['reps']
                                               or ag['calls'])):
            has_nan = any(c[0] == 'nan' for k in variation_keys(case['p2']) for _, c in k[1])
            out.append((call, 'same-parameters-refused:nan-value' if has_nan and ag['status'] == 'ValueError'
                        else 'repeated-restart-differs', 'a further restart in the completed folder: status %s, '
                        '%d calls, results %r reps %r; the completed run had %r %r'
                        % (ag['status'], ag['calls'], ag['stats'], ag['reps'], r2['stats'], r2['reps'])))
    return out


def library_exception(case, e):
    """an exception that came out of the library (not out of the harness) on a covered input is a failing
    input: returns (call, class, detail) or None"""
    import traceback
    tb = traceback.extract_tb(e.__traceback__)
    if isinstance(e, core.Infra) or not any(os.path.realpath(f.filename).startswith(os.path.realpath(core.REPO))
                                            for f in tb):
        return None
    return ('SimulationRunner.simulate', 'library-exception:' + '+'.join(features(case)),
            '%s: %s at %s' % (type(e).__name__, str(e)[:200],
                              ' <- '.join('%s:%d' % (os.path.basename(f.filename), f.lineno) for f in tb[-3:])))


def _replay_point(case, m, tear, hard, power=False):
    scratch = tempfile.mkdtemp(prefix='c07_replay_')
    try:
        try:
            r = crash_and_restart(case, m, tuple(tear) if tear else None, scratch, tag_table(case), hard=hard,
                                  extras=not hard and not power, power=power)
        except Exception as e:
            v = library_exception(case, e)
            if v is None:
                raise
            return [v]
        ob = r['power' if power else ('hard' if hard else 'soft')]
        return (oracle_point(case, ob) + oracle_general(case, ob) + oracle_extras(case, ob)) if ob is not None else []
    finally:
        shutil.rmtree(scratch, ignore_errors=True)


def _mk(callname):
    def f(rec):
        v = _replay_point(rec['case'], rec['m'], rec.get('tear'), rec.get('hard', False), rec.get('power', False))
        for c, cls, d in v:
            if c == callname:
                return cls, d
        return None
    return f


ORACLES = {c: _mk(c) for c in ('SimulationRunner.simulate', 'SimulationResultsSaver.load_partial_results')}


def replay(ctx, rep):
    v = _replay_point(rep['case']['case'], rep['case']['m'], rep['case'].get('tear'), rep['case'].get('hard', False),
                      rep['case'].get('power', False))
    return any(c == rep['call'] and cls == rep['class'] for c, cls, d in v)


# ------------------------------------------------------------------ generators
SHAPES_SMALL = [(), (1,), (2,), (1, 1), (2, 1), (1, 2), (2, 2)]
VARIANTS = ['same', 'repmax', 'representation-only', 'fixed-changed', 'value-changed', 'grid-extended',
            'grid-shrunk', 'grid-reordered', 'param-added-scalar', 'param-added-array', 'param-removed',
            'unpacked-set-changed', 'type-str', 'type-none', 'shape-changed', 'value-close']
CLOSE_PAIRS = [(4e-12, 4e-13), (1e-9, 5e-9), (2.4e9, 2.4e9 + 2e4), (0.3, 0.30000000000000004), (1.0, 1.0 + 2.0 ** -40),
               (0.0, 1e-12), (-3e-10, 3e-10), ([1e-9, 2e-9], [1e-9, 3e-9]), ([5.0, 1e-10], [5.0, 2e-10]),
               (1e300, 1.000001e300)]
OUT_REPS = ['int', 'float', 'np.int16', 'np.int32', 'np.int64', 'np.float32', 'np.float64']
RM_REPS = ['int', 'np.int8', 'np.int16', 'np.uint16', 'np.int32', 'np.int64']


def spec_of(shape, names=('a', 'b'), base=10, fixed=7, rich=False, two_d=False):
    names = list(names[:len(shape)])
    vals = {nm: [base * (j + 1) + k for k in range(ln)] for j, (nm, ln) in enumerate(zip(names, shape))}
    if two_d and names:         # every value of the first parameter is itself a 1-element row
        vals[names[0]] = [[x] for x in vals[names[0]]]
    fx = {'fx0': fixed}
    if rich:
        fx.update({'fl': [5, 5], 'z0': 0, 'nn': None, 'sn': ''})
    return {'fixed': fx, 'names': names, 'vals': vals}


def gen_outs(rng, n, skip_p):
    return ['s' if rng.chance(skip_p) else rng.randint(-2, 5) for _ in range(n)]


def gen_clk(rng, n, p):
    return [301 if rng.chance(p) else rng.choice([0, 0, 1, 100]) for _ in range(n)] if p > 0 else []


def random_reps(rng, spec, json_ok=True):
    """a representation for every parameter (R1 element types, R2 layouts)"""
    rep = {}
    for k, v in spec['fixed'].items():
        if isinstance(v, list):
            rep[k] = rng.choice([r for r in SEQ_REPS if json_ok or True])
        elif isinstance(v, int):
            rep[k] = rng.choice(SCALAR_REPS + (['bool'] if v in (0, 1) else []))
    for n in spec['names']:
        rep[n] = rng.choice(SEQ_REPS + ['tuple'])
        if spec['vals'][n] and isinstance(spec['vals'][n][0], list) and rep[n] in ('tuple', 'nd:int64:bcast'):
            rep[n] = 'nd:int32:F'
    return rep


def make_variant(rng, p1, kind):
    """the parameters of run 2 for one kind of difference; None when `p1` does not admit it"""
    fx = dict(p1['fixed'])
    vals = {n_: list(x) for n_, x in p1['vals'].items()}
    names = list(p1['names'])
    p2 = dict(p1, fixed=fx, vals=vals, names=names)
    if kind in ('same', 'repmax'):
        return p1
    if kind == 'representation-only':
        rep = random_reps(rng, p1)
        return dict(p1, rep=rep) if rep != p1.get('rep', {}) else None
    if kind == 'fixed-changed':
        fx['fx0'] = fx['fx0'] + 1
    elif kind == 'value-changed' and names:
        nm = rng.choice(names)
        vals[nm][rng.below(len(vals[nm]))] = [99] if isinstance(vals[nm][0], list) else 99
    elif kind == 'grid-extended' and names and nvar_of(p1) // len(vals[names[0]]) * (len(vals[names[0]]) + 1) <= 9:
        vals[names[0]] = vals[names[0]] + ([[77]] if isinstance(vals[names[0]][0], list) else [77])
    elif kind == 'grid-shrunk' and names and len(vals[names[0]]) >= 2:
        vals[names[0]] = vals[names[0]][:-1]
    elif kind == 'grid-reordered' and names and len(vals[names[0]]) >= 2:
        vals[names[0]] = vals[names[0]][::-1]
    elif kind == 'param-added-scalar':
        fx['new0'] = rng.choice([3, 0, None, ''])
    elif kind == 'param-added-array':
        fx['newv'] = rng.choice([[1, 2], [0], []])
    elif kind == 'param-removed':
        del fx[rng.choice(sorted(fx))]
    elif kind == 'unpacked-set-changed' and 'fl' in fx and names and nvar_of(p1) * len(fx['fl']) <= 9:
        names.append('fl')
        vals['fl'] = fx.pop('fl')
    elif kind == 'value-close':
        # R15: two DISTINCT values that a tolerance-based comparison would call equal (absolute difference
        # below 1e-8, or relative difference below 1e-5): partial results of the one must be refused for the other
        a, b = rng.choice(CLOSE_PAIRS)
        if rng.chance(0.5):
            a, b = b, a
        p1['fixed']['eps'] = a
        fx['eps'] = b
        r = 'nd:float64' if isinstance(a, list) else 'float'
        p1['rep'] = dict(p1.get('rep', {}), eps=r)
        p2['rep'] = dict(p1['rep'])
    elif kind == 'type-str':
        fx['fx0'] = str(fx['fx0'])
    elif kind == 'type-none' and 'z0' in fx:
        fx['z0'] = None
    elif kind == 'shape-changed' and 'fl' in fx:
        fx['fl'] = rng.choice([[5], 5, [5, 5, 5], [[5, 5]], []])
        p2['rep'] = dict(p1.get('rep', {}), fl=rng.choice(['nd:int64', 'nd:float32', 'list']))
        if p2['rep'] == p1.get('rep', {}) or rng.chance(0.5):
            p1['rep'] = dict(p1.get('rep', {}), fl=rng.choice(['nd:int64', 'nd:int16']))
    else:
        return None
    return p2


def gen_case(rng, shapes=SHAPES_SMALL, rmax=6, kind=None):
    shape = rng.choice(shapes)
    names = ('a', 'b') if rng.chance(0.5) else ('b', 'a')
    ext = rng.choice(['', '.pickle', '.json'])
    p1 = spec_of(shape, names, rich=rng.chance(0.7), two_d=bool(shape) and rng.chance(0.15))
    if rng.chance(0.6):
        p1['rep'] = random_reps(rng, p1)
    nvar = nvar_of(p1)
    rm1 = rng.randint(1, rmax) if not rng.chance(0.05) else 0
    k = rng.below(10)
    keep = ['always'] if k < 6 else [rng.choice(['sumlt:%d' % rng.randint(0, 9), 'replt:%d' % rng.randint(0, rm1 + 1),
                                                 'skiplt:%d' % rng.randint(0, 2), 'always'])
                                     for _ in range(rng.randint(1, 2))]
    skip_p = rng.choice([0.0, 0.0, 0.2, 0.4])
    need = (rm1 + 2) * nvar * 2 + 4
    outs1 = gen_outs(rng, need if not rng.chance(0.07) else rng.randint(0, need // 3), skip_p)
    clk1 = gen_clk(rng, len(outs1), rng.choice([0.0, 0.1, 0.3]))
    p2, rm2, variant = None, rm1, kind
    while p2 is None:
        variant = kind or (rng.choice(VARIANTS) if rng.chance(0.5) else 'same')
        if kind is not None and 'fl' not in p1['fixed']:
            p1['fixed'].update({'fl': [5, 5], 'z0': 0})
        p2 = make_variant(rng, p1, variant)
        if p2 is None and kind is not None:      # the shape does not admit this kind: use a 2x1 grid
            p1 = spec_of((2, 1), names, rich=True)
            nvar = nvar_of(p1)
    if variant == 'repmax':
        rm2 = max(1, rm1 + rng.choice([-2, -1, 1, 2, 3]))
    need2 = (rm2 + 2) * nvar_of(p2) * 2 + 4
    outs2 = gen_outs(rng, need2 if not rng.chance(0.04) else rng.randint(0, need2 // 3), skip_p)
    clk2 = gen_clk(rng, len(outs2), rng.choice([0.0, 0.2]))
    if ext == '.json' and any('complex' in r for sp in (p1, p2) for r in sp.get('rep', {}).values()):
        ext = '.pickle'      # a complex scalar parameter cannot be written to a JSON results file (C17's domain)
    case = dict(p1=p1, p2=p2, rm1=rm1, rm2=rm2, keep=keep, outs1=outs1, clk1=clk1, outs2=outs2, clk2=clk2,
                ext=ext, variant=variant)
    if rng.chance(0.4):
        case['rm_rep'] = rng.choice(RM_REPS)
    r = rng.below(10)
    if r < 3:
        case['out_rep'] = rng.choice(OUT_REPS)
    elif r < 5:
        case['scale_exp'] = rng.choice([40, -40])
    if rng.chance(0.3 if variant in ('same', 'repmax') else 0.15):
        case.update(same_runner=True, clk1=[], clk2=[])      # with other parameters: changed IN PLACE (R13)
    # R8-R14
    if rng.chance(0.12) and not case.get('scale_exp') and not case.get('out_rep'):
        case.update(out_mix=True, scale_exp=-1)
    if rng.chance(0.35):
        case['forms'] = {'simulate': rng.choice(['()', '(None)', 'kw']), 'filename': rng.choice(['pos', 'kw']),
                         'folder': rng.choice(['default', 'explicit', 'custom', 'none']),
                         'delete': rng.choice(['default', 'explicit'])}
    if rng.chance(0.25) and not case.get('same_runner'):
        fl = list(IDX_FORMS)
        rng.shuffle(fl)
        case.update(via='singles', idx_forms=fl[:rng.randint(1, 5)], via_fresh=rng.chance(0.4))
    if rng.chance(0.3):
        case['order'] = rng.randint(0, 999)
    if rng.chance(0.15):
        case['queries'] = True
    if rng.chance(0.15):
        case['derive'] = True
    if rng.chance(0.2):
        case['extra_results'] = rng.randint(1, 6)
    return case


def corpus_cases():
    """boundary scenarios that always run (independent of the seed)"""
    out = []
    base = dict(p1=spec_of((2,)), rm1=3, rm2=3, keep=['always'], outs1=[1, 's', 2, 1, 1, 1, 1, 1, 1, 1],
                clk1=[], outs2=[1] * 12, clk2=[], ext='', variant='same')
    base['p2'] = base['p1']
    out.append(base)
    out.append(dict(base, ext='.json'))
    out.append(dict(base, clk1=[0, 0, 301, 0, 301, 0, 0, 0, 0, 0], outs1=[1] * 10, rm1=4, rm2=4))
    out.append(dict(base, p1=spec_of(()), p2=spec_of(()), rm1=1, rm2=1))
    out.append(dict(base, p1=spec_of((2, 2)), p2=spec_of((2, 2)), rm1=2, rm2=2, outs1=['s', 1, 1, 's'] * 6,
                    outs2=[1, 's'] * 12, ext='.pickle'))
    out.append(dict(base, p2=dict(base['p1'], fixed={'fx0': 8}), variant='fixed-changed'))
    out.append(dict(base, rm2=5, variant='repmax'))
    out.append(dict(base, keep=['sumlt:3'], outs1=[2] * 10, outs2=[2] * 10))
    d = os.path.join(core.VERIF, 'corpus', 'c07')
    if os.path.isdir(d):
        for fn in sorted(os.listdir(d)):
            if fn.endswith('.json'):
                with open(os.path.join(d, fn)) as f:
                    out.append(json.load(f)['case'])
    return out


def robust_cases():
    """one deterministic scenario per kind of parameter difference and per robustness class"""
    rng = core.Rng(20260929, 'c07-robust')
    out = []
    small = dict(rm1=2, rm2=2, keep=['always'], outs1=[1, 2, 's', 1, 2, 1, 1, 1], clk1=[], outs2=[3] * 10, clk2=[],
                 ext='')
    rich = spec_of((2,), rich=True)
    import copy
    for kind in VARIANTS:
        p1k = copy.deepcopy(rich)           # some kinds (shape-changed, value-close) also adjust run 1's parameters
        p2 = make_variant(rng, p1k, kind)
        out.append(dict(small, p1=p1k, p2=p2, variant=kind, rm2=4 if kind == 'repmax' else 2))
    # a difference only in a LATER combination (the first partial file found still matches): the last value of the
    # grid changed, the second unpacked parameter changed, the grid extended / shrunk at its end
    two = spec_of((2, 2), rich=True)
    for p1k, p2k, kind in (
            (rich, dict(rich, vals={'a': [rich['vals']['a'][0], 99]}), 'value-changed'),
            (two, dict(two, vals=dict(two['vals'], b=[two['vals']['b'][0], 98])), 'value-changed'),
            (two, dict(two, vals=dict(two['vals'], a=[two['vals']['a'][0], 97])), 'value-changed'),
            (rich, dict(rich, vals={'a': rich['vals']['a'] + [77]}), 'grid-extended'),
            (rich, dict(rich, vals={'a': rich['vals']['a'][:1]}), 'grid-shrunk')):
        out.append(dict(small, p1=p1k, p2=p2k, variant=kind, outs1=[1] * 12, outs2=[3] * 14))
    # the remaining choices of the added / shape-changed kinds
    for v in (0, None, ''):
        out.append(dict(small, p1=rich, p2=dict(rich, fixed=dict(rich['fixed'], new0=v)), variant='param-added-scalar'))
    for v in ([1, 2], []):
        out.append(dict(small, p1=rich, p2=dict(rich, fixed=dict(rich['fixed'], newv=v)), variant='param-added-array'))
    for v in ([5], 5, [5, 5, 5], [[5, 5]], []):     # as arrays: broadcasting must not make them "equal"
        out.append(dict(small, p1=dict(rich, rep={'fl': 'nd:int64'}),
                        p2=dict(rich, fixed=dict(rich['fixed'], fl=v), rep={'fl': 'nd:int64'}), variant='shape-changed'))
        out.append(dict(small, p1=dict(rich, fixed=dict(rich['fixed'], fl=v), rep={'fl': 'nd:float64'}),
                        p2=dict(rich, rep={'fl': 'list'}), variant='shape-changed'))
    out.append(dict(small, p1=dict(rich, fixed=dict(rich['fixed'], fl=[]), rep={'fl': 'nd:float64'}),
                    p2=dict(rich, fixed=dict(rich['fixed'], fl=7)), variant='shape-changed'))
    # R1: plain ints / lists in run 1, narrow and floating types in run 2, and the other way round
    narrow = {'fx0': 'np.int8', 'fl': 'nd:int16', 'z0': 'np.float16', 'a': 'nd:uint8'}
    floats = {'fx0': 'np.float32', 'fl': 'nd:float32', 'z0': 'float', 'a': 'nd:complex64'}
    out.append(dict(small, p1=rich, p2=dict(rich, rep=narrow), variant='representation-only', rm_rep='np.int16',
                    out_rep='np.int16'))
    out.append(dict(small, p1=dict(rich, rep=floats), p2=rich, variant='representation-only', rm_rep='np.int64',
                    out_rep='np.float32'))
    out.append(dict(small, p1=dict(rich, rep=narrow), p2=dict(rich, rep=narrow), variant='same', ext='.json',
                    out_rep='np.int64', rm_rep='np.uint16'))
    # R2: strided / reversed / zero-stride / Fortran views, 0-d arrays, 2-D values, a zero-length axis
    views = {'fx0': 'nd0', 'fl': 'nd:int64:bcast', 'z0': 'nd0', 'a': 'nd:int64:rev'}
    out.append(dict(small, p1=dict(rich, rep=views), p2=dict(rich, rep={'a': 'nd:float64:stride', 'fl': 'nd:float64:stride'}),
                    variant='representation-only'))
    two_d = spec_of((2,), rich=True, two_d=True)
    out.append(dict(small, p1=dict(two_d, rep={'a': 'nd:int32:F'}), p2=two_d, variant='representation-only'))
    empty = spec_of((0,), rich=True)
    out.append(dict(small, p1=empty, p2=empty, variant='same'))
    # R5: rep_max 0 and 1, a single variation, zero / None / empty-string parameters (in `rich`)
    out.append(dict(small, p1=spec_of((1,), rich=True), p2=spec_of((1,), rich=True), rm1=0, rm2=0, variant='same'))
    out.append(dict(small, p1=rich, p2=rich, rm1=1, rm2=1, variant='same', ext='.json'))
    # R6: every result value multiplied by 2^40 / 2^-40 (about 1e12 / 1e-12), with a stop rule on the sum
    for e in (40, -40):
        out.append(dict(small, p1=rich, p2=rich, variant='same', scale_exp=e, keep=['sumlt:5'], rm1=4, rm2=4))
    # R7: simulate() again on the SAME runner object after the interruption; with a raised rep_max
    out.append(dict(small, p1=rich, p2=rich, variant='same', same_runner=True))
    out.append(dict(small, p1=rich, p2=rich, variant='repmax', rm2=3, same_runner=True))
    # a NaN parameter
    out.append(dict(small, p1=dict(rich, fixed=dict(rich['fixed'], q=float('nan'))),
                    p2=dict(rich, fixed=dict(rich['fixed'], q=float('nan'))), variant='same'))
    return out


def robust2_cases():
    """R8-R14: one deterministic scenario per class (small streams: every crash point is taken)"""
    out = []
    small = dict(rm1=2, rm2=2, keep=['always'], outs1=[1, 2, 's', 1, 2, 1, 1, 1], clk1=[], outs2=[3] * 10, clk2=[],
                 ext='', variant='same')
    rich = spec_of((2,), rich=True)
    two = spec_of((2, 2), rich=True)
    # R8: keyword / explicit-default arguments, every way of naming the partial-results folder
    out.append(dict(small, p1=rich, p2=rich, forms={'simulate': '(None)', 'filename': 'kw', 'folder': 'explicit',
                                                    'delete': 'explicit'}))
    out.append(dict(small, p1=rich, p2=rich, forms={'simulate': 'kw', 'folder': 'custom'}, ext='.json'))
    out.append(dict(small, p1=rich, p2=rich, forms={'folder': 'none'}, order=3))
    # R8/R9: the restart as simulate(0), simulate(1), ... (index in every accepted form), then simulate()
    out.append(dict(small, p1=two, p2=two, outs1=[1] * 12, outs2=[3] * 14, via='singles', idx_forms=IDX_FORMS[:4]))
    out.append(dict(small, p1=two, p2=two, outs1=[1, 's'] * 8, outs2=[3, 's'] * 10, via='singles', via_fresh=True,
                    idx_forms=IDX_FORMS[4:8], keep=['sumlt:5']))
    out.append(dict(small, p1=two, p2=two, outs1=[1] * 12, outs2=[3] * 14, via='singles',
                    idx_forms=IDX_FORMS[8:], forms={'folder': 'none'}, rm2=3, variant='repmax'))
    out.append(dict(small, p1=rich, p2=dict(rich, fixed=dict(rich['fixed'], fx0=8)), via='singles',
                    idx_forms=['np.int64', 'str'], variant='fixed-changed'))
    # R10: result values of mixed types (logical value o/2), parameter lists with mixed element types
    out.append(dict(small, p1=dict(rich, rep={'a': 'mixlist', 'fl': 'mixlist'}), p2=rich, variant='representation-only',
                    out_mix=True, scale_exp=-1, outs1=[2, 1, 's', 4, 3, 1, 1, 1], outs2=[2, 3, 5, 4, 1, 1, 1, 1, 1, 1],
                    keep=['sumlt:9'], rm1=4, rm2=4))
    # R11: queries before and after every run; R12: insertion orders; R13: children changed after derivation
    out.append(dict(small, p1=two, p2=two, outs1=[1] * 12, outs2=[3] * 14, queries=True))
    out.append(dict(small, p1=rich, p2=rich, queries=True, derive=True, order=11, extra_results=3, ext='.json'))
    out.append(dict(small, p1=two, p2=two, outs1=[1, 2] * 6, outs2=[3, 4] * 7, order=5, extra_results=4,
                    via='singles', idx_forms=['int', 'kw:int']))
    out.append(dict(small, p1=dict(rich, rep={'a': 'nd:int64', 'fl': 'nd:int16'}), p2=dict(rich, rep={'fl': 'list'}),
                    variant='representation-only', derive=True))
    # every kind of parameter difference once, independent of the seed
    for kind in ('unpacked-set-changed', 'type-str', 'type-none', 'shape-changed', 'grid-shrunk', 'grid-reordered',
                 'value-changed', 'param-added-array'):
        p1k = spec_of((2,), rich=True)
        p2k = make_variant(core.Rng(20260930, 'c07-kinds-' + kind), p1k, kind)
        if p2k is not None:
            out.append(dict(small, p1=p1k, p2=p2k, variant=kind))
    # R15: distinct but close parameter values (a tolerance-based equality would accept the old partial results)
    for j, (a, b) in enumerate(CLOSE_PAIRS[:4] + CLOSE_PAIRS[7:8]):
        r = {'eps': 'nd:float64' if isinstance(a, list) else 'float'}
        out.append(dict(small, p1=dict(rich, fixed=dict(rich['fixed'], eps=a), rep=r),
                        p2=dict(rich, fixed=dict(rich['fixed'], eps=b), rep=r), variant='value-close',
                        ext='.json' if j % 2 else ''))
    # R13/R7: the parameters object of the interrupted runner is changed in place, then simulate() again
    for kind, p2 in (('fixed-changed', dict(rich, fixed=dict(rich['fixed'], fx0=8))),
                     ('param-added-scalar', dict(rich, fixed=dict(rich['fixed'], new0=0))),
                     ('param-removed', dict(rich, fixed={k: v for k, v in rich['fixed'].items() if k != 'z0'})),
                     ('grid-extended', dict(rich, vals={'a': rich['vals']['a'] + [77]}))):
        out.append(dict(small, p1=rich, p2=p2, variant=kind, same_runner=True))
    return out


def big_cases():
    """R9/R14: counts above 256 (sampled crash points)"""
    out = []
    n = 258
    p = {'fixed': {'fx0': 7}, 'names': ['a'], 'vals': {'a': list(range(1000, 1000 + n))}, 'rep': {'a': 'list'}}
    out.append((dict(p1=p, p2=p, rm1=1, rm2=1, keep=['always'], outs1=[1 + (i % 3) for i in range(n + 3)], clk1=[],
                     outs2=[2] * (n + 3), clk2=[], ext='', variant='same', via='singles',
                     single_idx=[257, 0, 256, 129, 255, 257],
                     idx_forms=['np.int16', 'np.uint16', 'int', 'np.int64', 'str', 'kw:np.int64']),
                [7 * 129 + 5, 7 * 257 + 1, 0, 7 * 100, 7 * 256 + 6, 7 * n + 6]))
    many = {'fixed': dict({'p%03d' % j: j for j in range(300)}, fx0=7), 'names': ['a'], 'vals': {'a': [10, 11]}}
    changed = dict(many, fixed=dict(many['fixed'], p257=0))
    small = dict(rm1=2, rm2=2, keep=['always'], outs1=[1, 2, 1, 2, 1, 1], clk1=[], outs2=[3] * 8, clk2=[], ext='')
    out.append((dict(small, p1=many, p2=many, variant='same', extra_results=300, order=2), [0, 5, 9, 17, 22]))
    out.append((dict(small, p1=many, p2=changed, variant='fixed-changed', order=4), [9, 17]))
    return out


def boundary_case(rm, ext, nvar=1, skips=False):
    """rep_max around the 500-repetition save period"""
    p = spec_of((nvar,)) if nvar > 1 else spec_of(())
    n = (rm + 3) * nvar + 5
    outs = [(1 + (i % 3)) if not (skips and i % 97 == 5) else 's' for i in range(n)]
    return dict(p1=p, p2=p, rm1=rm, rm2=rm, keep=['always'], outs1=outs, clk1=[], outs2=list(outs), clk2=[],
                ext=ext, variant='same')


def exhaustive_cases():
    """every grid <= 2x2, rep_max 1..6, .pickle and .json targets, two outcome scripts"""
    out = []
    for shape in SHAPES_SMALL:
        p = spec_of(shape)
        nvar = nvar_of(p)
        for rm in range(1, 7):
            for ext in ('', '.json'):
                n = (rm + 2) * nvar + 3
                out.append(dict(p1=p, p2=p, rm1=rm, rm2=rm, keep=['always'], outs1=[1 + (i % 3) for i in range(n)],
                                clk1=[], outs2=[2] * n, clk2=[], ext=ext, variant='same'))
                o1 = ['s' if i % 4 == 1 else 1 + (i % 2) for i in range(2 * n)]
                out.append(dict(p1=p, p2=p, rm1=rm, rm2=rm, keep=['always'], outs1=o1,
                                clk1=[301 if i % 3 == 2 else 0 for i in range(2 * n)],
                                outs2=['s' if i % 5 == 0 else 3 for i in range(2 * n)], clk2=[], ext=ext,
                                variant='same'))
    return out


# ------------------------------------------------------------------ the check
def run_case(ctx, case, pts=None, tears=(0.0, 0.5, 1.0), hard=True, name='crash-restart', extras_ok=True):
    """all (or the listed) crash points of one scenario: correspondence + oracles"""
    tab = tag_table(case)
    try:
        kinds, ob_full = trace_kinds(case, ctx.scratch)
    except Exception as e:
        v = library_exception(case, e)
        if v is None:
            raise
        ctx.fail(v[0], v[1], {'case': case, 'm': 0, 'tear': None, 'hard': False}, v[2])
        ctx.branch('oracle-fail:' + v[1])
        return
    dk = diff_kind(case)
    lines = [case_line(case, pts)]
    if dk not in ('same', 'representation-only'):
        lines.append(case_line(dict(case, p2=case['p1']), pts))      # the correct restart, for R4
    replies = core.Driver(DRIVER).ask(lines)
    if 'bad-op' in replies:
        raise core.Infra('driver rejected: ' + case_line(case, pts)[:300])
    head, mpts = parse_reply(replies[0])
    mpts_ok = parse_reply(replies[1])[1] if len(replies) > 1 else None
    robust_branches(ctx, case, dk)
    shape = tuple(len(case['p1']['vals'][n]) for n in sorted(case['p1']['names']))
    ckey = (shape, min(case['rm1'], 7) if case['rm1'] < 400 else case['rm1'], case['variant'], case['ext'],
            case['keep'] != ['always'], any(o == 's' for o in case['outs1']))
    ctx.corr('trace-events', {'case': case}, 'N=%d kinds=%s' % (len(kinds), ','.join(kinds)),
             'N=%s kinds=%s' % (head['N'], head.get('kinds', '')), nontrivial=True, key=('trace',) + ckey)
    ctx.branch('variant:' + case['variant'])
    ctx.branch('ext:' + (case['ext'] or 'none'))
    ctx.branch('run1:' + ob_full['status'])
    points = sorted(mpts) if pts is not None else list(range(len(kinds) + 1))
    jobs = [(m, None) for m in points if m in mpts]
    if tears:
        for m in points:
            if m >= 1 and m <= len(kinds) and kinds[m - 1].endswith(('tmpWrite', 'write')) and (m - 1) in mpts:
                for frac in tears:
                    jobs.append((m - 1, (m, frac)))
    for m, tear in jobs:
        extras = extras_ok and tear is None and (m % 3 == 0 or m == len(kinds))
        evk = (kinds[m - 1] if 1 <= m <= len(kinds) else 'start') if tear is None else 'tear'
        # power loss: the files change only at file events; quick samples the boundaries that matter most
        if ctx.tier == 'quick':
            power = evk.endswith(('tmpFsync', 'tmpClose', 'rename', 'syncMain'))
        else:
            power = evk not in ('call', 'start')
        # a hard kill differs from an exception only while a file is open or a temp file exists
        hard_here = hard and (ctx.tier != 'quick' or evk not in ('call', 'start'))
        try:
            r = crash_and_restart(case, m, tear, ctx.scratch, tab, hard=hard_here, extras=extras, power=power)
        except Exception as e:
            v = library_exception(case, e)
            if v is None:
                raise
            ctx.fail(v[0], v[1], {'case': case, 'm': m, 'tear': list(tear) if tear else None, 'hard': False}, v[2])
            ctx.branch('oracle-fail:' + v[1])
            continue
        for kind in ('soft', 'hard', 'power'):
            ob = r.get(kind)
            if ob is None:
                continue
            rec = {'case': case, 'm': m, 'tear': list(tear) if tear else None, 'hard': kind == 'hard',
                   'power': kind == 'power'}
            impl = impl_repr(ob)
            model = model_repr(mpts[m], True if kind == 'soft' else (False if kind == 'hard' else 'power'))
            if kind == 'power':
                ctx.branch('power-loss:' + evk.lstrip('F'))
            ctx.corr(name, rec, impl, model, nontrivial=True,
                     key=ckey + (evk, kind, ob['run2']['status'], m if case['rm1'] < 400 else 0))
            ctx.branch('crash:' + ('tear' if tear else evk))
            ctx.branch('restart:' + ob['run2']['status'])
            ctx.branch(kind)
            if '+t' in ob['crash']:
                ctx.branch('temp-file-left-by-hard-kill')
            if any(c[:1] == 'V' for c in ob['crash'].split('|')[:-1]) and ob['run2']['log']:
                ctx.branch('resumed-mid-run')
            ctx.sample({'line': case_line(case, [m])[:400], 'tear': tear, 'kind': kind, 'impl': impl[:300],
                        'model': model[:300]}, limit=5)
            viols = oracle_point(case, ob) + oracle_general(case, ob)
            ex = ob.get('extras')
            if ex is not None:
                viols = viols + oracle_extras(case, ob)
                ctx.branch('R3:inputs-compared')
                if 'after_refusal' in ex and mpts_ok is not None:
                    ctx.corr('restart-after-refusal', rec, impl_repr(ex['after_refusal']),
                             model_repr(mpts_ok[m], True), nontrivial=True, key=ckey + ('after-refusal', evk, m))
                    ctx.branch('R4:refused-then-correct-restart')
                if 'again' in ex:
                    ctx.branch('R7:further-restart-on-shared-parameters')
            if case.get('same_runner') and ob['run2']['runner'] is not None and m > 0:
                ctx.branch('R7:same-runner-object')
            seen = set()
            for call, cls, detail in viols:
                if (call, cls) not in seen:
                    seen.add((call, cls))
                    ctx.fail(call, cls, rec, detail)
                    ctx.branch('oracle-fail:' + cls)
            if not viols:
                ctx.branch('oracle-ok')


def robust_branches(ctx, case, dk):
    """which robustness classes a scenario exercises (computed from the scenario)"""
    ctx.branch('diff:' + dk)
    if case.get('variant') == 'value-close':
        ctx.branch('R15:close-but-distinct-parameter-values')
    reps = set()
    for spec in (case['p1'], case['p2']):
        reps |= set(spec.get('rep', {}).values())
    reps |= {case.get('rm_rep', 'int'), case.get('out_rep', 'int')}
    if reps & {'np.int8', 'np.uint8', 'np.int16', 'np.uint16', 'np.int32', 'nd:int16', 'nd:int32', 'nd:uint8'}:
        ctx.branch('R1:narrow-integers')
    if reps & {'np.float16', 'np.float32', 'nd:float32', 'nd:complex64'}:
        ctx.branch('R1:float32-float16-complex64')
    if reps & {'tuple'}:
        ctx.branch('R1:tuple')
    if any(r.endswith((':rev', ':stride', ':F', ':bcast')) for r in reps):
        ctx.branch('R2:non-contiguous-views')
    if 'nd0' in reps:
        ctx.branch('R2:0-d-array')
    for spec in (case['p1'], case['p2']):
        for n in spec['names']:
            if not spec['vals'][n]:
                ctx.branch('R2:zero-length-axis')
            elif isinstance(spec['vals'][n][0], list):
                ctx.branch('R2:2-D-values')
        if any(v == [] for v in spec['fixed'].values()):
            ctx.branch('R2:size-0-value')
        if any(v is None or v == 0 or v == '' for v in spec['fixed'].values() if not isinstance(v, list)):
            ctx.branch('R5:zero-none-empty-values')
    if case['rm1'] == 0 or case['rm1'] == 1:
        ctx.branch('R5:rep_max-0-or-1')
    if case.get('scale_exp'):
        ctx.branch('R6:scaled-results')
    forms = case.get('forms') or {}
    if forms.get('simulate') in ('(None)', 'kw') or forms.get('filename') == 'kw':
        ctx.branch('R8:keyword-and-explicit-default-arguments')
    if forms.get('folder') in ('explicit', 'custom', 'none'):
        ctx.branch('R8:partial_results_folder-' + forms['folder'])
    if case.get('via') == 'singles':
        ctx.branch('R8:simulate(index)-per-variation-then-simulate()')
        fl = set(case.get('idx_forms') or ['int'])
        if fl & {'np.int8', 'np.int16', 'np.int32', 'np.int64', 'np.uint8', 'np.uint16', 'np.intp', 'kw:np.int64'}:
            ctx.branch('R9:numpy-integer-index')
        if fl & {'nd0', 'str', 'bool'}:
            ctx.branch('R9:0-d-array-str-bool-index')
        if nvar_of(case['p2']) > 256:
            ctx.branch('R9:index-above-256')
    if case.get('out_mix'):
        ctx.branch('R10:mixed-result-value-types')
    if 'mixlist' in reps:
        ctx.branch('R10:mixed-element-types-in-a-parameter-list')
    if case.get('queries'):
        ctx.branch('R11:queries-between-the-steps')
    if case.get('order') is not None:
        ctx.branch('R12:insertion-orders')
    if case.get('derive'):
        ctx.branch('R13:children-mutated')
    if case.get('same_runner') and case['p1'] != case['p2']:
        ctx.branch('R13:parent-mutated-in-place-after-children-were-saved')
    if max(nvar_of(case['p1']), nvar_of(case['p2'])) > 256:
        ctx.branch('R14:more-than-256-variations')
    if case.get('extra_results', 0) > 256:
        ctx.branch('R14:more-than-256-named-results')
    if max(len(case['p1']['fixed']), len(case['p2']['fixed'])) > 256:
        ctx.branch('R14:more-than-256-parameters')


def run_case_oracles_only(ctx, case, name='delete-partial-results'):
    """a path the model does not cover (delete_partial_results_bool=True: the partial files are removed
    after the final save): every crash point, property oracles on the real code only"""
    tab = tag_table(case)
    kinds, ob_full = trace_kinds(case, ctx.scratch)
    for m in range(len(kinds) + 1):
        r = crash_and_restart(case, m, None, ctx.scratch, tab, hard=True)
        for kind in ('soft', 'hard'):
            ob = r.get(kind)
            if ob is None:
                continue
            rec = {'case': case, 'm': m, 'tear': None, 'hard': kind == 'hard'}
            evk = kinds[m - 1] if 1 <= m <= len(kinds) else 'start'
            ctx.count((name, evk, kind, ob['run2']['status'], m), True)
            ctx.branch('oracle-only:' + name)
            if evk == 'remove':
                ctx.branch('crash:remove')
            seen = set()
            for call, cls, detail in oracle_point(case, ob):
                if (call, cls) not in seen:
                    seen.add((call, cls))
                    ctx.fail(call, cls, rec, detail)
                    ctx.branch('oracle-fail:' + cls)


def boundary_points(kinds, rng, extra=3):
    """crash points around every save of a long run + a few others"""
    pts = {0, 1, len(kinds)}
    for j, k in enumerate(kinds):
        if not k.endswith('call'):
            for d in (-1, 0, 1, 2):
                if 0 <= j + d <= len(kinds):
                    pts.add(j + d)
    for _ in range(extra):
        pts.add(rng.randint(0, len(kinds)))
    return sorted(pts)


def check(ctx):
    ctx.rule = ('scenario = parameter grid (0-2 unpacked parameters of lengths 1-2) x rep_max 1-6 (and 499/500/501/'
                '1001 in the thorough tier) x _keep_going rule x outcome stream of run 1 (values / SkipThisOne, '
                'call durations firing the 300 s rule) x run 2 (same parameters, other rep_max, changed fixed '
                'value, changed grid value, extended grid) x results file .pickle/.json; for every scenario EVERY '
                'crash point of run 1 (after each event of the instrumented code: _run_simulation call, open, '
                'write, os.replace; and inside each write after 0 / half / all-but-one bytes) is taken twice: as an '
                'exception (soft) and as a snapshot of the directory at that moment (hard kill); non-trivial = '
                'distinct (grid shape, rep_max, run-2 variant, file type, stop rule, skips, event kind at the crash, '
                'soft/hard, restart status, crash index); parameters are LOGICAL values handed over in random '
                'representations (numpy scalar / array dtypes, views, tuples), 15 kinds of run-2 difference, numpy rep_max '
                'and result types, results scaled by 2^+-40, same-runner restarts; every third crash point also checks '
                'inputs untouched, refused-then-correct restart, and a further restart on shared parameter objects; '
                'a few scenarios are repeated with delete_partial_results_bool=True '
                '(oracles only, no model)')
    quick = ctx.tier == 'quick'
    core.prove(ctx, MODULE, generated=GENERATED, drivers=[DRIVER], scratch=ctx.scratch)
    ctx.required_branches = ['crash:call', 'crash:tmpOpen', 'crash:tmpWrite', 'crash:tmpFlush', 'crash:tmpFsync',
                             'crash:tmpClose', 'crash:rename', 'crash:Frename', 'power', 'power-loss:tmpFsync',
                             'power-loss:tmpClose', 'power-loss:rename',
                             'crash:tear', 'soft', 'hard', 'restart:ok', 'restart:ValueError', 'resumed-mid-run',
                             'temp-file-left-by-hard-kill', 'variant:same', 'variant:repmax', 'ext:.json',
                             'ext:none', 'oracle-ok', 'crash:remove',
                             'diff:added-parameter', 'diff:removed-parameter', 'diff:value-changed',
                             'diff:type-changed', 'diff:shape-changed', 'diff:unpacked-set-changed',
                             'diff:grid-changed', 'diff:representation-only',
                             'R1:narrow-integers', 'R1:float32-float16-complex64', 'R2:non-contiguous-views',
                             'R2:0-d-array', 'R2:zero-length-axis', 'R2:2-D-values', 'R2:size-0-value',
                             'R3:inputs-compared', 'R4:refused-then-correct-restart', 'R5:zero-none-empty-values',
                             'R5:rep_max-0-or-1', 'R6:scaled-results', 'R7:same-runner-object',
                             'R7:further-restart-on-shared-parameters',
                             'R8:keyword-and-explicit-default-arguments', 'R8:partial_results_folder-explicit',
                             'R8:partial_results_folder-custom', 'R8:partial_results_folder-none',
                             'R8:simulate(index)-per-variation-then-simulate()', 'R9:numpy-integer-index',
                             'R9:0-d-array-str-bool-index', 'R9:index-above-256', 'R10:mixed-result-value-types',
                             'R10:mixed-element-types-in-a-parameter-list', 'R11:queries-between-the-steps',
                             'R12:insertion-orders', 'R13:children-mutated',
                             'R13:parent-mutated-in-place-after-children-were-saved',
                             'R14:more-than-256-variations', 'R14:more-than-256-named-results',
                             'R14:more-than-256-parameters', 'R15:close-but-distinct-parameter-values',
                             'R7:same-runner-restart-after-a-periodic-save']
    try:
        rng = ctx.rng.fork('cases')
        for c in corpus_cases():
            run_case(ctx, c)
        for c in robust_cases() + robust2_cases():
            run_case(ctx, c, tears=(0.5,) if quick else (0.0, 0.5, 1.0))
        for c, pts in big_cases():
            run_case(ctx, c, pts=pts[:2] if quick else pts, tears=(), extras_ok=False,
                     name='crash-restart-large-counts')
        for c in [gen_case(rng) for _ in range(10 if quick else 150)]:
            run_case(ctx, c, tears=(0.5,) if quick else (0.0, 0.5, 1.0))
        for c in corpus_cases()[:2 if quick else 5] + ([] if quick else [gen_case(rng) for _ in range(20)]):
            if diff_kind(c) == 'same' and not c.get('same_runner'):
                run_case_oracles_only(ctx, dict(c, delete=True))
        # R7 x save period: the interrupted runner OBJECT is restarted after a periodic (500-repetition) save
        # happened in the interrupted variation (an in-memory shortcut for "what I saved" would double count)
        brng0 = ctx.rng.fork('boundary-same-runner')
        for rm, ext, nv in ((502, '', 1),) if quick else ((502, '', 1), (501, '.json', 2), (1002, '', 1)):
            c = dict(boundary_case(rm, ext, nvar=nv), same_runner=True)
            kinds, _ = trace_kinds(c, ctx.scratch)
            pts = boundary_points(kinds, brng0, extra=1)
            if quick:
                saves = [j for j, k in enumerate(kinds) if not k.endswith('call')]
                pts = sorted({p_ for p_ in pts if p_ > (saves[0] if saves else 0)})[:8] + [len(kinds) // 2]
            run_case(ctx, c, pts=sorted(set(pts)), tears=(), name='crash-restart-save-period-same-runner',
                     extras_ok=False)
            ctx.branch('R7:same-runner-restart-after-a-periodic-save')
        if not quick:
            for c in exhaustive_cases():
                run_case(ctx, c)
            ctx.extra['exhaustive_small_scope'] = (
                'every crash point (exception and hard-kill snapshot, plus torn writes) of every grid shape <= 2x2 x '
                'rep_max 1..6 x .pickle/.json x two outcome scripts (the seeded part of the run is not exhaustive)')
            brng = ctx.rng.fork('boundary')
            for rm, ext in ((499, ''), (500, '.json'), (501, ''), (1001, '.json')):
                c = boundary_case(rm, ext, skips=(rm == 501))
                kinds, _ = trace_kinds(c, ctx.scratch)
                run_case(ctx, c, pts=boundary_points(kinds, brng), tears=(0.5,),
                         name='crash-restart-save-period')
                ctx.branch('save-period-boundary')
            ctx.required_branches.append('save-period-boundary')
    except core.Infra as e:
        if not ctx.broken:
            raise
        ctx.notes.append('correspondence skipped: %s' % e)
        ctx.required_branches = []


def search(ctx):
    """deeper failing-input search on the implementation (oracles only; no model needed)"""
    rng = ctx.rng.fork('search')
    cases = corpus_cases() + [gen_case(rng) for _ in range(25)]
    for case in cases:
        tab = tag_table(case)
        kinds, _ = trace_kinds(case, ctx.scratch)
        jobs = [(m, None) for m in range(len(kinds) + 1)]
        for m in range(1, len(kinds) + 1):
            if kinds[m - 1].endswith(('tmpWrite', 'write')):
                jobs += [(m - 1, (m, f)) for f in (0.0, 0.5, 1.0)]
        for m, tear in jobs:
            r = crash_and_restart(case, m, tear, ctx.scratch, tab, hard=True,
                                  power=tear is not None or (m >= 1 and kinds[m - 1] != 'call'))
            for kind in ('soft', 'hard', 'power'):
                ob = r.get(kind)
                if ob is None:
                    continue
                ctx.count(('search', len(ctx.distinct)), False)
                rec = {'case': case, 'm': m, 'tear': list(tear) if tear else None, 'hard': kind == 'hard',
                       'power': kind == 'power'}
                seen = set()
                for call, cls, detail in oracle_point(case, ob):
                    if (call, cls) not in seen:
                        seen.add((call, cls))
                        ctx.fail(call, cls, rec, detail)
        if len(ctx.failures) > 40:
            break
