"""C12 — water-filling returns the capacity-optimal power allocation (DESIGN.md §5 C12).

Tie to source (a), regeneration: `harness/gen/c12.py` symbolically executes the current AST of
`pyphysim/comm/waterfilling.py:doWF` and re-emits `lean/PyPhysim/Generated/C12WaterFilling.lean`
(sort direction, initial removed count, recomputation + loop test as a function of the loop
counter, remainder split, scatter, returned level); `generated_wf_matches_model` proves it equal
to the hand model for all inputs.
Tie to source (b), correspondence: `lean/PyPhysim/Model/C12.lean` is a hand model of
`pyphysim/comm/waterfilling.py:doWF`; it is run at exact rationals by the
compiled driver `drv_c12` on the *same* binary64 inputs (sent as exact `p/q`)
and compared with the real code's output at rtol 1e-9 (allocation, level) and
exactly (number of channels switched off, margin filtered; whole output on the
dyadic stream where binary64 arithmetic is exact).  `np.argsort` is an external
kernel: its contract (a permutation, gains non-decreasing) is checked on every
case; the theorems hold for every sort result satisfying it.

Oracles (first principles, on the real code, never through the model):
non-negativity, total power, `p_i = max(0, mu - N/(Es g_i))` for the returned
`mu`, KKT conditions, capacity against competitors (independent bisection
solution, uniform / best-channel / perturbed / projected-gradient allocations),
permutation equivariance.

Robustness classes (second round): the same logical values are also delivered as
other element types / containers (R1), memory layouts and shapes (R2), with
argument snapshots and aliasing checks (R3), around rejected calls (R4), at
boundary values (R5), at scales 1e-12..1e12 (R6) and through one shared gain
array used by many calls (R7); see `build_input` and the `o_*` oracles below.
Third round: argument forms (R8: positional / keyword / defaults, `call_form`),
heterogeneous element types inside one gain collection (R10), result and
arguments used and overwritten after the call (R13), 257 .. 65537 channels (R14).
Fourth round: distinct values that are merely close (R15: tiny magnitudes, relative 1e-6..1e-8, adjacent
doubles, beyond the 12th decimal, total power a hair off a threshold - histories of such calls compared
with the exact rational solution at 1e-12 / bit for bit, `o_close`) and argument identity / buffer reuse
(R16: one gain buffer refilled in place, one object in several roles, `play_reuse`; the in-history
results also against the model's history function through the driver line `hist`).
"""
import json
import math
import os
from fractions import Fraction

import numpy as np

from harness import core

MODULE = 'PyPhysim.Properties.C12'
DRIVER = 'drv_c12'
RTOL = 1e-9

CLAIM = {
    'technique': 'Lean 4 proof about an executable model + regeneration of doWF from the AST (bridge theorem) + '
                 'exact-rational differential correspondence',
    'text': 'Proved in Lean (39 theorems, any vector length, arbitrary linear ordered field; optimality over R): '
            'for every non-empty vector of positive gains, P > 0, N > 0, Es > 0 and EVERY argsort result '
            'satisfying the sort contract (any tie order), the model of doWF returns a value; the allocation has '
            'one entry per channel, is non-negative, sums to P, equals max(0, mu - N/(Es g_i)) for the returned '
            'mu (channel i is switched off iff N/(Es g_i) >= mu); no non-negative allocation with the same total '
            'has a larger sum log2(1 + g_i Es q_i / N); (p, mu) is the unique pair of that form; the result does '
            'not depend on the tie order of the sort and is equivariant under every permutation of the channels. '
            'The function run by the compiled driver is proved to be the Q instance of that model, and is compared '
            'with waterfilling.py on the same binary64 inputs (model in exact rational arithmetic). '
            'Second tie, by regeneration: harness/gen/c12.py symbolically executes the current AST of doWF '
            'and re-emits lean/PyPhysim/Generated/C12WaterFilling.lean on every run - sort direction '
            '(argsort + [::-1]), initial number of removed channels, the recomputed minMu / Ps and the loop test '
            '(sum(Ps) > dPt and removed < n) as a function of the loop counter, remainder split (dPt - sum(Ps)) / '
            '(n - removed), scatter back to the original order, returned level incl. Es - in the source\'s own '
            'terms (descending view, Python integer index arithmetic, a[np.arange(0,k)] / a[:k], a[-1]); theorem '
            'generated_wf_matches_model proves that text, assembled, EQUAL to the hand model doWFWith for every '
            'sort result and all arguments over any field (errors included; generated_wf_fuel_suffices: the loop '
            'fuel n+1 suffices, no index expression leaves the domain). A semantic edit of waterfilling.py is '
            'refused by the translator or breaks that proof, independently of the random inputs. '
            'Independent oracles on the real code (form, sum, sign, KKT, competitors, permutation) find the '
            'replay input when the tie breaks.',
    'note': 'Trusted additions: np.argsort is a parameter with a contract (permutation, non-decreasing gains), '
            'checked on every case; binary64 rounding is outside the theorems (allocation and level compared at '
            '1e-9 relative to max(P, best level, mu) - no absolute floor; 1e-5 for float32 gain arrays; bit-exact '
            'on the dyadic stream; the discrete number of switched-off channels compared only when every loop test '
            'is >= 1e-9 away from equality, since the allocation is continuous across such ties). Translator '
            '(harness/gen/c12.py) is trusted for: reading the AST into the normal form (int expressions as linear '
            'forms in n and the loop counter, fused elementwise maps, helper inlining, loop state as a function of '
            'the counter - it checks that the loop body recomputes every variable by the SAME expression as the '
            'code before the loop and from the counter alone, else refuses; for/range(n,-1,-1)/break is read as the '
            'same loop with u = n - r), and the three hand-written numpy primitives of Model/C12Py.lean (pyGet = '
            'a[i] with negative indices, pyPrefix = a[np.arange(0,k)] = a[:k] on 0 <= k <= len and RuntimeError '
            'outside - proved unreachable, pyScatter = zeros(n); a[idx] = vals, last assignment wins). float(), '
            'np.asarray(dtype=float) and the np.ndarray asserts are identities on the value level (dtype behaviour '
            'is covered by correspondence / oracles R1 only). Robustness classes: R6 (change of '
            'units: P,N x s; g,N x s; g/s, Es x s) and R5 (P = 0, single channel) are THEOREMS '
            '(wf_scale_power_noise, wf_scale_gain_noise, wf_scale_gain_energy, wf_zero_power, wf_single_channel) '
            'and are also exercised by correspondence + oracles (inputs at 1e-12..1e12, sizes 2^k-1/2^k/2^k+1, '
            'power exactly at a threshold). R1 (int8..int64/uint8/uint16/float32 gain arrays, Python int / narrow '
            'numpy int / float32 / float16 / 0-d scalars, lists and tuples; result must be a float array equal to '
            'the float64 twin), R2 (strided, reversed, column, Fortran-row, read-only, broadcast views; 0-d, '
            '(n,1), (1,n), 3-D shapes rejected or read as the flat vector), R3 (arguments unchanged, result never '
            'aliases arguments or earlier results, earlier results stay put), R4 (negative P, None, empty, 2-D, '
            'str noise: arguments untouched, next call equals a fresh one) and R7 (one gain array shared by '
            'interleaved repeated calls) are covered by correspondence / oracles ONLY: on the model side they '
            'are vacuous (wf_function_of_values: the model is a pure function of the list of logical values, '
            'has no state, dtype or layout). complex gains are outside the domain (power gains are real) and not '
            'exercised. Findings fixed: returned level omitted Es (2825de0 = /repo 43c7aee); arithmetic done in '
            'the dtype of the gains - integer wrap-around of Es*g, half/single precision results (3fb713c = /repo '
            'c79364e). Second robustness round: R8 (argument forms) - THEOREM for the default values '
            '(wf_default_args, wf_default_call_clauses: the model operation doWFCall takes optional N / Es, the '
            'driver protocol accepts lines without N= / Es=) + correspondence/oracle for positional, keyword (any '
            'order), mixed and four default-leaving call forms (bit-identical to the explicit positional call), '
            'length-1 arrays where scalars are documented must be rejected or read as the scalar; doWF has no '
            'constructor/setter paths and no wrapper inside this property (the block-diagonalisation callers '
            'belong to C09). R10 (heterogeneous collections) - oracle/correspondence only: lists, tuples and '
            'object arrays whose elements mix python int/float, int8..int64, uint8, float16/32/64 and 0-d arrays '
            '(first element integer, later ones fractional) must give the float64 twin. R13 (derived objects) - '
            'oracle only: the result pickled, shifted and fed back as gains, scribbled over; the gain array '
            'overwritten after the call (old result unchanged, new call sees the new gains). R14 (counts) - the '
            'theorems hold for every length (wf_equal_gains gives the closed form for n equal gains, any n); '
            'correspondence at 257, 258, 300, 4097 channels in quick (+259, 511, 513, 1025, 16385 in thorough), '
            '65537 channels (thorough also 65536, 100003) through the first-principles oracles only (the exact '
            'rational model needs minutes there). Not applicable: R9 (doWF takes no index or count argument), '
            'R11 (no object, no query methods: the only entry point is the pure function, whose '
            'non-interference is R3/R7/R13), R12 (no dict/set/named container; the order of the channels is '
            'covered by the permutation-equivariance clause, theorem wf_perm_equivariant). No new finding. '
            'Fourth round: R15 (distinct values that are merely close) - THEOREMS wf_exact_in_power (P < P\' '
            'gives a strictly higher level and another allocation), wf_exact_in_noise, wf_exact_in_energy, '
            'wf_exact_in_used_gain (a gain of a channel in use), wf_close_values_not_identified (doWF g P N Es = '
            'doWF g P\' N\' Es\' only if P = P\' and N/Es = N\'/Es\'): over any ordered field the result is a '
            'function of the exact values, nothing is identified by a tolerance; the code has no lookup / cache '
            '/ unchanged test - the places where a value decides are the loop test and the sort. Oracle doWF.close: '
            'histories of 2-4 calls whose arguments differ by factors below 1e-8 absolute (noise 4e-12 / 4e-13, '
            'gains 3e-10 / 1e-12 / 5e-15 in one vector), by a relative 1e-6..1e-8 (2.4e9 vs 2.4e9+2e4, also '
            'inside one gain vector with the power below / above their separation), by one ulp, beyond the '
            '12th decimal, or P = T_k(1 +- 1e-6..3e-9) around a threshold; every call against the exact '
            'rational water-filling solution of its own values at 1e-12 of max(P, best level, mu) (the code\'s '
            'own error is about 1 ulp of that), bit for bit where binary64 evaluation is exact in any order '
            '(gains and Es powers of two, all values on one 53-bit grid, no loop test within 1e-9 of a tie); '
            'every call also through the correspondence (kept count compared when the model\'s margin allows). '
            'R16 (argument identity and buffer reuse) - THEOREMS about the model of a caller that refills one '
            'buffer (Model/C12.lean runOps / callArgs / bufAfter): wf_history_results (k-th result = doWF of the '
            'contents at call time), wf_history_append (later refills and calls leave earlier results alone), '
            'wf_equal_contents_same_result (equal contents, one value in several roles), '
            'wf_driver_history_instance; the driver line hist runs runOpsRat. Oracle doWF.reuse: ONE gain '
            'buffer (float64, strided view, int64, python list; one array object per length) refilled in place '
            'before each of 2-4 calls (new contents, a permutation with the same sum and first element, one '
            'element, earlier contents again, another length), scalars as floats / preallocated refilled 0-d '
            'arrays / ONE 0-d array as P and N and Es / P a 0-d view into the gain buffer, arguments overwritten '
            'right after the call, no other call in between: each result = exact solution of the contents '
            '(1e-9) = bit for bit the call on fresh copies, arguments unchanged, no aliasing, earlier results '
            'unchanged; in-history results compared with the model history. No new finding.',
}


def _impl():
    from pyphysim.comm import waterfilling
    return waterfilling


# ------------------------------------------------------------------ helpers
def frac(x):
    return Fraction(x)


def rs(x):
    f = Fraction(x)
    return '%d/%d' % (f.numerator, f.denominator)


CALL_FORMS = {            # which optional arguments the call form leaves at their default
    'positional': (), 'keyword': (), 'mixed': (), 'defaults': ('N', 'Es'), 'default-Es': ('Es',),
    'kw-N-default-Es': ('Es',), 'kw-Es-default-N': ('N',),
}


def omitted(case):
    return CALL_FORMS[(case.get('variant') or {}).get('call', 'positional')]


def line_of(case):
    om = omitted(case)
    for k in om:
        if case[k] != 1.0:
            raise core.Infra('call form %r needs %s == 1' % (case['variant']['call'], k))
    return 'wf gains=%s P=%s%s%s' % (','.join(rs(x) for x in case['g']), rs(case['P']),
                                     '' if 'N' in om else ' N=' + rs(case['N']),
                                     '' if 'Es' in om else ' Es=' + rs(case['Es']))


def parse_reply(s):
    if s.startswith('error:') or s == 'bad-op':
        return {'error': s}
    d = dict(tok.split('=', 1) for tok in s.split(' '))
    return {'p': [Fraction(t) for t in d['p'].split(',')] if d['p'] else [],
            'mu': Fraction(d['mu']), 'kept': int(d['kept']), 'margin': Fraction(d['margin'])}


INT_TYPES = ('int8', 'uint8', 'int16', 'uint16', 'int32', 'int64')
NARROW_INT = ('int8', 'uint8', 'int16', 'uint16')
SCALAR_CONV = {
    'pyfloat': float, 'pyint': lambda x: int(x), 'float64': np.float64, 'float32': np.float32,
    'float16': np.float16, '0d': lambda x: np.array(float(x)),
    'int8': np.int8, 'uint8': np.uint8, 'int16': np.int16, 'uint16': np.uint16, 'int32': np.int32,
    'int64': np.int64,
}


def build_input(case):
    """(gains object, P, N, Es) as handed to doWF.  `case['g'], P, N, Es` are the LOGICAL values
    (binary64); `case['variant']` says in which element type / container / memory layout / shape
    they are delivered (R1, R2).  The values must be exactly representable in the chosen type."""
    v = case.get('variant') or {}
    garr = v.get('garr', 'float64')
    vals = [float(x) for x in case['g']]
    n = len(vals)
    base = np.array(vals, dtype=garr)
    if not np.array_equal(base.astype(np.float64), np.array(vals, dtype=np.float64)):
        raise core.Infra('variant %r cannot hold the gains %r exactly' % (v, vals))
    layout = v.get('layout', 'contig')
    filler = base[::-1] if n else base
    if layout == 'contig':
        g = base
    elif layout == 'strided':
        big = np.empty(2 * n + 1, dtype=garr)
        big[0::2][:n] = filler
        big[-1] = base[0] if n else 0
        big[1::2] = base
        g = big[1::2]
    elif layout == 'reversed':
        g = np.ascontiguousarray(base[::-1])[::-1]
    elif layout == 'column':
        A = np.empty((n, 3), dtype=garr)
        A[:, 0] = filler
        A[:, 2] = filler
        A[:, 1] = base
        g = A[:, 1]
    elif layout == 'fcolumn':
        A = np.empty((3, n), dtype=garr, order='F')
        A[0, :] = filler
        A[2, :] = filler
        A[1, :] = base
        g = A[1, :]
    elif layout == 'broadcast':
        if len(set(vals)) != 1:
            raise core.Infra('broadcast layout needs equal gains')
        g = np.broadcast_to(base[:1], (n,))
    elif layout == 'readonly':
        g = base.copy()
        g.flags.writeable = False
    else:
        raise core.Infra('unknown layout %r' % layout)
    shape = v.get('shape')
    if shape == 'col2d':
        g = g.reshape(n, 1)
    elif shape == 'row2d':
        g = g.reshape(1, n)
    elif shape == '3d':
        g = g.reshape(1, n, 1)
    elif shape == '0d':
        g = np.array(vals[0], dtype=garr)
    cont = v.get('container', 'ndarray')
    if v.get('elems'):              # R10: every element in its own python / numpy type
        els = []
        for x, t in zip(vals, v['elems']):
            e = SCALAR_CONV[t](x)
            if float(e) != x:
                raise core.Infra('element type %s cannot hold %r' % (t, x))
            els.append(e)
        if cont == 'object-array':
            g = np.empty(n, dtype=object)
            for i, e in enumerate(els):
                g[i] = e
        else:
            g = tuple(els) if cont == 'tuple' else els
    elif cont == 'list':
        g = base.tolist()
    elif cont == 'tuple':
        g = tuple(base.tolist())
    conv = SCALAR_CONV[v.get('scalars', 'pyfloat')]
    out = [g]
    for k in ('P', 'N', 'Es'):
        x = conv(case[k])
        if float(np.asarray(x).reshape(-1)[0]) != float(case[k]):
            raise core.Infra('variant %r cannot hold %s=%r exactly' % (v, k, case[k]))
        out.append(x)
    return tuple(out)


def call_raw(args, kwargs=None):
    wf = _impl()
    with np.errstate(all='ignore'):
        import warnings
        with warnings.catch_warnings():
            warnings.simplefilter('ignore')
            return wf.doWF(*args, **(kwargs or {}))


def call_form(case, objs=None):
    """(args, kwargs) of the Python call for the case's call form (R8)"""
    g, P, N, Es = objs if objs is not None else build_input(case)
    form = (case.get('variant') or {}).get('call', 'positional')
    for k in CALL_FORMS[form]:
        if case[k] != 1.0:
            raise core.Infra('call form %r needs %s == 1' % (form, k))
    if form == 'positional':
        return (g, P, N, Es), {}
    if form == 'keyword':
        return (), {'Es': Es, 'noiseVar': N, 'dPt': P, 'vtChannels': g}
    if form == 'mixed':
        return (g, P), {'Es': Es, 'noiseVar': N}
    if form == 'defaults':
        return (g, P), {}
    if form == 'default-Es':
        return (g, P, N), {}
    if form == 'kw-N-default-Es':
        return (g,), {'noiseVar': N, 'dPt': P}
    if form == 'kw-Es-default-N':
        return (g,), {'dPt': P, 'Es': Es}
    raise core.Infra('unknown call form %r' % form)


def run_impl(case):
    p, mu = call_raw(*call_form(case))
    return np.asarray(p, dtype=float), float(np.asarray(mu, dtype=float).reshape(-1)[0])


def twin(case):
    """the same logical values as a C-contiguous float64 array and Python floats"""
    c = {k: case[k] for k in ('g', 'P', 'N', 'Es')}
    return c


def rtol_of(case):
    """1e-9, except that a float32 gain array legitimately limits the precision"""
    v = case.get('variant') or {}
    return 1e-5 if v.get('garr') == 'float32' else RTOL


def scale_of(case, mu=None):
    """magnitude the comparisons are relative to: the largest of total power, best level and water
    level — no absolute floor, so that a change of units rescales every tolerance (R6)"""
    a_best = case['N'] / (case['Es'] * max(case['g']))
    s = max(abs(case['P']), abs(a_best))
    if mu is not None and math.isfinite(mu):
        s = max(s, abs(mu))
    return s


def has_ties(case):
    return len(set(case['g'])) < len(case['g'])


def capacity(case, q):
    g = np.array(case['g'], dtype=float)
    # log1p keeps full relative precision at tiny SNR (needed for scale independence, R6)
    return float(np.sum(np.log1p(g * case['Es'] * np.asarray(q, dtype=float) / case['N'])) / math.log(2.0))


def bisect_wf(case):
    """independent solution: the level where sum max(0, mu - a_i) = P, by bisection"""
    a = np.array([case['N'] / (case['Es'] * x) for x in case['g']])
    lo, hi = float(a.min()), float(a.min()) + float(case['P'])
    for _ in range(200):
        mid = 0.5 * (lo + hi)
        if np.maximum(0.0, mid - a).sum() > case['P']:
            hi = mid
        else:
            lo = mid
    mu = 0.5 * (lo + hi)
    return np.maximum(0.0, mu - a), mu


def project_simplex(v, total):
    """Euclidean projection onto {q >= 0, sum q = total}"""
    u = np.sort(v)[::-1]
    css = np.cumsum(u) - total
    ks = np.arange(1, len(v) + 1)
    cond = u - css / ks > 0
    if not cond.any():
        return None
    k = ks[cond][-1]
    tau = css[cond][-1] / k
    return np.maximum(v - tau, 0.0)


# ------------------------------------------------------------------ oracles
def o_alloc(case):
    """non-negative, sums to P, water-filling form for the returned level"""
    p, mu = run_impl(case)
    n = len(case['g'])
    es_cls = 'Es==1' if case['Es'] == 1.0 else 'Es!=1'
    if p.shape != (n,) or not np.all(np.isfinite(p)) or not math.isfinite(mu):
        return 'shape-or-nonfinite', 'p=%r mu=%r' % (p.tolist(), mu)
    s = scale_of(case, mu)
    tol = rtol_of(case) * s
    if p.min() < -tol:
        return 'negative-power', 'min p = %r' % float(p.min())
    if abs(float(p.sum()) - case['P']) > tol * max(1, n):
        return 'sum-not-total', 'sum p = %r, P = %r' % (float(p.sum()), case['P'])
    a = np.array([case['N'] / (case['Es'] * x) for x in case['g']])
    form = np.maximum(0.0, mu - a)
    i = int(np.argmax(np.abs(form - p)))
    if abs(form[i] - p[i]) > tol:
        return ('water-level-form:' + es_cls,
                'channel %d: p=%r but max(0, mu - N/(Es g)) = %r (mu=%r)' % (i, float(p[i]), float(form[i]), mu))
    return None


def o_optimal(case):
    """KKT conditions (without the returned level) and capacity against competitors"""
    p, _ = run_impl(case)
    n = len(case['g'])
    if p.shape != (n,) or not np.all(np.isfinite(p)):
        return 'shape-or-nonfinite', 'p=%r' % (p.tolist(),)
    a = np.array([case['N'] / (case['Es'] * x) for x in case['g']])
    s = scale_of(case)
    pb, mub = bisect_wf(case)
    s = max(s, mub)
    tol = rtol_of(case) * s
    act = p > 0
    if not act.any():
        return 'not-optimal:kkt', 'no channel gets power'
    lev = (a + p)[act]
    if lev.max() - lev.min() > 2 * tol:
        return 'not-optimal:kkt', 'active levels differ: %r .. %r' % (float(lev.min()), float(lev.max()))
    if (~act).any() and (a[~act] + p[~act]).min() < lev.min() - 2 * tol:
        j = int(np.argmin(np.where(act, np.inf, a + p)))
        return 'not-optimal:kkt', 'switched-off channel %d has level %r below the water level %r' % (
            j, float(a[j]), float(lev.min()))
    cp = capacity(case, np.maximum(p, 0.0))
    slack = 1e-12 * abs(cp) * max(1, n)
    rng = core.Rng(int(case.get('oseed', 0)), 'c12-competitors')
    comps = [('bisection', pb), ('uniform', np.full(n, case['P'] / n))]
    best = np.zeros(n)
    best[int(np.argmax(case['g']))] = case['P']
    comps.append(('best-only', best))
    for t in range(8):           # move power between two channels
        i, j = rng.below(n), rng.below(n)
        q = np.maximum(p, 0.0).copy()
        d = q[i] * rng.uniform(0.0, 1.0) if q[i] > 0 else 0.0
        q[i] -= d
        q[j] += d
        comps.append(('shift%d' % t, q))
    q = np.maximum(p, 0.0) * (case['P'] / max(float(np.maximum(p, 0.0).sum()), 1e-300))
    for t in range(20):          # projected gradient ascent from the returned point
        grad = 1.0 / (a + q)
        step = 0.5 * float(np.min(a + q)) ** 2
        q = project_simplex(q + step * grad, case['P'])
        if q is None:
            break
        comps.append(('pg%d' % t, q.copy()))
    for name, q in comps:
        if abs(q.sum() - case['P']) > 1e-9 * case['P'] or q.min() < 0:
            continue
        cq = capacity(case, q)
        if cq > cp + slack and cq > cp * (1 + max(1e-9, 10 * rtol_of(case))):
            return 'not-optimal:competitor', '%s allocation reaches %r > %r' % (name, cq, cp)
    # the independent solution must be the same point
    if np.max(np.abs(pb - p)) > 10 * tol:
        return 'not-optimal:differs-from-bisection', 'max |p - p*| = %r' % float(np.max(np.abs(pb - p)))
    return None


def o_perm(case):
    """permuting the channels permutes the allocation identically"""
    p, mu = run_impl(case)
    sigma = list(case['perm'])
    c2 = dict(case)
    c2['g'] = [case['g'][i] for i in sigma]
    if (case.get('variant') or {}).get('elems'):
        c2['variant'] = dict(case['variant'])
        c2['variant']['elems'] = [case['variant']['elems'][i] for i in sigma]
    p2, mu2 = run_impl(c2)
    tol = rtol_of(case) * scale_of(case, mu)
    cls = 'perm:ties' if has_ties(case) else 'perm:distinct'
    if p2.shape != p.shape:
        return cls, 'shape %r vs %r' % (p2.shape, p.shape)
    d = float(np.max(np.abs(p2 - p[sigma])))
    if not (d <= tol) or not (abs(mu2 - mu) <= tol):
        return cls, 'max |p(g∘σ) - p(g)∘σ| = %r, mu %r vs %r' % (d, mu2, mu)
    return None


# ------------------------------------------------------------------ robustness classes R1-R7
def variant_kind(v):
    """class label of an input variant, computed from the input only"""
    v = v or {}
    parts = []
    garr = v.get('garr', 'float64')
    if garr in NARROW_INT:
        parts.append('narrow-int-array')
    elif garr in INT_TYPES:
        parts.append('int-array')
    elif garr != 'float64':
        parts.append(garr + '-array')
    sc = v.get('scalars', 'pyfloat')
    if sc in NARROW_INT:
        parts.append('narrow-int-scalars')
    elif sc in INT_TYPES or sc == 'pyint':
        parts.append('int-scalars')
    elif sc != 'pyfloat':
        parts.append(sc + '-scalars')
    if v.get('container', 'ndarray') != 'ndarray':
        parts.append(v['container'])
    return '+'.join(parts) or 'float64'


def int_product_overflows(case):
    """Es * gain leaves the range of the gain array's integer dtype although both are integers"""
    v = case.get('variant') or {}
    garr, sc = v.get('garr', 'float64'), v.get('scalars', 'pyfloat')
    if garr in INT_TYPES and (sc in INT_TYPES or sc == 'pyint'):
        out = np.result_type(garr, sc) if sc != 'pyint' else np.dtype(garr)
        return case['Es'] * max(case['g']) > np.iinfo(out).max
    return False


def snapshot(x):
    if isinstance(x, np.ndarray):
        return ('nd', x.dtype.str, x.shape, x.strides, np.ascontiguousarray(x).tobytes(), x.flags.writeable)
    if isinstance(x, np.generic):
        return ('sc', x.dtype.str, x.tobytes())
    return ('py', type(x).__name__, repr(x))


def same_result(a, b, rel):
    """(p, mu) pairs equal up to `rel` relative to the largest magnitude involved"""
    pa, pb = np.asarray(a[0], dtype=float), np.asarray(b[0], dtype=float)
    ma, mb = np.asarray(a[1], dtype=float).reshape(-1), np.asarray(b[1], dtype=float).reshape(-1)
    if ma.size != 1 or mb.size != 1:
        return False
    ma, mb = float(ma[0]), float(mb[0])
    if pa.shape != pb.shape:
        return False
    sc = max(abs(ma), abs(mb), float(np.max(np.abs(pb))) if pb.size else 0.0)
    return bool(np.all(np.abs(pa - pb) <= rel * sc)) and abs(ma - mb) <= rel * sc


def o_dtype(case):
    """R1: the same values in another element type / container give the float64 result, and the
    result is stored in a floating-point array (no truncation)"""
    v = case.get('variant') or {}
    kind = 'R1:' + variant_kind(v)
    if int_product_overflows(case):
        kind += ':Es*g-exceeds-int-range'
    ref = run_impl(twin(case))
    args = build_input(case)
    try:
        p, mu = call_raw(args)
    except (TypeError, AttributeError) as e:
        if v.get('container', 'ndarray') != 'ndarray':
            return None          # the API takes arrays; a list may be rejected, never mis-handled
        return kind, 'raises %r' % e
    if not isinstance(p, np.ndarray) or p.dtype.kind != 'f':
        return kind, 'allocation returned as %s of dtype %s' % (type(p).__name__, getattr(p, 'dtype', None))
    if not same_result((p, mu), ref, rtol_of(case)):
        return kind, 'p=%r mu=%r but the float64 twin gives p=%r mu=%r' % (
            np.asarray(p).tolist(), float(mu), ref[0].tolist(), ref[1])
    return None


def o_layout(case):
    """R2: strided / reversed / broadcast / read-only views give exactly the result of the
    C-contiguous copy; shapes the function is not defined for (0-d, 2-D, 3-D) are rejected or
    treated as the flattened vector, never silently mis-indexed"""
    v = case.get('variant') or {}
    kind = 'R2:' + (v.get('shape') or v.get('layout', 'contig'))
    flat = dict(case)
    flat['variant'] = {k: x for k, x in v.items() if k not in ('layout', 'shape')}
    if v.get('shape') == '0d':
        flat['g'] = case['g'][:1]
    ref = run_impl(flat)
    try:
        p, mu = call_raw(build_input(case))
    except Exception as e:
        if v.get('shape'):
            return None
        return kind, 'raises %r' % e
    p = np.asarray(p)
    if v.get('shape'):
        p = p.reshape(-1)
    if not same_result((p, mu), ref, 1e-12):
        return kind, 'p=%r mu=%r but the contiguous copy gives p=%r mu=%r' % (
            p.tolist(), float(mu), ref[0].tolist(), ref[1])
    return None


def o_immutable(case):
    """R3: arguments are not modified (now or by later calls), the result does not alias them, and
    results of earlier calls do not change when the function is called again"""
    kind = 'R3:' + variant_kind(case.get('variant')) + ':' + (case.get('variant') or {}).get('layout', 'contig')
    args = build_input(case)
    before = [snapshot(a) for a in args]
    p1, mu1 = call_raw(args)
    if [snapshot(a) for a in args] != before:
        return kind, 'an argument was modified by the call'
    if isinstance(args[0], np.ndarray) and np.shares_memory(p1, args[0]):
        return kind, 'the returned allocation shares memory with the gain array'
    keep = np.array(p1, copy=True)
    keep_mu = float(mu1)
    other = dict(case)
    other['P'] = case['P'] * 2
    p2, _ = call_raw(build_input(other))
    rev = dict(case)
    rev['g'] = case['g'][::-1]
    p3, _ = call_raw(build_input(rev))
    p4, mu4 = call_raw(args)
    if np.shares_memory(p1, p2) or np.shares_memory(p1, p3) or np.shares_memory(p1, p4):
        return kind, 'two calls returned overlapping buffers'
    if not np.array_equal(p1, keep) or float(mu1) != keep_mu:
        return kind, 'the result of an earlier call changed after later calls'
    if isinstance(p1, np.ndarray) and p1.flags.writeable and p1.dtype.kind == 'f':
        p1[...] = -1.0          # scribbling over a result must not reach the function's state
    p5, mu5 = call_raw(args)
    if not np.array_equal(np.asarray(p5), keep) or float(mu5) != keep_mu or not np.array_equal(np.asarray(p4), keep):
        return kind, 'a repeated call with the same arguments returned a different result'
    if [snapshot(a) for a in args] != before:
        return kind, 'an argument was modified by a later call'
    return None


REJECTS = ('negative-P', 'None-P', 'empty', 'col2d', 'str-N')


def o_rejected(case):
    """R4: a rejected call leaves its arguments untouched and does not influence later calls"""
    rj = case['reject']
    kind = 'R4:' + rj
    args = build_input(case)
    g = args[0]
    before = [snapshot(a) for a in args]
    if rj == 'negative-P':
        bad = (g, -abs(float(case['P'])), args[2], args[3])
    elif rj == 'None-P':
        bad = (g, None, args[2], args[3])
    elif rj == 'empty':
        bad = (g[:0], args[1], args[2], args[3])
    elif rj == 'col2d':
        bad = (g.reshape(len(case['g']), 1), args[1], args[2], args[3])
    else:
        bad = (g, args[1], 'noise', args[3])
    raised = None
    try:
        r = call_raw(bad)
    except Exception as e:
        raised = e
    if [snapshot(a) for a in args] != before:
        return kind, 'arguments modified by the rejected call (%r)' % (raised,)
    if raised is None and rj in ('negative-P', 'empty', 'col2d'):
        # not rejected: then it must at least not be a wrong answer for a valid reading of the input
        rp = np.asarray(r[0], dtype=float).reshape(-1)
        if rj == 'col2d':
            if not same_result((rp, r[1]), run_impl(case), 1e-12):
                return kind, '(n,1) input accepted with result %r' % (rp.tolist(),)
        elif rp.size and (not np.all(np.isfinite(rp)) or rp.min() < 0):
            return kind, 'accepted with allocation %r' % (rp.tolist(),)
    after = call_raw(args)
    fresh = call_raw(build_input(case))
    if not np.array_equal(np.asarray(after[0]), np.asarray(fresh[0])) or float(after[1]) != float(fresh[1]):
        return kind, 'the call after the rejected one differs from a fresh call'
    return None


def o_scale(case):
    """R6: a change of units rescales the result and nothing else"""
    sc = case['scale']
    s = float(sc['s'])
    kind = 'R6:%s:%s' % (sc['kind'], 's<1' if s < 1 else 's>1')
    base = run_impl(case)
    c2 = dict(case)
    if sc['kind'] == 'power-noise':
        c2['P'], c2['N'] = case['P'] * s, case['N'] * s
        want = (base[0] * s, base[1] * s)
    elif sc['kind'] == 'gain-noise':
        c2['g'], c2['N'] = [x * s for x in case['g']], case['N'] * s
        want = base
    else:
        c2['g'], c2['Es'] = [x / s for x in case['g']], case['Es'] * s
        want = base
    got = run_impl(c2)
    exact = math.frexp(s)[0] == 0.5        # power of two: binary64 arithmetic commutes with it
    if not same_result(got, want, 1e-12 if exact else 1e-9):
        return kind, 'scaled input gives p=%r mu=%r, expected p=%r mu=%r' % (
            got[0].tolist(), got[1], np.asarray(want[0]).tolist(), float(want[1]))
    r = o_alloc(c2)
    if r is not None:
        return kind + ':' + r[0], r[1]
    return None


def o_history(case):
    """R7: one gain array shared by many calls (different powers, repeated, interleaved) — every
    call returns what an isolated call on a private copy returns"""
    kind = 'R7:shared-gains:' + variant_kind(case.get('variant'))
    args = build_input(case)
    g = args[0]
    before = snapshot(g)
    got = []
    for f in case['powers']:
        got.append((f, call_raw((g, args[1] * f, args[2], args[3]))))
    for f, r in got:
        c = dict(case)
        c['P'] = case['P'] * f
        a2 = build_input(case)
        fresh = call_raw((a2[0], a2[1] * f, a2[2], a2[3]))
        if not np.array_equal(np.asarray(r[0]), np.asarray(fresh[0])) or float(r[1]) != float(fresh[1]):
            return kind, 'call with P*%r in the history returned %r, an isolated call %r' % (
                f, np.asarray(r[0]).tolist(), np.asarray(fresh[0]).tolist())
    if snapshot(g) != before:
        return kind, 'the shared gain array was modified'
    return None


def o_argform(case):
    """R8: positional / keyword / mixed calls and calls that leave noiseVar and/or Es at their
    default give bit for bit the result of the explicit positional call; a length-1 array
    where a scalar is documented is rejected or read as that scalar"""
    v = dict(case.get('variant') or {})
    form = v.get('call', 'positional')
    kind = 'R8:' + form + (':len1-scalars' if v.get('scalars') == 'len1' else '')
    ref_case = dict(case)
    ref_case['variant'] = {k: x for k, x in v.items() if k != 'call' and not (k == 'scalars' and x == 'len1')}
    ref = call_raw(build_input(ref_case))
    try:
        got = call_raw(*call_form(case))
    except Exception as e:
        if v.get('scalars') == 'len1':
            return None
        return kind, 'raises %r' % e
    gp = np.asarray(got[0])
    if v.get('scalars') == 'len1':
        if not same_result((gp.reshape(-1), got[1]), ref, 1e-12):
            return kind, 'p=%r mu=%r, scalar arguments give p=%r mu=%r' % (
                gp.tolist(), np.asarray(got[1]).tolist(), np.asarray(ref[0]).tolist(), float(ref[1]))
        return None
    if gp.shape != np.asarray(ref[0]).shape or not np.array_equal(gp, np.asarray(ref[0])) \
            or float(got[1]) != float(ref[1]):
        return kind, 'p=%r mu=%r, the explicit positional call gives p=%r mu=%r' % (
            gp.tolist(), float(got[1]), np.asarray(ref[0]).tolist(), float(ref[1]))
    return None


def o_hetero(case):
    """R10: a gain collection whose elements differ in python / numpy type gives the result of
    the uniformly promoted (float64) twin — nothing is truncated to the type of the first element"""
    v = case.get('variant') or {}
    kind = 'R10:%s:first-%s' % (v.get('container', 'list'), v['elems'][0])
    ref = run_impl(twin(case))
    try:
        p, mu = call_raw(*call_form(case))
    except (TypeError, AttributeError):
        return None                 # the API takes arrays; a list may be rejected, never mis-handled
    if not isinstance(p, np.ndarray) or p.dtype.kind != 'f':
        return kind, 'allocation returned as %s of dtype %s' % (type(p).__name__, getattr(p, 'dtype', None))
    if not same_result((p, mu), ref, RTOL):
        return kind, 'p=%r mu=%r but the float64 twin gives p=%r mu=%r' % (
            np.asarray(p).tolist(), float(mu), ref[0].tolist(), ref[1])
    return None


def o_derived(case):
    """R13: result and arguments stay independent after the call — the gains overwritten after
    the call do not change the result (and a new call sees the new gains), the result fed back
    as the gains of another call / scribbled over / pickled does not touch the first call"""
    import pickle
    kind = 'R13:' + variant_kind(case.get('variant')) + ':' + (case.get('variant') or {}).get('layout', 'contig')
    objs = build_input(case)
    g = objs[0]
    p1, mu1 = call_raw(*call_form(case, objs))
    keep, keep_mu = np.array(p1, copy=True), float(mu1)
    rt = pickle.loads(pickle.dumps((p1, mu1)))
    if not np.array_equal(rt[0], keep) or float(rt[1]) != keep_mu or rt[0].dtype != p1.dtype:
        return kind, 'pickle round trip of the result differs'
    # child used further: the allocation (shifted to be positive) as the gains of another call
    child = p1 + 1.0
    q, _ = call_raw((child, objs[1], objs[2], objs[3]))
    if not np.array_equal(p1, keep) or not np.array_equal(child, keep + 1.0):
        return kind, 'using the result as the gains of another call changed it'
    fresh = call_raw((np.array(keep + 1.0), objs[1], objs[2], objs[3]))
    if not np.array_equal(np.asarray(q), np.asarray(fresh[0])):
        return kind, 'a call on the derived array differs from a call on a fresh copy of it'
    # parent changed after the child was derived
    if isinstance(g, np.ndarray) and g.flags.writeable and g.ndim == 1:
        newvals = [float(x) for x in np.asarray(g, dtype=float)[::-1]]
        newvals[0] = newvals[0] * 2.0 if g.dtype.kind == 'f' else newvals[0]
        g[...] = np.array(newvals, dtype=g.dtype)
        if not np.array_equal(p1, keep) or float(mu1) != keep_mu:
            return kind, 'overwriting the gain array after the call changed the returned allocation'
        again = call_raw(*call_form(case, objs))
        c2 = dict(case)
        c2['g'] = [float(x) for x in np.asarray(g, dtype=float)]
        fresh2 = call_raw(*call_form(c2))
        if not np.array_equal(np.asarray(again[0]), np.asarray(fresh2[0])) or float(again[1]) != float(fresh2[1]):
            return kind, 'after overwriting the gain array a new call does not see the new gains'
        if not np.array_equal(p1, keep):
            return kind, 'a later call changed the earlier allocation'
    return None


ORACLES = {'doWF': o_alloc, 'doWF.optimal': o_optimal, 'doWF.permute': o_perm,
           'doWF.dtype': o_dtype, 'doWF.layout': o_layout, 'doWF.immutable': o_immutable,
           'doWF.rejected': o_rejected, 'doWF.scale': o_scale, 'doWF.history': o_history,
           'doWF.argform': o_argform, 'doWF.hetero': o_hetero, 'doWF.derived': o_derived,
           'doWF.close': lambda case: o_close(case), 'doWF.reuse': lambda case: o_reuse(case)}


def run_oracle(ctx, call, case, nontrivial=True):
    ctx.count((call, json.dumps(case, sort_keys=True)), nontrivial)
    try:
        r = ORACLES[call](case)
    except Exception as e:   # an exception where the property promises a value
        r = ('exception:' + type(e).__name__, repr(e)[:300])
    if r is not None:
        ctx.fail(call, r[0], case, r[1])
        ctx.branch('oracle-fail:' + call)
    else:
        ctx.branch('oracle-ok:' + call)
    return r


def replay(ctx, rep):
    try:
        return ORACLES[rep['call']](rep['case']) is not None
    except Exception:
        return True


# ------------------------------------------------------------------ generators
def logu(rng, lo, hi):
    return 10.0 ** rng.uniform(lo, hi)


def threshold_P(g, N, Es, k):
    """(float) power at which exactly the k best channels are in use: k*a_(k-1) - A_k"""
    a = sorted(N / (Es * x) for x in g)
    return k * a[k - 1] - sum(a[:k])


def quantize(x, bits):
    """binary64 value with a `bits`-bit mantissa (keeps the exact-rational model cheap for long
    vectors: the common denominator of the levels N/(Es g) stays bounded)"""
    m, e = math.frexp(x)
    return math.ldexp(round(m * (1 << bits)) / float(1 << bits), e)


def gen_case(rng, nmax, nmin=1):
    style = rng.choice(['decades', 'decades', 'narrow', 'equal', 'ties', 'tiny', 'ints', 'wide'])
    if nmin > 1:
        n = rng.randint(nmin, nmax)
    else:
        n = rng.choice([1, 1, 2, 2, 3, 3, 4, 5, 6, 8]) if rng.chance(0.5) else rng.randint(1, nmax)
    if style == 'decades':
        span = rng.choice([1.0, 3.0, 6.0, 12.0])
        c = rng.uniform(-3, 3)
        g = [logu(rng, c - span / 2, c + span / 2) for _ in range(n)]
    elif style == 'wide':
        # dynamic range beyond 1/eps (16..36 decades): a gain that is "numerically zero" relative to the
        # best one still gets power when the budget reaches its level (round-5 seed C12_r5_2)
        span = rng.choice([16.0, 18.0, 24.0, 36.0])
        c = rng.uniform(-3, 3)
        n = min(n, 8)
        g = [logu(rng, c - span / 2, c + span / 2) for _ in range(n)]
        if n >= 2:
            g[rng.below(n)] = 10.0 ** (c + span / 2)
            g[rng.below(n)] = 10.0 ** (c - span / 2)
    elif style == 'narrow':
        c = logu(rng, -2, 2)
        g = [c * (1 + 1e-3 * rng.uniform(-1, 1)) for _ in range(n)]
    elif style == 'equal':
        g = [logu(rng, -3, 3)] * n
    elif style == 'ties':
        vals = [logu(rng, -2, 2) for _ in range(rng.randint(1, 3))]
        g = [rng.choice(vals) for _ in range(n)]
    elif style == 'tiny':
        g = [logu(rng, -9, -5) for _ in range(n)]
    else:
        g = [float(rng.randint(1, 9)) for _ in range(n)]
    if n > 12:
        bits = 16 if n <= 32 else 8
        g = [quantize(x, bits) for x in g]
    N = rng.choice([1.0, 1.0, logu(rng, -2, 2), 0.5])
    Es = rng.choice([1.0, logu(rng, -2, 2), 2.0, 0.25, logu(rng, -1, 1)])
    # choose P around the threshold of a target number of used channels, so that
    # every number of dropped channels is produced
    k = rng.randint(1, n)
    if style == 'wide' and rng.chance(0.7):
        k = n
    t = threshold_P(g, N, Es, k)
    t_next = threshold_P(g, N, Es, k + 1) if k < n else None
    mode = rng.below(4)
    if style == 'wide' and k == n and t > 0:
        P = t * (1 + logu(rng, -2, 2))          # every channel, also the weakest, is in use
    elif mode == 0 and t_next is not None and t_next > t:
        P = t + (t_next - t) * rng.uniform(0.02, 0.98)
    elif mode == 1 and t > 0:
        P = t * logu(rng, 0.01, 2)
    elif mode == 2:
        P = logu(rng, -3, 3)
    else:
        a_best = N / (Es * max(g))
        P = a_best * logu(rng, -2, 2)
    if not (P > 0) or not math.isfinite(P):
        P = 1.0
    return {'g': g, 'P': float(P), 'N': float(N), 'Es': float(Es), 'style': style}


def gen_dyadic(rng, nmax=16):
    """powers of two everywhere: binary64 evaluation of doWF is exact when the
    model's result is dyadic (checked on the model's output)"""
    n = rng.randint(1, nmax)
    g = [2.0 ** rng.randint(-6, 6) for _ in range(n)]
    if rng.chance(0.3):
        g = [rng.choice(g[:2]) for _ in range(n)]
    N = 2.0 ** rng.randint(-3, 3)
    Es = 2.0 ** rng.randint(-3, 3)
    a = sorted(Fraction(N) / (Fraction(Es) * Fraction(x)) for x in g)
    k = rng.randint(1, n)
    t = k * a[k - 1] - sum(a[:k])
    P = t + k * Fraction(rng.randint(1, 64), 16)
    if P <= 0 or P > 2 ** 20:
        P = Fraction(rng.randint(1, 4096), 16)
    return {'g': g, 'P': float(P), 'N': N, 'Es': Es, 'style': 'dyadic'}


BOUNDARY = [
    {'g': [1.0, 0.5, 0.1], 'P': 1.0, 'N': 0.5, 'Es': 2.0},       # DESIGN §6 (8): level without Es
    {'g': [1.0, 0.5, 0.1], 'P': 1.0, 'N': 0.5, 'Es': 1.0},
    {'g': [3.0], 'P': 2.0, 'N': 1.0, 'Es': 1.0},
    {'g': [3.0], 'P': 1e-9, 'N': 4.0, 'Es': 0.125},
    {'g': [2.0, 2.0, 2.0, 2.0], 'P': 1.0, 'N': 1.0, 'Es': 1.0},
    {'g': [2.0, 2.0, 0.5, 0.5, 0.5], 'P': 0.25, 'N': 1.0, 'Es': 4.0},
    {'g': [1e6, 1.0, 1e-6], 'P': 1.0, 'N': 1.0, 'Es': 1.0},
    {'g': [1e6, 1.0, 1e-6], 'P': 1e7, 'N': 1.0, 'Es': 3.0},
    {'g': [1e-6, 1e6, 1.0, 1e-6, 1e6], 'P': 0.5, 'N': 2.0, 'Es': 0.5},
    {'g': [4.0, 2.0, 1.0], 'P': 0.25, 'N': 1.0, 'Es': 1.0},      # P exactly at the 2-channel threshold
    {'g': [4.0, 2.0, 1.0], 'P': 1.25, 'N': 1.0, 'Es': 1.0},      # P exactly at the 3-channel threshold
    {'g': [1.0, 2.0, 4.0, 8.0], 'P': 100.0, 'N': 1.0, 'Es': 0.5},
    {'g': [0.3, 0.2, 0.1], 'P': 1e-6, 'N': 1.0, 'Es': 1.0},
    {'g': [1.0, 1e-17], 'P': 1.0, 'N': 1e-20, 'Es': 1.0},        # weakest gain below eps * best, still in use
    {'g': [1e10, 1.0, 1e-10], 'P': 1e12, 'N': 1.0, 'Es': 1.0},
    {'g': [1e-18, 3.0, 1e-18, 1.0], 'P': 4e18, 'N': 1.0, 'Es': 1.0},
]


def corpus_cases():
    d = os.path.join(core.VERIF, 'corpus', 'c12')
    out = []
    if os.path.isdir(d):
        for fn in sorted(os.listdir(d)):
            if fn.endswith('.json'):
                with open(os.path.join(d, fn)) as f:
                    obj = json.load(f)
                out += obj if isinstance(obj, list) else [obj]
    return out


def clean(case):
    c = {k: case[k] for k in ('g', 'P', 'N', 'Es')}
    if case.get('variant'):
        c['variant'] = dict(case['variant'])
    return c


# ------------------------------------------------------------------ correspondence
def correspondence(ctx, cases):
    drv = core.Driver(DRIVER)
    B = 2000
    for s in range(0, len(cases), B):
        chunk = cases[s:s + B]
        out = drv.ask([line_of(c) for c in chunk])
        for case, rep in zip(chunk, out):
            compare_one(ctx, case, parse_reply(rep))


def compare_one(ctx, case, m, impl=None, tag=None):
    """`impl`: the implementation's result obtained by the caller (R16: the call made inside a history on a
    reused buffer), `(p, mu)` or `'error:<type>'`; by default a fresh call on the case.  `tag` keeps the
    counters of such in-history comparisons apart from those of the same logical case called afresh."""
    cc = clean(case)
    key = json.dumps(cc, sort_keys=True) if tag is None else json.dumps([tag, cc], sort_keys=True)
    n = len(cc['g'])
    # contract of the external kernel np.argsort
    g = np.array(cc['g'], dtype=float)
    ix = np.argsort(g)
    ok = sorted(ix.tolist()) == list(range(n)) and bool(np.all(np.diff(g[ix]) >= 0))
    ctx.corr('np.argsort.contract', cc, 'permutation,nondecreasing' if ok else 'violated:%r' % ix.tolist(),
             'permutation,nondecreasing', nontrivial=False, key=('sortc', key))
    impl_err = None
    if isinstance(impl, str):
        impl_err = impl
    elif impl is not None:
        p, mu = impl
    else:
        try:
            p, mu = run_impl(cc)
        except Exception as e:
            impl_err = 'error:' + type(e).__name__
    if 'error' in m or impl_err:
        ctx.corr('doWF', cc, impl_err or 'value', m.get('error', 'value'), key=('wf', key))
        ctx.branch('error-case')
        return
    s = scale_of(cc, float(m['mu']))
    tol = rtol_of(cc) * s
    mp = np.array([float(x) for x in m['p']])
    # binary64 evaluation is exact when gains, N, Es are powers of two (all levels dyadic) and
    # the model's result is a short dyadic (then so is every intermediate of the code)
    dyadic_exact = case.get('style') == 'dyadic' and rtol_of(cc) == RTOL and all(
        math.frexp(x)[0] == 0.5 for x in cc['g'] + [cc['N'], cc['Es']]) and all(
        (x.denominator & (x.denominator - 1)) == 0 and x.denominator <= 2 ** 30 and x.numerator < 2 ** 45
        for x in m['p'] + [m['mu']])
    dropped = n - m['kept']
    nontrivial = n >= 2
    if dyadic_exact:
        ip = [Fraction(float(x)) for x in p]
        same = len(ip) == len(m['p']) and all(a == b for a, b in zip(ip, m['p'])) and Fraction(mu) == m['mu']
        ctx.corr('doWF.exact', cc, 'identical' if same else 'p=%r mu=%r' % (p.tolist(), mu),
                 'identical' if same else 'p=%s mu=%s' % ([str(x) for x in m['p']], m['mu']),
                 nontrivial=nontrivial, key=('wfx', key))
        ctx.branch('exact-dyadic')
    else:
        okp = p.shape == mp.shape and bool(np.all(np.abs(p - mp) <= tol))
        ctx.corr('doWF.alloc', cc, 'agree' if okp else 'p=%r' % (p.tolist(),),
                 'agree' if okp else 'p=%r' % (mp.tolist(),), nontrivial=nontrivial, key=('wfp', key))
        okm = abs(mu - float(m['mu'])) <= tol
        ctx.corr('doWF.mu', cc, 'agree' if okm else 'mu=%r' % mu, 'agree' if okm else 'mu=%r' % float(m['mu']),
                 nontrivial=nontrivial, key=('wfm', key))
    if m['margin'] >= (Fraction(1, 10 ** 9) if rtol_of(cc) == RTOL else Fraction(1, 1000)):
        ik = int(np.count_nonzero(p))
        ctx.corr('doWF.kept', cc, str(ik), str(m['kept']), nontrivial=nontrivial, key=('wfk', key))
    else:
        ctx.branch('near-tie(kept count not compared)')
    ctx.branch('dropped=0' if dropped == 0 else 'dropped>=1')
    if dropped >= n - 1 and n >= 3:
        ctx.branch('only-best-kept')
    if cc['Es'] != 1.0:
        ctx.branch('Es!=1')
    if has_ties(cc):
        ctx.branch('ties')
    if n == 1:
        ctx.branch('n=1')
    if n >= 32:
        ctx.branch('n>=32')
    if max(cc['g']) / min(cc['g']) >= 1e9:
        ctx.branch('gain-spread>=1e9')
    if max(cc['g']) / min(cc['g']) >= 1e16:
        ctx.branch('gain-spread>=1e16')
        if m is not None and getattr(m, 'get', None) and m.get('dropped') == 0:
            ctx.branch('gain-spread>=1e16:weakest-in-use')
    for b in case.get('branches', ()):
        ctx.branch(b)
    if cc.get('variant'):
        ctx.branch('corr:variant:' + variant_kind(cc['variant']) + ':'
                   + cc['variant'].get('layout', 'contig') + ':' + cc['variant'].get('call', 'positional'))
    ctx.sample({'call': 'doWF', 'case': cc, 'impl': {'p': p.tolist(), 'mu': mu},
                'model': {'p': [str(x) for x in m['p']], 'mu': str(m['mu']), 'kept': m['kept']}})


def malformed(ctx):
    """outside the quantifier, recorded so that the model's error branches are tied too"""
    drv = core.Driver(DRIVER)
    cases = [{'g': [], 'P': 1.0, 'N': 1.0, 'Es': 1.0},
             {'g': [3.0], 'P': -1.0, 'N': 1.0, 'Es': 1.0},
             {'g': [3.0, 1.0, 2.0], 'P': -0.5, 'N': 1.0, 'Es': 2.0},
             # R5: exactly zero power / zero noise (outside the quantifier, accepted by the code)
             {'g': [3.0, 1.0, 2.0], 'P': 0.0, 'N': 1.0, 'Es': 2.0, 'branches': ['R5:P=0']},
             {'g': [5.0], 'P': 0.0, 'N': 0.5, 'Es': 1.0, 'branches': ['R5:P=0']},
             {'g': [2.0, 2.0], 'P': 0.0, 'N': 1.0, 'Es': 1.0, 'branches': ['R5:P=0']},
             {'g': [3.0, 1.0, 2.0], 'P': 1.5, 'N': 0.0, 'Es': 2.0, 'branches': ['R5:N=0']},
             {'g': [4.0, 2.0, 1.0], 'P': 0.0, 'N': 1.0, 'Es': 1.0, 'branches': ['R5:P=0'],
              'variant': {'garr': 'int32', 'scalars': 'pyint'}}]
    out = drv.ask([line_of(c) for c in cases])
    for c, rep in zip(cases, out):
        compare_one(ctx, c, parse_reply(rep))
        if c['P'] == 0.0:
            run_oracle(ctx, 'doWF', clean(c))


# ------------------------------------------------------------------ R1-R7 streams
def gen_int_case(rng, garr, scalars):
    """integer gains that fit `garr`; integer P, N, Es that fit `scalars` (when integer typed)"""
    hi = {'int8': 127, 'uint8': 255}.get(garr, 1000)
    n = rng.randint(1, 8)
    g = [float(rng.randint(1, hi)) for _ in range(n)]
    if rng.chance(0.3):
        g[rng.below(n)] = float(hi)
    shi = {'int8': 127, 'uint8': 255}.get(scalars, 300)
    if scalars in INT_TYPES or scalars == 'pyint':
        P, N, Es = float(rng.randint(1, min(shi, 60))), float(rng.randint(1, 9)), float(rng.randint(1, 6))
    elif scalars == 'float16':
        P, N, Es = [float(rng.choice([0.25, 0.5, 1.0, 1.5, 2.0, 3.0, 12.0])) for _ in range(3)]
    elif scalars == 'float32':
        P, N, Es = [float(np.float32(logu(rng, -2, 2))) for _ in range(3)]
    else:
        P, N, Es = logu(rng, -2, 2), rng.choice([1.0, 0.5, logu(rng, -1, 1)]), rng.choice([1.0, 2.0, logu(rng, -1, 1)])
    return {'g': g, 'P': P, 'N': N, 'Es': Es, 'variant': {'garr': garr, 'scalars': scalars}}


def gen_r1(rng, count):
    out = []
    sc_all = ['pyfloat', 'pyint', 'float64', 'float32', 'float16', '0d'] + list(INT_TYPES)
    for i in range(count):
        garr = (list(INT_TYPES) + ['float32', 'float64'])[i % 8]
        scalars = rng.choice(sc_all)
        if garr == 'float32':
            c = gen_case(rng, 12)
            c = {'g': [float(np.float32(x)) for x in c['g']], 'P': c['P'], 'N': c['N'], 'Es': c['Es']}
            c['variant'] = {'garr': 'float32', 'scalars': 'pyfloat'}
            if min(c['g']) <= 0 or not np.all(np.isfinite(c['g'])):
                continue
        elif garr == 'float64':
            c = gen_int_case(rng, 'int64', scalars)
            c['variant'] = {'garr': 'float64', 'scalars': scalars}
            if rng.chance(0.4):
                c['variant']['container'] = rng.choice(['list', 'tuple'])
        else:
            c = gen_int_case(rng, garr, scalars)
        out.append(c)
    # the seeded-change witness and the overflow witness are always present
    out.append({'g': [4.0, 2.0, 1.0], 'P': 1.0, 'N': 1.0, 'Es': 1.0, 'variant': {'garr': 'int64', 'scalars': 'pyfloat'}})
    out.append({'g': [4.0, 2.0, 1.0], 'P': 1.0, 'N': 1.0, 'Es': 1.0, 'variant': {'garr': 'uint8', 'scalars': 'pyint'}})
    out.append({'g': [200.0, 100.0, 3.0], 'P': 1.0, 'N': 1.0, 'Es': 2.0,
                'variant': {'garr': 'uint8', 'scalars': 'pyint'}})
    out.append({'g': [100.0, 50.0, 3.0], 'P': 1.0, 'N': 1.0, 'Es': 2.0,
                'variant': {'garr': 'int8', 'scalars': 'int8'}})
    out.append({'g': [20000.0, 9.0, 300.0], 'P': 2.0, 'N': 3.0, 'Es': 4.0,
                'variant': {'garr': 'int16', 'scalars': 'int64'}})
    return out


def gen_r2(rng, count):
    out = []
    layouts = ['strided', 'reversed', 'column', 'fcolumn', 'readonly', 'broadcast']
    for i in range(count):
        lay = layouts[i % len(layouts)]
        c = gen_case(rng, 12) if rng.chance(0.7) else gen_int_case(rng, rng.choice(['int32', 'uint8', 'int64']), 'pyfloat')
        c = clean(c)
        v = c.setdefault('variant', {})
        if lay == 'broadcast':
            c['g'] = [c['g'][0]] * len(c['g'])
        v['layout'] = lay
        out.append(c)
    for shape in ('col2d', 'row2d', '3d', '0d'):
        for _ in range(max(2, count // 40)):
            c = clean(gen_case(rng, 6))
            if rng.chance(0.3):
                c['g'] = c['g'][:1]
            c['variant'] = {'shape': shape}
            out.append(c)
    return out


def gen_r5(rng):
    """boundary and degenerate values: sizes around powers of two, parameters exactly 1, power
    exactly at a threshold (dyadic, exact), single channel, P tiny/huge"""
    out = []
    for n in (1, 2, 3, 4, 5, 7, 8, 9, 15, 16, 17, 31, 32, 33, 63, 64, 65):
        g = [quantize(logu(rng, -1, 1), 8) for _ in range(n)]
        out.append({'g': g, 'P': 1.0, 'N': 1.0, 'Es': 1.0})
        out.append({'g': [1.0] * n, 'P': 1.0, 'N': 1.0, 'Es': 1.0})
        gd = [2.0 ** rng.randint(-3, 3) for _ in range(n)]
        a = sorted(Fraction(1) / Fraction(x) for x in gd)
        k = rng.randint(1, n)
        out.append({'g': gd, 'P': float(k * a[k - 1] - sum(a[:k])) or 1.0, 'N': 1.0, 'Es': 1.0, 'style': 'dyadic'})
    out.append({'g': [1.0], 'P': 1.0, 'N': 1.0, 'Es': 1.0})
    out.append({'g': [1.0, 1.0], 'P': 1e-300, 'N': 1.0, 'Es': 1.0})
    out.append({'g': [3.0, 2.0], 'P': 1e100, 'N': 1.0, 'Es': 1.0})
    for c in out:
        c['branches'] = ['R5:boundary']
    return out


def gen_r6(rng, count):
    """whole input at another scale: powers (P, N) and/or gains multiplied by 1e-12 .. 1e12"""
    out = []
    for i in range(count):
        c = gen_case(rng, 10)
        s = 10.0 ** rng.randint(-12, 12) if i % 2 else 2.0 ** rng.randint(-40, 40)
        t = 10.0 ** rng.randint(-12, 12)
        c['P'] *= s
        c['N'] *= s
        c['g'] = [x * t for x in c['g']]
        if rng.chance(0.5):
            c['N'] *= t
        c['branches'] = ['R6:scaled-input']
        out.append(c)
    for s in (1e-15, 1e-12, 1e-9, 1e9, 1e12):     # the seeded C12_4 scenario
        out.append({'g': [1.0, 0.5, 0.01], 'P': s, 'N': s, 'Es': 1.0, 'branches': ['R6:scaled-input']})
        out.append({'g': [1.0 / s, 0.5 / s, 0.01 / s], 'P': s, 'N': 1.0, 'Es': 1.0, 'branches': ['R6:scaled-input']})
    return out


def robustness_oracles(ctx, r1, r2, n_other):
    """R1-R4, R6, R7 oracles on the implementation (the R5/R6 *streams* also go through the
    standard oracles and the correspondence)"""
    for c in [c for c in corpus_cases() if c.get('variant')] + r1:
        cc = clean(c)
        run_oracle(ctx, 'doWF.dtype', cc)
        ctx.branch('R1:' + variant_kind(cc['variant']).split('+')[0])
        if cc['variant'].get('scalars', 'pyfloat') != 'pyfloat':
            ctx.branch('R1:scalars')
        if int_product_overflows(cc):
            ctx.branch('R1:Es*g-exceeds-int-range')
        if cc['variant'].get('container'):
            ctx.branch('R1:list/tuple')
    for c in r2:
        cc = clean(c)
        run_oracle(ctx, 'doWF.layout', cc)
        ctx.branch('R2:' + (cc['variant'].get('shape') or cc['variant']['layout']))
    pool = [clean(c) for c in r1 if not (c.get('variant') or {}).get('container')] + \
           [clean(c) for c in r2 if not c['variant'].get('shape')]
    for i in range(n_other):
        c = dict(ctx.rng.choice(pool)) if i % 2 else clean(gen_case(ctx.rng, 10))
        run_oracle(ctx, 'doWF.immutable', c)
        ctx.branch('R3:immutability')
        c4 = dict(c)
        c4['reject'] = REJECTS[i % len(REJECTS)]
        run_oracle(ctx, 'doWF.rejected', c4)
        ctx.branch('R4:' + c4['reject'])
        c7 = dict(c)
        c7['powers'] = [ctx.rng.choice([0.5, 1.0, 2.0, 3.0, 0.125, 10.0]) for _ in range(ctx.rng.randint(3, 7))]
        c7['powers'] += c7['powers'][:2]
        run_oracle(ctx, 'doWF.history', c7)
        ctx.branch('R7:history')
        c6 = clean(gen_case(ctx.rng, 10))
        kind = ('power-noise', 'gain-noise', 'gain-Es')[i % 3]
        s = 2.0 ** ctx.rng.randint(-40, 40) if ctx.rng.chance(0.5) else 10.0 ** ctx.rng.randint(-12, 12)
        c6['scale'] = {'kind': kind, 's': s}
        run_oracle(ctx, 'doWF.scale', c6)
        ctx.branch('R6:' + kind)
    for s in (1e-15, 1e-12, 1e-9, 1e-6, 1e6, 1e12):
        c6 = {'g': [1.0, 0.5, 0.01], 'P': 1.0, 'N': 1.0, 'Es': 1.0, 'scale': {'kind': 'power-noise', 's': s}}
        run_oracle(ctx, 'doWF.scale', c6)


# ------------------------------------------------------------------ R8-R14 streams
def gen_r8(rng, count):
    """argument forms: positional / keyword / mixed, optional arguments left at their default"""
    out = []
    forms = [f for f in CALL_FORMS if f != 'positional']
    for i in range(count):
        form = forms[i % len(forms)]
        r = rng.below(3)
        c = clean(gen_case(rng, 10) if r == 0 else gen_dyadic(rng, 8) if r == 1 else
                  gen_int_case(rng, rng.choice(['int32', 'uint8', 'float64']), rng.choice(['pyint', 'pyfloat', 'int16'])))
        style = 'dyadic' if r == 1 else None
        for k in CALL_FORMS[form]:
            c[k] = 1.0
        c.setdefault('variant', {})['call'] = form
        if style:
            c['style'] = style
        out.append(c)
    for form in ('positional', 'keyword', 'default-Es'):     # length-1 arrays where scalars are documented
        c = clean(gen_case(rng, 6))
        for k in CALL_FORMS[form]:
            c[k] = 1.0
        c['variant'] = {'call': form, 'scalars': 'len1'}
        out.append(c)
    return out


INT_ELEM = ['pyint', 'int8', 'uint8', 'int64', 'int16', 'pyfloat', 'float32', 'float64', '0d']
FRAC_ELEM = ['pyfloat', 'float32', 'float64', 'float16', '0d']


def gen_r10(rng, count):
    """gain collections whose elements differ in type: the first element an integer type, later
    ones fractional floats (and the other way round), lists / tuples / object arrays"""
    out = []
    for i in range(count):
        n = rng.randint(2, 8)
        vals, elems = [], []
        for j in range(n):
            if (j == 0 and i % 3 != 2) or (j > 0 and rng.chance(0.4)):
                vals.append(float(rng.randint(1, 100)))
                elems.append(rng.choice(INT_ELEM[:5]) if j == 0 else rng.choice(INT_ELEM))
            else:
                vals.append(rng.randint(1, 800) / 8.0 + 0.125 * (1 - rng.below(2)))
                elems.append(rng.choice(FRAC_ELEM))
        if all(float(x).is_integer() for x in vals):
            vals[-1], elems[-1] = vals[-1] + 0.625, 'pyfloat'
        c = {'g': vals, 'P': logu(rng, -1, 2), 'N': rng.choice([1.0, 0.5, 3.0]), 'Es': rng.choice([1.0, 2.0, 0.25]),
             'variant': {'container': ('list', 'tuple', 'object-array')[i % 3], 'elems': elems}}
        out.append(c)
    out.append({'g': [3.0, 2.5, 0.75], 'P': 1.0, 'N': 1.0, 'Es': 1.0,
                'variant': {'container': 'list', 'elems': ['pyint', 'pyfloat', 'float32']}})
    return out


def gen_r14(rng, sizes):
    """scale in COUNTS: many channels (8-bit mantissas keep the exact model cheap)"""
    out = []
    for n in sizes:
        c = rng.uniform(-1, 1)
        g = [quantize(logu(rng, c - 1, c + 1), 8) for _ in range(n)]
        N, Es = rng.choice([1.0, 0.5]), rng.choice([1.0, 2.0])
        k = max(1, n - rng.randint(0, 40))                 # a few dozen channels switched off at most
        t = threshold_P(g, N, Es, k)
        t2 = threshold_P(g, N, Es, k + 1) if k < n else 2 * t + 1.0
        P = t + (t2 - t) * rng.uniform(0.2, 0.8) if t2 > t else max(t, 1.0) * 1.5
        out.append({'g': g, 'P': float(P), 'N': N, 'Es': Es, 'branches': ['R14:n=%d' % n]})
    return out


def robustness2_oracles(ctx, r8, r10, r14_big, n_other):
    for c in r8:
        run_oracle(ctx, 'doWF.argform', clean(c))
        ctx.branch('R8:' + c['variant']['call'])
        if c['variant'].get('scalars') == 'len1':
            ctx.branch('R8:len1-scalars')
    for c in r10:
        run_oracle(ctx, 'doWF.hetero', clean(c))
        ctx.branch('R10:' + c['variant']['container'])
    pool = [clean(c) for c in r8 if c['variant'].get('scalars') != 'len1']
    for i in range(n_other):
        c = dict(ctx.rng.choice(pool)) if i % 3 == 0 else clean(gen_case(ctx.rng, 10))
        if i % 3 == 1:
            c = clean(gen_int_case(ctx.rng, ctx.rng.choice(['int32', 'uint8']), 'pyfloat'))
            c['variant']['layout'] = ctx.rng.choice(['strided', 'column', 'reversed'])
        run_oracle(ctx, 'doWF.derived', c)
        ctx.branch('R13:derived')
    for c in r14_big:                     # too long for the exact-rational model: oracles only
        cc = clean(c)
        n = len(cc['g'])
        run_oracle(ctx, 'doWF', cc)
        co = dict(cc)
        co['oseed'] = ctx.rng.below(1 << 30)
        run_oracle(ctx, 'doWF.optimal', co)
        cp = dict(cc)
        sigma = list(range(n))
        ctx.rng.shuffle(sigma)
        cp['perm'] = sigma
        run_oracle(ctx, 'doWF.permute', cp)
        ctx.branch('R14:n=%d(oracles only)' % n)


# ------------------------------------------------------------------ R15: distinct values that are merely close
TIGHT = 1e-12      # relative to max(P, best level, mu): ~4500 ulp; the code's own rounding error is ~(2n+10) ulp


def exact_wf(g, P, N, Es):
    """water-filling solution in exact rational arithmetic, from the DEFINITION (not the code's loop): the
    left side of  sum_i max(0, mu - a_i) = P,  a_i = N/(Es g_i),  is continuous, piecewise linear and
    strictly increasing above min a; with the k lowest levels under water mu = (P + a_(1) + .. + a_(k))/k,
    and k is the first count for which that level does not reach a_(k+1).
    Returns (p, mu, k, margin): margin = smallest relative distance of P from a power T_k (k >= 2) at which
    another channel starts to be used - the discrete decisions of ANY algorithm are robust against
    rounding when it is not tiny (T_1 = 0 is not a decision: the best channel is always in use)."""
    a = [Fraction(N) / (Fraction(Es) * Fraction(x)) for x in g]
    srt = sorted(a)
    P = Fraction(P)
    n = len(a)
    acc = Fraction(0)
    mu, k_used = None, n
    for k in range(1, n + 1):
        acc += srt[k - 1]
        cand = (P + acc) / k
        if k == n or cand <= srt[k]:
            mu, k_used = cand, k
            break
    p = [max(Fraction(0), mu - x) for x in a]
    acc, margin = srt[0], Fraction(1)
    for k in range(2, n + 1):
        acc += srt[k - 1]
        T = k * srt[k - 1] - acc
        margin = min(margin, abs(T - P) / max(abs(T), P, srt[k - 1]))
    return p, mu, k_used, margin


def is_pow2(x):
    return x > 0 and math.frexp(x)[0] == 0.5


def exactly_computable(call, p, mu, k, margin):
    """binary64 evaluation of the water-filling solution is EXACT, whatever the order of the operations:
    gains and Es are powers of two (every level N/(Es g) is N with another exponent), no loop test is
    within 1e-9 of a tie, and P, the levels in use, the allocation and the level all lie on one binary
    grid u on which the largest natural intermediate, P + sum of the levels in use (= k mu), is below
    2^53 u.  Then every sum / difference / quotient a reasonable evaluation forms is representable, and
    the result must equal the exact one bit for bit - this is what separates adjacent doubles."""
    if not all(is_pow2(x) for x in call['g']) or not is_pow2(call['Es']) or margin < Fraction(1, 10 ** 9):
        return False
    a = [Fraction(call['N']) / (Fraction(call['Es']) * Fraction(x)) for x in call['g']]
    used = [x for x, y in zip(a, p) if y > 0]
    vals = [Fraction(call['P']), mu] + used + [y for y in p if y > 0]
    den = 1
    for v in vals:
        if v.denominator & (v.denominator - 1):
            return False
        den = max(den, v.denominator)
    top = Fraction(call['P']) + sum(used)
    return top * den < 2 ** 53 and all(abs(v) * den >= 1 for v in vals if v != 0)


def call_of(case, i):
    c = case['calls'][i]
    return {'g': [float(x) for x in c['g']], 'P': float(c['P']), 'N': float(c['N']), 'Es': float(c['Es'])}


def close_kind(case):
    cl = case.get('close') or {}
    return 'R15:%s:%s' % (cl.get('kind', '?'), cl.get('param', '?'))


def o_close(case, info=None):
    """R15: a short history of calls whose arguments are DISTINCT but close (tiny magnitudes, relative
    1e-6..1e-8, adjacent doubles, beyond the 12th decimal, total power a hair below / above a threshold).
    Every call must return the water-filling solution of ITS OWN values: compared with the exact rational
    solution at 1e-12 relative (bit for bit where binary64 evaluation is exact).  The gain array object is
    reused while the gains stay the same, as a caller sweeping one scalar would do."""
    kind = close_kind(case)
    garr, prev = None, None
    for i in range(len(case['calls'])):
        c = call_of(case, i)
        if prev != c['g']:
            garr, prev = np.array(c['g'], dtype=float), c['g']
        p, mu = call_raw((garr, c['P'], c['N'], c['Es']))
        p = np.asarray(p, dtype=float)
        mu = float(np.asarray(mu, dtype=float).reshape(-1)[0])
        ep, emu, k, margin = exact_wf(c['g'], c['P'], c['N'], c['Es'])
        where = 'call %d of %d (g=%r P=%r N=%r Es=%r)' % (i + 1, len(case['calls']), c['g'], c['P'], c['N'], c['Es'])
        if p.shape != (len(c['g']),) or not np.all(np.isfinite(p)) or not math.isfinite(mu):
            return kind + ':shape-or-nonfinite', '%s: p=%r mu=%r' % (where, p.tolist(), mu)
        if exactly_computable(c, ep, emu, k, margin):
            if info is not None:
                info.append('exact')
            if [Fraction(float(x)) for x in p] != ep or Fraction(mu) != emu:
                return kind + ':exact', '%s: p=%r mu=%r, exactly p=%r mu=%r' % (
                    where, p.tolist(), mu, [float(x) for x in ep], float(emu))
            continue
        if info is not None:
            info.append('tight')
        sc = max(Fraction(c['P']), min(Fraction(c['N']) / (Fraction(c['Es']) * Fraction(x)) for x in c['g']), emu)
        tol = Fraction(TIGHT) * sc * max(1, len(c['g']) // 8)
        j = max(range(len(ep)), key=lambda t: abs(Fraction(float(p[t])) - ep[t]))
        if abs(Fraction(float(p[j])) - ep[j]) > tol:
            return kind, '%s: channel %d gets %r, the solution for these values is %r (|diff| = %.3g of the scale %.3g)' % (
                where, j, float(p[j]), float(ep[j]), float(abs(Fraction(float(p[j])) - ep[j]) / sc), float(sc))
        if abs(Fraction(mu) - emu) > tol:
            return kind, '%s: level %r, the solution for these values has %r' % (where, mu, float(emu))
    return None


def thresholds(g, N, Es):
    """exact powers T_1 = 0 <= T_2 <= .. at which the 1st, 2nd, .. best channel starts to be used"""
    a = sorted(Fraction(N) / (Fraction(Es) * Fraction(x)) for x in g)
    out, acc = [], Fraction(0)
    for k in range(1, len(a) + 1):
        acc += a[k - 1]
        out.append(k * a[k - 1] - acc)
    return out


def between(rng, g, N, Es, k):
    """a power with exactly k channels in use, well inside the interval"""
    T = thresholds(g, N, Es)
    lo = T[k - 1]
    hi = T[k] if k < len(T) else None
    if hi is None or hi <= lo:
        return float(lo) * (1.5 + rng.uniform(0, 2)) + (float(min(N / (Es * x) for x in g)) if lo == 0 else 0.0)
    return float(lo + (hi - lo) * Fraction(rng.uniform(0.1, 0.9)))


def r15_history(kind, param, calls, note=None):
    h = {'calls': [{'g': [float(x) for x in c[0]], 'P': float(c[1]), 'N': float(c[2]), 'Es': float(c[3])}
                   for c in calls], 'close': {'kind': kind, 'param': param}}
    if note:
        h['note'] = note
    for c in h['calls']:
        if not (min(c['g']) > 0 and c['P'] > 0 and c['N'] > 0 and c['Es'] > 0) or \
                not all(math.isfinite(x) for x in c['g'] + [c['P'], c['N'], c['Es']]):
            raise core.Infra('R15 generator left the domain: %r' % (c,))
    return h


R15_FIXED = [
    # noise powers that np.isclose (atol 1e-8) identifies with each other and with 0
    r15_history('tiny', 'N', [([1.0, 0.5, 0.25], 3e-12, n, 1.0) for n in (4e-12, 4e-13, 4.4e-12, 4e-12)],
                'noise 4e-12 / 4e-13 / 4.4e-12 with a total power of 3e-12'),
    r15_history('tiny', 'P', [([1.0, 0.5, 0.25], P, 2e-12, 1.0) for P in (1e-12, 1e-13, 3e-12, 9e-12)]),
    r15_history('tiny', 'g', [(g, 2.0, 1e-12, 1.0) for g in
                              ([1e-12, 5e-13, 2.5e-13], [3e-12, 5e-13, 2.5e-13], [1e-12, 5e-14, 2.5e-13])]),
    r15_history('tiny', 'g-within', [([3e-10, 1e-12, 5e-15], P, 1e-12, 1.0) for P in (0.5, 150.0, 500.0)],
                'gains 3e-10, 1e-12, 5e-15 are all "equal to 0"; 1, 2, 3 of them in use'),
    r15_history('tiny', 'Es', [([2.0, 1.0], 1.5, 1e-9, es) for es in (1e-9, 1e-10, 3e-9)]),
    # large values differing by a relative 1e-6 .. 1e-8
    r15_history('rel', 'g-within', [([2.4e9, 2.4e9 + 2e4, 2.4e9 - 3e4], P, 1.0, 1.0)
                                    for P in (1e-15, 4e-15, 1e-14, 1.0)],
                'levels differ by a relative 1e-5: 1, 2, 3, 3 channels in use'),
    r15_history('rel', 'g', [([2.4e9, 1.2e9], 1e-9, 1.0, 1.0), ([2.4e9 + 2e4, 1.2e9], 1e-9, 1.0, 1.0),
                             ([2.4e9, 1.2e9 + 1e3], 1e-9, 1.0, 1.0)]),
    r15_history('rel', 'P', [([3.0, 2.0, 1.0], P, 1.0, 1.0) for P in (2.4e9, 2.4e9 + 2e4, 2.4e9 + 20.0)]),
    r15_history('rel', 'P', [([3.0, 2.0, 1.0], P, 1.0, 1.0) for P in (1.0, 1.000001, 1.00000001, 0.9999999)]),
    r15_history('rel', 'N', [([3.0, 2.0, 1.0], 1.0, n, 1.0) for n in (1.0, 1.000001, 1.0000001, 1.0)]),
    r15_history('rel', 'Es', [([3.0, 2.0, 1.0], 1.0, 1.0, es) for es in (2.0, 2.000002, 1.9999998)]),
    # adjacent doubles (only the best channel in use, or a single one: binary64 is exact there)
    r15_history('ulp', 'P', [([1.0], P, 0.0625, 1.0) for P in (0.3, 0.30000000000000004, 0.29999999999999993, 0.3)]),
    r15_history('ulp', 'P', [([4.0, 0.25, 0.125], P, 0.25, 1.0) for P in (0.3, 0.30000000000000004, 0.3)]),
    r15_history('ulp', 'N', [([1.0], 0.0625, n, 1.0) for n in (0.3, 0.30000000000000004, 0.3)]),
    # values differing beyond the 12th decimal only (dyadic: exact)
    r15_history('dec13', 'P', [([1.0, 0.5], 3.0 + j * 2.0 ** -44, 1.0, 1.0) for j in (0, 1, 3, 0)]),
    r15_history('dec13', 'N', [([2.0, 1.0, 0.5, 0.25], 16.0, 1.0 + j * 2.0 ** -42, 2.0) for j in (0, 1, 2)]),
    r15_history('dec13', 'P', [([1.0, 0.5, 0.25], 0.75 + j * 2.0 ** -43, 0.5, 1.0) for j in (0, 1, 2, 1)]),
]


def gen_r15(rng, count):
    """random histories of 2-4 calls with close-but-distinct arguments, every kind x parameter"""
    out = []
    plan = [('tiny', 'N'), ('tiny', 'P'), ('tiny', 'g'), ('tiny', 'g-within'), ('rel', 'g-within'), ('rel', 'g'),
            ('rel', 'P'), ('rel', 'N'), ('rel', 'Es'), ('threshold', 'P'), ('threshold', 'P'), ('ulp', 'P'),
            ('ulp', 'N'), ('dec13', 'P'), ('dec13', 'N')]
    for i in range(count):
        kind, param = plan[i % len(plan)]
        n = rng.randint(2, 6)
        m = rng.randint(2, 4)
        if kind in ('tiny', 'rel', 'threshold'):
            c = rng.uniform(-1, 1)
            g = [logu(rng, c - 1, c + 1) for _ in range(n)]
            N, Es = rng.choice([1.0, 0.5, logu(rng, -1, 1)]), rng.choice([1.0, 2.0, logu(rng, -1, 1)])
            k = rng.randint(1, n)
        if kind == 'tiny':
            u = 10.0 ** -rng.randint(9, 15)
            f = [1.0] + [rng.choice([0.1, 10.0, 1.1, 0.3, 3.0, 1.000001]) for _ in range(m - 1)]
            if rng.chance(0.5):
                f[-1] = 1.0                                   # come back to the first value
            if param == 'N':
                P = between(rng, g, N, Es, k)
                calls = [(g, u * P, u * N * x, Es) for x in f]
            elif param == 'P':
                P = between(rng, g, N, Es, k)
                calls = [(g, u * P * x, u * N, Es) for x in f]
            elif param == 'g':
                P = between(rng, g, N, Es, k)
                j = g.index(max(g)) if rng.chance(0.5) else rng.below(n)
                calls = [([u * y * (x if t == j else 1.0) for t, y in enumerate(g)], P, u * N, Es) for x in f]
            else:
                g = [10.0 ** -rng.uniform(9, 15) for _ in range(n)]
                calls = [(g, between(rng, g, u, Es, rng.randint(1, n)), u, Es) for _ in range(m)]
        elif kind == 'rel':
            d = [0.0] + [rng.choice([1e-6, -1e-6, 3e-7, 1e-7, -2e-8, 1e-8]) for _ in range(m - 1)]
            if rng.chance(0.4):
                d[-1] = 0.0
            big = rng.choice([1.0, 2.4e9, 1e6, 1e-6])
            if param == 'g-within':
                g = [big * (1 + rng.randint(-40, 40) * rng.choice([1e-7, 1e-8])) for _ in range(n)]
                if len(set(g)) < n:
                    g = [big * (1 + t * 1e-7) for t in range(n)]
                calls = [(g, between(rng, g, N, Es, rng.randint(1, n)), N, Es) for _ in range(m)]
            elif param == 'g':
                g = [big * y for y in g]
                P = between(rng, g, N, Es, k)
                a = [N / (Es * y) for y in g]
                j = int(np.argmin(a)) if rng.chance(0.5) else rng.below(n)
                calls = [([y * (1 + x) if t == j else y for t, y in enumerate(g)], P, N, Es) for x in d]
            else:
                P = between(rng, g, N, Es, k)
                calls = [(g, P * (1 + x) if param == 'P' else P, N * (1 + x) if param == 'N' else N,
                          Es * (1 + x) if param == 'Es' else Es) for x in d]
        elif kind == 'threshold':
            k = rng.randint(2, n)
            T = float(thresholds(g, N, Es)[k - 1])
            if not T > 0:
                continue
            dl = rng.choice([1e-6, 1e-7, 1e-8, 3e-9])
            calls = [(g, T * (1 + x * dl), N, Es) for x in rng.choice([(-1, 1, 3), (1, -1), (-2, -1, 1, 2), (3, 1, -1)])]
        elif kind == 'ulp':
            # only the best channel in use (or a single channel): p_best = P and mu = P + a_best exactly
            e = rng.randint(-3, 3)
            base = rng.choice([0.3, 0.7, 0.1, 0.6, 1.0 / 3.0]) * 2.0 ** e
            lo, hi = 2.0 ** math.floor(math.log2(base)), 2.0 ** (math.floor(math.log2(base)) + 1)
            small = lo / 2.0 ** rng.randint(2, 6)              # on the grid of `base`, keeps the sum in the binade
            if base + small >= hi or base - 3 * (hi - lo) * 2.0 ** -52 <= lo:
                continue
            gb = 2.0 ** rng.randint(-2, 2)
            others = [gb * 2.0 ** -rng.randint(4, 8) for _ in range(rng.choice([0, 0, 1, 2]))]
            g = [gb] + others
            rng.shuffle(g)
            seq = [base, math.nextafter(base, math.inf), math.nextafter(base, 0.0), base][:m]
            if param == 'P':
                calls = [(g, x, small * gb, 1.0) for x in seq]            # level of the best channel = small
            else:
                calls = [(g, small, x * gb, 1.0) for x in seq]            # level = x, power = small
        else:                                                  # dec13
            nn = rng.choice([1, 2, 2, 4, 4, 3])
            g = [2.0 ** rng.randint(-2, 2) for _ in range(nn)]
            Es = 2.0 ** rng.randint(-1, 1)
            N0, P0 = rng.randint(1, 8) / 4.0, rng.randint(1, 32) / 4.0
            js = [0] + [rng.randint(1, 7) for _ in range(m - 1)]
            h = 2.0 ** -rng.randint(41, 44)
            calls = [(g, P0 + (j * h if param == 'P' else 0.0), N0 + (j * h if param == 'N' else 0.0), Es) for j in js]
        out.append(r15_history(kind, param, calls))
    return out


def r15_cases(hists):
    """every call of every history as a plain case: correspondence with the exact model (fresh call) and
    the standard first-principles oracles"""
    cases = []
    for h in hists:
        for i in range(len(h['calls'])):
            c = call_of(h, i)
            c['branches'] = ['corr:R15:' + h['close']['kind']]
            cases.append(c)
    return cases


def r15_oracles(ctx, hists):
    for h in hists:
        info = []
        hc = {k: h[k] for k in ('calls', 'close')}
        ctx.count(('doWF.close', json.dumps(hc, sort_keys=True)), True)
        try:
            r = o_close(hc, info)
        except Exception as e:
            r = ('exception:' + type(e).__name__, repr(e)[:300])
        if r is not None:
            ctx.fail('doWF.close', r[0], hc, r[1])
            ctx.branch('oracle-fail:doWF.close')
        else:
            ctx.branch('oracle-ok:doWF.close')
        ctx.branch('R15:' + h['close']['kind'])
        ctx.branch('R15:' + h['close']['kind'] + ':' + h['close']['param'])
        if 'exact' in info:
            ctx.branch('R15:bit-exact-comparison')
        if 'tight' in info:
            ctx.branch('R15:1e-12-comparison')


# ------------------------------------------------------------------ R16: argument identity and buffer reuse
def play_reuse(case, records=None):
    """R16: ONE preallocated gain buffer (ndarray / strided view / integer array / python list) refilled in
    place before every call of a 2-4 call history - with new contents, a permutation of the old ones, one
    changed element, earlier contents again, another length (one persistent shorter view of the same base) -
    the scalar arguments as python floats, as 0-d arrays that are themselves preallocated and refilled, or
    as ONE 0-d array handed over in two or three roles; the arguments are scribbled over right after the
    call.  Nothing else is called between the calls of the history (a one-entry memo would be evicted).
    Every call must return the exact water-filling solution of the contents at call time (1e-9) and, bit
    for bit, what a call on fresh copies of the contents returns (made after the history); no earlier
    result may change; no argument may be modified; no result may alias an argument or another result."""
    steps = case['steps']
    bk = case.get('buffer', 'ndarray')
    sk = case.get('scalars', 'py')
    nmax = max(len(s['g']) for s in steps)
    dt = np.int64 if bk == 'int-array' else np.float64
    if bk == 'view':
        base = np.full(2 * nmax + 3, -3.0)
        whole = base[1:2 * nmax + 1:2]
    elif bk == 'list':
        base = whole = [0.0] * nmax
    else:
        base = whole = np.full(nmax, 7, dtype=dt)
    views = {nmax: whole}                                        # ONE array object per length, kept for the whole history
    zs = {k: np.array(0.0) for k in ('P', 'N', 'Es')}           # preallocated 0-d arrays (sk = '0d-reused')
    shared = np.array(0.0)                                       # ONE 0-d array for several roles
    kept = []                                                    # (result objects, copy taken at once, step data)

    def cls(check, st):
        return 'R16:%s:%s%s' % (check, bk, ':one-object-in-several-roles' if st.get('roles') else
                                ':0d-reused' if sk == '0d-reused' else '')

    def unchanged(upto, st):
        for j, (old, cp, cmu, _, _) in enumerate(kept):
            if not np.array_equal(np.asarray(old[0]), cp) or float(np.asarray(old[1], dtype=float).reshape(-1)[0]) != cmu:
                return cls('earlier-result-changed', st), 'the result of call %d changed after %s' % (j + 1, upto)
        return None

    for i, st in enumerate(steps):
        vals = [float(x) for x in st['g']]
        n = len(vals)
        if bk == 'list':
            whole[:] = vals                                      # the same list object, new contents (and length)
            buf = whole
        else:
            if n not in views:
                views[n] = whole[:n]
            buf = views[n]                                       # the same array object as in every earlier step of this length
            buf[...] = np.array(vals, dtype=dt)
            if not np.array_equal(np.asarray(buf, dtype=float), np.array(vals)):
                raise core.Infra('buffer of kind %s cannot hold %r' % (bk, vals))
        r = unchanged('the refill before call %d' % (i + 1), st)
        if r is not None:
            return r
        sc = {k: float(st[k]) for k in ('P', 'N', 'Es')}
        args = dict(sc)
        if sk == '0d-reused':
            for k in args:
                zs[k][...] = sc[k]
                args[k] = zs[k]
        roles = st.get('roles') or []
        if roles == ['P=gain-view']:
            if bk == 'list':
                raise core.Infra('a list has no views')
            j = int(st['view_of'])
            if vals[j] != sc['P']:
                raise core.Infra('P must equal gain %d for the view role' % j)
            args['P'] = buf[j:j + 1].reshape(())                 # a 0-d VIEW into the gain buffer
        elif roles:
            if len({sc[k] for k in roles}) != 1:
                raise core.Infra('roles %r need equal values' % (roles,))
            shared[...] = sc[roles[0]]
            for k in roles:
                args[k] = shared                                 # the SAME object in every listed role
        before = (list(buf) if bk == 'list' else snapshot(buf), [snapshot(args[k]) for k in ('P', 'N', 'Es')])
        what = 'call %d on the refilled buffer %r (P=%r N=%r Es=%r)' % (i + 1, vals, sc['P'], sc['N'], sc['Es'])
        try:
            res = call_raw((buf, args['P'], args['N'], args['Es']))
        except Exception as e:
            return cls('raises', st), '%s raises %r' % (what, e)
        after = (list(buf) if bk == 'list' else snapshot(buf), [snapshot(args[k]) for k in ('P', 'N', 'Es')])
        if after != before:
            return cls('argument-modified', st), '%s modified an argument' % what
        p, mu = res
        if isinstance(p, np.ndarray) and (
                (bk != 'list' and np.shares_memory(p, base)) or any(np.shares_memory(p, z) for z in list(zs.values()) + [shared])):
            return cls('result-aliases-argument', st), '%s returned an allocation that shares memory with an argument' % what
        for j, (old, _, _, _, _) in enumerate(kept):
            if isinstance(p, np.ndarray) and isinstance(old[0], np.ndarray) and np.shares_memory(p, old[0]):
                return cls('results-share-memory', st), 'calls %d and %d returned overlapping buffers' % (j + 1, i + 1)
        pa, ma = np.asarray(p, dtype=float), float(np.asarray(mu, dtype=float).reshape(-1)[0])
        ep, emu, _, _ = exact_wf(vals, sc['P'], sc['N'], sc['Es'])
        scale = max(Fraction(sc['P']), min(Fraction(sc['N']) / (Fraction(sc['Es']) * Fraction(x)) for x in vals), emu)
        tol = Fraction(RTOL) * scale
        if pa.shape != (n,) or not np.all(np.isfinite(pa)) or \
                any(abs(Fraction(float(x)) - y) > tol for x, y in zip(pa, ep)) or abs(Fraction(ma) - emu) > tol:
            return cls('not-the-solution-for-the-contents:refill=' + st.get('mode', 'new'), st), \
                '%s returned p=%r mu=%r, the solution for the contents is p=%r mu=%r' % (
                    what, pa.tolist(), ma, [float(y) for y in ep], float(emu))
        if records is not None:
            records.append(({'g': vals, 'P': sc['P'], 'N': sc['N'], 'Es': sc['Es']}, (pa.copy(), ma)))
        kept.append(((p, mu), np.array(p, copy=True), ma, (vals, sc), st))
        if st.get('scribble', True):                             # (iii) arguments modified right after the call
            if bk == 'list':
                whole[:] = [-7.0] * len(whole)
            else:
                whole[...] = 5
            for z in list(zs.values()) + [shared]:
                z[...] = -1.0
            r = unchanged('the arguments of call %d were overwritten' % (i + 1), st)
            if r is not None:
                return r
    # (iv) after the history: equal contents in fresh objects give bit for bit the same results
    for j, (old, cp, cmu, (vals, sc), st) in enumerate(kept):
        fresh_g = list(vals) if bk == 'list' else np.array(vals, dtype=dt)
        fresh = call_raw((fresh_g, sc['P'], sc['N'], sc['Es']))
        if cp.shape != np.asarray(fresh[0]).shape or not np.array_equal(cp, np.asarray(fresh[0], dtype=float)) \
                or cmu != float(fresh[1]):
            return cls('differs-from-fresh-objects', st), \
                'call %d on the refilled buffer %r (P=%r N=%r Es=%r) returned p=%r mu=%r, a call on fresh copies of ' \
                'the contents p=%r mu=%r' % (j + 1, vals, sc['P'], sc['N'], sc['Es'], cp.tolist(), cmu,
                                             np.asarray(fresh[0]).tolist(), float(fresh[1]))
        r = unchanged('the fresh call %d' % (j + 1), st)
        if r is not None:
            return r
    return None


def o_reuse(case):
    return play_reuse(case)


R16_MODES = ('new', 'perm', 'one', 'back', 'same', 'resize')


def gen_r16(rng, count):
    out = []
    buffers = ['ndarray', 'view', 'list', 'int-array', 'ndarray']
    for i in range(count):
        bk = buffers[i % len(buffers)]
        sk = ('py', '0d-reused', 'py')[(i // len(buffers)) % 3]
        m = rng.randint(2, 4)
        n = rng.randint(2, 7)
        ints = bk == 'int-array'

        def fresh_g(nn):
            if ints:
                return [float(rng.randint(1, 400)) for _ in range(nn)]
            c = rng.uniform(-1, 1)
            return [logu(rng, c - 1, c + 1) for _ in range(nn)]

        g = fresh_g(n)
        N, Es = rng.choice([1.0, 0.5, 2.0, logu(rng, -1, 1)]), rng.choice([1.0, 2.0, 0.5, logu(rng, -1, 1)])
        hist = [g]
        steps = []
        for t in range(m):
            mode = 'new' if t == 0 else R16_MODES[(i + t) % len(R16_MODES)] if rng.chance(0.7) else rng.choice(R16_MODES)
            if t == 0:
                pass
            elif mode == 'new':
                g = fresh_g(len(g))
            elif mode == 'perm':
                # same multiset (same sum, same extremes), first element kept when there is room: only the
                # POSITIONS of the gains change
                idx = list(range(len(g)))
                for _ in range(8):
                    tail = idx[1:] if len(g) >= 3 else idx[:]
                    rng.shuffle(tail)
                    cand = (idx[:1] + tail) if len(g) >= 3 else tail
                    if [g[j] for j in cand] != g:
                        break
                g = [g[j] for j in cand]
            elif mode == 'one':
                g = list(g)
                j = rng.below(len(g))
                g[j] = float(rng.randint(1, 400)) if ints else g[j] * rng.choice([1.000001, 0.5, 3.0, 1e-3, 1.01])
            elif mode == 'back':
                g = list(hist[-2] if len(hist) >= 2 else hist[0])
            elif mode == 'resize':
                nn = rng.choice([x for x in (1, 2, 3, 5, 8) if x != len(g)])
                g = (g + fresh_g(nn))[:nn] if rng.chance(0.5) else fresh_g(nn)
            hist.append(g)
            k = rng.randint(1, len(g))
            if mode == 'same' or rng.chance(0.3):
                N, Es = rng.choice([1.0, 0.5, 2.0, logu(rng, -1, 1)]), rng.choice([1.0, 2.0, 0.5, logu(rng, -1, 1)])
            st = {'g': [float(x) for x in g], 'P': between(rng, g, N, Es, k), 'N': float(N), 'Es': float(Es),
                  'mode': mode, 'scribble': rng.chance(0.7)}
            # the same object in two / three roles
            r = rng.below(6)
            if sk == 'py' and r == 0:
                st['N'] = st['Es'] = float(rng.choice([2.0, 0.5, logu(rng, -1, 1)]))
                st['P'] = between(rng, g, st['N'], st['Es'], k)
                st['roles'] = ['N', 'Es']
            elif sk == 'py' and r == 1:
                v = float(rng.choice([1.0, 2.0, 0.75, logu(rng, -1, 1)]))
                st['P'] = st['N'] = st['Es'] = v
                st['roles'] = ['P', 'N', 'Es']
            elif sk == 'py' and r == 2:
                st['P'] = st['N'] = float(rng.choice([0.5, 3.0, logu(rng, -1, 1)]))
                st['roles'] = ['P', 'N']
            elif sk == 'py' and r == 3 and bk != 'list':
                j = rng.below(len(g))
                st['P'], st['view_of'], st['roles'] = float(g[j]), j, ['P=gain-view']
            steps.append(st)
        out.append({'steps': steps, 'buffer': bk, 'scalars': sk})
    return out


R16_FIXED = [
    # A, a permutation of A (same sum, same first and last element), A again: same P, N, Es throughout
    {'buffer': 'ndarray', 'scalars': 'py', 'steps': [
        {'g': [1.0, 0.5, 0.25, 0.1], 'P': 1.0, 'N': 0.5, 'Es': 2.0, 'mode': 'new', 'scribble': False},
        {'g': [1.0, 0.25, 0.5, 0.1], 'P': 1.0, 'N': 0.5, 'Es': 2.0, 'mode': 'perm', 'scribble': False},
        {'g': [1.0, 0.5, 0.25, 0.1], 'P': 1.0, 'N': 0.5, 'Es': 2.0, 'mode': 'back', 'scribble': False},
        {'g': [0.1, 0.5, 0.25, 1.0], 'P': 1.0, 'N': 0.5, 'Es': 2.0, 'mode': 'perm', 'scribble': True}]},
    {'buffer': 'ndarray', 'scalars': 'py', 'steps': [
        {'g': [3.0, 2.0, 1.0], 'P': 1.0, 'N': 1.0, 'Es': 1.0, 'mode': 'new', 'scribble': False},
        {'g': [3.0, 2.0, 1.000001], 'P': 1.0, 'N': 1.0, 'Es': 1.0, 'mode': 'one', 'scribble': False},
        {'g': [0.5, 2.0, 1.000001], 'P': 1.0, 'N': 1.0, 'Es': 1.0, 'mode': 'one', 'scribble': True}]},
    {'buffer': 'view', 'scalars': '0d-reused', 'steps': [
        {'g': [4.0, 2.0, 1.0, 0.5, 0.25], 'P': 0.5, 'N': 1.0, 'Es': 1.0, 'mode': 'new', 'scribble': True},
        {'g': [0.25, 0.5], 'P': 0.5, 'N': 1.0, 'Es': 1.0, 'mode': 'resize', 'scribble': True},
        {'g': [4.0, 2.0, 1.0, 0.5, 0.25], 'P': 8.0, 'N': 0.25, 'Es': 1.0, 'mode': 'resize', 'scribble': True}]},
    {'buffer': 'ndarray', 'scalars': 'py', 'steps': [
        {'g': [2.0, 1.0, 0.5], 'P': 2.0, 'N': 2.0, 'Es': 2.0, 'mode': 'new', 'roles': ['P', 'N', 'Es'], 'scribble': True},
        {'g': [2.0, 1.0, 0.5], 'P': 0.5, 'N': 3.0, 'Es': 3.0, 'mode': 'same', 'roles': ['N', 'Es'], 'scribble': True},
        {'g': [2.0, 1.0, 0.5], 'P': 0.75, 'N': 0.75, 'Es': 1.0, 'mode': 'same', 'roles': ['P', 'N'], 'scribble': True},
        {'g': [2.0, 0.75, 0.5], 'P': 0.75, 'N': 1.0, 'Es': 1.0, 'mode': 'one', 'roles': ['P=gain-view'], 'view_of': 1,
         'scribble': True}]},
    {'buffer': 'list', 'scalars': 'py', 'steps': [
        {'g': [1.0, 2.0, 3.0], 'P': 0.25, 'N': 1.0, 'Es': 1.0, 'mode': 'new', 'scribble': True},
        {'g': [3.0, 2.0, 1.0], 'P': 0.25, 'N': 1.0, 'Es': 1.0, 'mode': 'perm', 'scribble': True}]},
    {'buffer': 'int-array', 'scalars': 'py', 'steps': [
        {'g': [4.0, 2.0, 1.0], 'P': 1.0, 'N': 1.0, 'Es': 1.0, 'mode': 'new', 'scribble': False},
        {'g': [4.0, 1.0, 2.0], 'P': 1.0, 'N': 1.0, 'Es': 1.0, 'mode': 'perm', 'scribble': False},
        {'g': [7.0, 1.0, 2.0], 'P': 1.0, 'N': 1.0, 'Es': 1.0, 'mode': 'one', 'scribble': True}]},
]


def r16_streams(ctx, hists):
    """oracle on every history; the results obtained INSIDE the history are compared with the model's
    history function (`runOpsRat`, driver line `hist`) on the same fills and calls"""
    lines, recs = [], []
    for h in hists:
        ctx.count(('doWF.reuse', json.dumps(h, sort_keys=True)), True)
        records = []
        try:
            r = play_reuse(h, records)
        except core.Infra:
            raise
        except Exception as e:
            r = ('exception:' + type(e).__name__, repr(e)[:300])
        if r is not None:
            ctx.fail('doWF.reuse', r[0], h, r[1])
            ctx.branch('oracle-fail:doWF.reuse')
        else:
            ctx.branch('oracle-ok:doWF.reuse')
        ctx.branch('R16:buffer:' + h['buffer'])
        ctx.branch('R16:scalars:' + h['scalars'])
        for st in h['steps']:
            ctx.branch('R16:refill:' + st['mode'])
            if st.get('roles'):
                ctx.branch('R16:same-object-in-two-roles')
            if st.get('scribble', True):
                ctx.branch('R16:argument-overwritten-after-the-call')
        if records:
            lines.append('hist ' + ' '.join('fill=%s call=%s;%s;%s' % (','.join(rs(x) for x in c['g']), rs(c['P']),
                                                                    rs(c['N']), rs(c['Es'])) for c, _ in records))
            recs.append(records)
    try:
        out = core.Driver(DRIVER).ask(lines)
    except core.Infra as e:
        if not ctx.broken:
            raise
        ctx.notes.append('R16 correspondence skipped: %s' % e)
        ctx.required_branches = []
        return
    for records, rep in zip(recs, out):
        parts = rep.split(' | ')
        if len(parts) != len(records):
            ctx.corr('doWF.history', [c for c, _ in records], '%d calls' % len(records), rep[:200])
            continue
        for t, ((c, got), part) in enumerate(zip(records, parts)):
            compare_one(ctx, c, parse_reply(part), impl=got, tag='R16:call-%d-of-history' % (t + 1))
            ctx.branch('corr:R16:call-on-refilled-buffer')


# ------------------------------------------------------------------ check
def grid_cases():
    """thorough tier: every gain vector over {1/2,1,2,3} of length 1..4 x a grid of P, N, Es"""
    import itertools
    out = []
    for n in range(1, 5):
        for g in itertools.product([0.5, 1.0, 2.0, 3.0], repeat=n):
            for P in (0.125, 0.5, 1.0, 3.0, 10.0):
                for N in (0.5, 1.0):
                    for Es in (0.5, 1.0, 2.0):
                        out.append({'g': list(g), 'P': P, 'N': N, 'Es': Es, 'style': 'dyadic'})
    return out


def make_cases(ctx, n_rand, n_dyadic, nmax, n_big=0, grid=False):
    cases = [dict(c) for c in BOUNDARY] + [dict(c) for c in corpus_cases()]
    cases += [gen_case(ctx.rng, nmax) for _ in range(n_rand)]
    cases += [gen_case(ctx.rng, 256, nmin=129) for _ in range(n_big)]
    cases += [gen_dyadic(ctx.rng) for _ in range(n_dyadic)]
    if grid:
        cases += grid_cases()
    return cases


def oracles(ctx, cases):
    for i, case in enumerate(cases):
        cc = clean(case)
        n = len(cc['g'])
        v = cc.get('variant') or {}
        if v.get('shape') or (v.get('container') and not v.get('elems')):
            continue
        run_oracle(ctx, 'doWF', cc, nontrivial=n >= 2)
        co = dict(cc)
        co['oseed'] = ctx.rng.below(1 << 30)
        run_oracle(ctx, 'doWF.optimal', co, nontrivial=n >= 2)
        cp = dict(cc)
        sigma = list(range(n))
        ctx.rng.shuffle(sigma)
        cp['perm'] = sigma
        run_oracle(ctx, 'doWF.permute', cp, nontrivial=n >= 2 and sigma != list(range(n)))


def check(ctx):
    ctx.rule = ('gain vectors of length 1..64 (quick) / 1..256 (thorough; vectors longer than 12 use 16/8-bit mantissas): log-uniform over 1/3/6/12 decades and (<= 8 channels) 16..36 decades with the weakest channel in use, '
                'narrow (1e-3 spread), all equal, few distinct values (ties), tiny gains, small integers; '
                'N, Es in 1e-2..1e2 (Es=1 and Es!=1); P placed between the thresholds of a target number of used '
                'channels, at multiples of a threshold, or log-uniform; plus a dyadic stream (powers of two) '
                'compared bit-exactly, boundary cases and corpus/c12; thorough adds every vector over {1/2,1,2,3} of length <= 4 on a P/N/Es grid. Inputs are binary64 values sent to the model '
                'as exact rationals. Robustness streams: R1 element types/containers, R2 layouts/shapes, R5 boundary '
                'sizes and values, R6 inputs scaled by 1e-12..1e12 (all through correspondence and the standard '
                'oracles), plus the R1-R4/R6/R7 twin, immutability, rejected-call, rescaling and shared-array oracles; R8 call forms '
                '(keyword / mixed / defaults), R10 mixed-type element collections, R13 derived/overwritten arrays, R14 '
                '257..4097 channels against the model and 65537 channels against the oracles; R15 histories of '
                'close-but-distinct arguments (17 fixed + 150 / 3000 random, 5 kinds x parameter) against the exact '
                'rational solution; R16 histories on one refilled argument buffer (6 fixed + 120 / 2400 random). '
                'non-trivial = distinct input with >= 2 channels')
    quick = ctx.tier == 'quick'
    n_rand, n_dyadic, nmax, n_big = (3000, 1000, 64, 0) if quick else (20000, 10000, 128, 600)
    core.prove(ctx, MODULE, generated=['C12WaterFilling'], drivers=[DRIVER], scratch=ctx.scratch)
    ctx.required_branches = ['dropped=0', 'dropped>=1', 'only-best-kept', 'Es!=1', 'ties', 'n=1', 'n>=32',
                             'gain-spread>=1e9', 'gain-spread>=1e16', 'exact-dyadic', 'error-case']
    cases = make_cases(ctx, n_rand, n_dyadic, nmax, n_big, grid=not quick)
    # robustness classes: R5/R6 streams and the R1/R2 input variants also go through the
    # correspondence (model on the logical values) and the standard first-principles oracles
    r1 = gen_r1(ctx.rng, 240 if quick else 2400)
    r2 = gen_r2(ctx.rng, 240 if quick else 2400)
    cases += gen_r5(ctx.rng) + gen_r6(ctx.rng, 300 if quick else 3000)
    cases += [c for c in r1 + r2 if not c['variant'].get('shape') and not c['variant'].get('container')]
    ctx.required_branches += [
        'R1:int-array', 'R1:narrow-int-array', 'R1:float32-array', 'R1:scalars', 'R1:Es*g-exceeds-int-range', 'R1:list/tuple',
        'R2:strided', 'R2:reversed', 'R2:column', 'R2:fcolumn', 'R2:readonly', 'R2:broadcast',
        'R2:col2d', 'R2:row2d', 'R2:3d', 'R2:0d', 'R3:immutability'] + ['R4:' + r for r in REJECTS] + [
        'R5:boundary', 'R5:P=0', 'R6:scaled-input', 'R6:power-noise', 'R6:gain-noise', 'R6:gain-Es', 'R7:history']
    # second robustness round: R8 argument forms, R10 heterogeneous collections, R14 counts
    r8 = gen_r8(ctx.rng, 120 if quick else 1200)
    r10 = gen_r10(ctx.rng, 90 if quick else 900)
    cases += [c for c in r8 if c['variant'].get('scalars') != 'len1'] + r10
    cases += gen_r14(ctx.rng, (257, 258, 300, 4097) if quick else (257, 258, 259, 300, 511, 513, 1025, 4097, 16385))
    r14_big = gen_r14(ctx.rng, (65537,) if quick else (65537, 65536, 100003))
    ctx.required_branches += ['R8:' + f for f in CALL_FORMS if f != 'positional'] + [
        'R8:len1-scalars', 'R10:list', 'R10:tuple', 'R10:object-array', 'R13:derived',
        'R14:n=257', 'R14:n=258', 'R14:n=300', 'R14:n=4097', 'R14:n=65537(oracles only)']
    # third robustness round: R15 distinct values that are merely close, R16 argument identity / buffer reuse
    r15 = [json.loads(json.dumps(h)) for h in R15_FIXED] + gen_r15(ctx.rng, 150 if quick else 3000)
    r16 = [json.loads(json.dumps(h)) for h in R16_FIXED] + gen_r16(ctx.rng, 120 if quick else 2400)
    cases += r15_cases(r15)
    ctx.required_branches += ['R15:' + k for k in ('tiny', 'rel', 'threshold', 'ulp', 'dec13')] + [
        'corr:R15:' + k for k in ('tiny', 'rel', 'threshold', 'ulp', 'dec13')] + [
        'R15:tiny:N', 'R15:tiny:g-within', 'R15:rel:g-within', 'R15:rel:P', 'R15:ulp:P', 'R15:dec13:P',
        'R15:bit-exact-comparison', 'R15:1e-12-comparison'] + [
        'R16:buffer:' + b for b in ('ndarray', 'view', 'list', 'int-array')] + [
        'R16:scalars:py', 'R16:scalars:0d-reused'] + ['R16:refill:' + m for m in R16_MODES] + [
        'R16:same-object-in-two-roles', 'R16:argument-overwritten-after-the-call',
        'corr:R16:call-on-refilled-buffer']
    try:
        correspondence(ctx, cases)
        malformed(ctx)
    except core.Infra as e:
        if not ctx.broken:
            raise
        ctx.notes.append('correspondence skipped: %s' % e)
        ctx.required_branches = []
    oracles(ctx, cases)
    robustness_oracles(ctx, r1, r2, 150 if quick else 1500)
    robustness2_oracles(ctx, r8, r10, r14_big, 90 if quick else 900)
    r15_oracles(ctx, r15)
    r16_streams(ctx, r16)
    if not quick:
        ctx.branch('grid-enumeration', len(grid_cases()))


def search(ctx):
    """deeper failing-input search, used when a proof / correspondence broke"""
    cases = [dict(c) for c in BOUNDARY]
    for _ in range(4000):
        c = gen_case(ctx.rng, 12)
        if ctx.rng.chance(0.5):
            c['Es'] = ctx.rng.choice([2.0, 0.5, 4.0, logu(ctx.rng, -2, 2)])
        cases.append(c)
    cases += [gen_dyadic(ctx.rng, 6) for _ in range(1000)]
    oracles(ctx, cases)
    r15_oracles(ctx, [json.loads(json.dumps(h)) for h in R15_FIXED] + gen_r15(ctx.rng, 600))
    for h in [json.loads(json.dumps(h)) for h in R16_FIXED] + gen_r16(ctx.rng, 400):
        run_oracle(ctx, 'doWF.reuse', h)
