"""C12 — water-filling returns the capacity-optimal power allocation (DESIGN.md §5 C12).

Tie to source: `lean/PyPhysim/Model/C12.lean` is a hand model of
`pyphysim/comm/waterfilling.py:doWF`; it is run at exact rationals by the
compiled driver `drv_c12` on the *same* binary64 inputs (sent as exact `p/q`)
and compared with the real code's output at rtol 1e-9 (allocation, level) and
exactly (number of channels switched off, margin filtered; whole output on the
dyadic stream where binary64 arithmetic is exact).  `np.argsort` is an external
kernel: its contract (a permutation, gains non-decreasing) is checked on every
case; the theorems hold for every sort result satisfying it.

Oracles (first principles, on the real code, never through the model):
non-negativity, total power, `p_i = max(0, mu - N/(Es g_i))` for the returned
`mu`, KKT conditions, capacity against competitors (independent bisection
solution, uniform / best-channel / perturbed / projected-gradient allocations),
permutation equivariance.
"""
import json
import math
import os
from fractions import Fraction

import numpy as np

from harness import core

MODULE = 'PyPhysim.Properties.C12'
DRIVER = 'drv_c12'
RTOL = 1e-9

CLAIM = {
    'technique': 'Lean 4 proof about an executable model + exact-rational differential correspondence',
    'text': 'Proved in Lean (16 theorems, any vector length, arbitrary linear ordered field; optimality over R): '
            'for every non-empty vector of positive gains, P > 0, N > 0, Es > 0 and EVERY argsort result '
            'satisfying the sort contract (any tie order), the model of doWF returns a value; the allocation has '
            'one entry per channel, is non-negative, sums to P, equals max(0, mu - N/(Es g_i)) for the returned '
            'mu (channel i is switched off iff N/(Es g_i) >= mu); no non-negative allocation with the same total '
            'has a larger sum log2(1 + g_i Es q_i / N); (p, mu) is the unique pair of that form; the result does '
            'not depend on the tie order of the sort and is equivariant under every permutation of the channels. '
            'The function run by the compiled driver is proved to be the Q instance of that model, and is compared '
            'with waterfilling.py on the same binary64 inputs (model in exact rational arithmetic). '
            'Independent oracles on the real code (form, sum, sign, KKT, competitors, permutation) find the '
            'replay input when the tie breaks.',
    'note': 'Trusted additions: np.argsort is a parameter with a contract (permutation, non-decreasing gains), '
            'checked on every case; binary64 rounding is outside the theorems (allocation and level compared at '
            '1e-9 relative to max(1, P, mu); bit-exact on the dyadic stream; the discrete number of switched-off '
            'channels compared only when every loop test is >= 1e-9 away from equality, since the allocation is '
            'continuous across such ties). Hand model (no translator): a behaviour the generators do not reach is '
            'not tied. Finding fixed in the worktree: returned level omitted Es (commit 2825de0).',
}


def _impl():
    from pyphysim.comm import waterfilling
    return waterfilling


# ------------------------------------------------------------------ helpers
def frac(x):
    return Fraction(x)


def rs(x):
    f = Fraction(x)
    return '%d/%d' % (f.numerator, f.denominator)


def line_of(case):
    return 'wf gains=%s P=%s N=%s Es=%s' % (','.join(rs(x) for x in case['g']), rs(case['P']),
                                            rs(case['N']), rs(case['Es']))


def parse_reply(s):
    if s.startswith('error:') or s == 'bad-op':
        return {'error': s}
    d = dict(tok.split('=', 1) for tok in s.split(' '))
    return {'p': [Fraction(t) for t in d['p'].split(',')] if d['p'] else [],
            'mu': Fraction(d['mu']), 'kept': int(d['kept']), 'margin': Fraction(d['margin'])}


def run_impl(case):
    wf = _impl()
    g = np.array(case['g'], dtype=float)
    with np.errstate(all='ignore'):
        p, mu = wf.doWF(g, float(case['P']), float(case['N']), float(case['Es']))
    return np.asarray(p, dtype=float), float(mu)


def scale_of(case, mu=None):
    a_best = case['N'] / (case['Es'] * max(case['g']))
    s = max(1.0, abs(case['P']), abs(a_best))
    if mu is not None and math.isfinite(mu):
        s = max(s, abs(mu))
    return s


def has_ties(case):
    return len(set(case['g'])) < len(case['g'])


def capacity(case, q):
    g = np.array(case['g'], dtype=float)
    return float(np.sum(np.log2(1.0 + g * case['Es'] * np.asarray(q, dtype=float) / case['N'])))


def bisect_wf(case):
    """independent solution: the level where sum max(0, mu - a_i) = P, by bisection"""
    a = np.array([case['N'] / (case['Es'] * x) for x in case['g']])
    lo, hi = float(a.min()), float(a.min()) + float(case['P'])
    for _ in range(200):
        mid = 0.5 * (lo + hi)
        if np.maximum(0.0, mid - a).sum() > case['P']:
            hi = mid
        else:
            lo = mid
    mu = 0.5 * (lo + hi)
    return np.maximum(0.0, mu - a), mu


def project_simplex(v, total):
    """Euclidean projection onto {q >= 0, sum q = total}"""
    u = np.sort(v)[::-1]
    css = np.cumsum(u) - total
    ks = np.arange(1, len(v) + 1)
    cond = u - css / ks > 0
    if not cond.any():
        return None
    k = ks[cond][-1]
    tau = css[cond][-1] / k
    return np.maximum(v - tau, 0.0)


# ------------------------------------------------------------------ oracles
def o_alloc(case):
    """non-negative, sums to P, water-filling form for the returned level"""
    p, mu = run_impl(case)
    n = len(case['g'])
    es_cls = 'Es==1' if case['Es'] == 1.0 else 'Es!=1'
    if p.shape != (n,) or not np.all(np.isfinite(p)) or not math.isfinite(mu):
        return 'shape-or-nonfinite', 'p=%r mu=%r' % (p.tolist(), mu)
    s = scale_of(case, mu)
    tol = RTOL * s
    if p.min() < -tol:
        return 'negative-power', 'min p = %r' % float(p.min())
    if abs(float(p.sum()) - case['P']) > tol * max(1, n):
        return 'sum-not-total', 'sum p = %r, P = %r' % (float(p.sum()), case['P'])
    a = np.array([case['N'] / (case['Es'] * x) for x in case['g']])
    form = np.maximum(0.0, mu - a)
    i = int(np.argmax(np.abs(form - p)))
    if abs(form[i] - p[i]) > tol:
        return ('water-level-form:' + es_cls,
                'channel %d: p=%r but max(0, mu - N/(Es g)) = %r (mu=%r)' % (i, float(p[i]), float(form[i]), mu))
    return None


def o_optimal(case):
    """KKT conditions (without the returned level) and capacity against competitors"""
    p, _ = run_impl(case)
    n = len(case['g'])
    if p.shape != (n,) or not np.all(np.isfinite(p)):
        return 'shape-or-nonfinite', 'p=%r' % (p.tolist(),)
    a = np.array([case['N'] / (case['Es'] * x) for x in case['g']])
    s = scale_of(case)
    pb, mub = bisect_wf(case)
    s = max(s, mub)
    tol = RTOL * s
    act = p > 0
    if not act.any():
        return 'not-optimal:kkt', 'no channel gets power'
    lev = (a + p)[act]
    if lev.max() - lev.min() > 2 * tol:
        return 'not-optimal:kkt', 'active levels differ: %r .. %r' % (float(lev.min()), float(lev.max()))
    if (~act).any() and (a[~act] + p[~act]).min() < lev.min() - 2 * tol:
        j = int(np.argmin(np.where(act, np.inf, a + p)))
        return 'not-optimal:kkt', 'switched-off channel %d has level %r below the water level %r' % (
            j, float(a[j]), float(lev.min()))
    cp = capacity(case, np.maximum(p, 0.0))
    slack = 1e-12 * max(1.0, abs(cp)) * max(1, n)
    rng = core.Rng(int(case.get('oseed', 0)), 'c12-competitors')
    comps = [('bisection', pb), ('uniform', np.full(n, case['P'] / n))]
    best = np.zeros(n)
    best[int(np.argmax(case['g']))] = case['P']
    comps.append(('best-only', best))
    for t in range(8):           # move power between two channels
        i, j = rng.below(n), rng.below(n)
        q = np.maximum(p, 0.0).copy()
        d = q[i] * rng.uniform(0.0, 1.0) if q[i] > 0 else 0.0
        q[i] -= d
        q[j] += d
        comps.append(('shift%d' % t, q))
    q = np.maximum(p, 0.0) * (case['P'] / max(float(np.maximum(p, 0.0).sum()), 1e-300))
    for t in range(20):          # projected gradient ascent from the returned point
        grad = 1.0 / (a + q)
        step = 0.5 * float(np.min(a + q)) ** 2
        q = project_simplex(q + step * grad, case['P'])
        if q is None:
            break
        comps.append(('pg%d' % t, q.copy()))
    for name, q in comps:
        if abs(q.sum() - case['P']) > 1e-9 * max(1.0, case['P']) or q.min() < 0:
            continue
        cq = capacity(case, q)
        if cq > cp + slack and cq > cp * (1 + 1e-9) + 1e-9:
            return 'not-optimal:competitor', '%s allocation reaches %r > %r' % (name, cq, cp)
    # the independent solution must be the same point
    if np.max(np.abs(pb - p)) > 10 * tol:
        return 'not-optimal:differs-from-bisection', 'max |p - p*| = %r' % float(np.max(np.abs(pb - p)))
    return None


def o_perm(case):
    """permuting the channels permutes the allocation identically"""
    p, mu = run_impl(case)
    sigma = list(case['perm'])
    c2 = dict(case)
    c2['g'] = [case['g'][i] for i in sigma]
    p2, mu2 = run_impl(c2)
    tol = RTOL * scale_of(case, mu)
    cls = 'perm:ties' if has_ties(case) else 'perm:distinct'
    if p2.shape != p.shape:
        return cls, 'shape %r vs %r' % (p2.shape, p.shape)
    d = float(np.max(np.abs(p2 - p[sigma])))
    if not (d <= tol) or not (abs(mu2 - mu) <= tol):
        return cls, 'max |p(g∘σ) - p(g)∘σ| = %r, mu %r vs %r' % (d, mu2, mu)
    return None


ORACLES = {'doWF': o_alloc, 'doWF.optimal': o_optimal, 'doWF.permute': o_perm}


def run_oracle(ctx, call, case, nontrivial=True):
    ctx.count((call, json.dumps(case, sort_keys=True)), nontrivial)
    try:
        r = ORACLES[call](case)
    except Exception as e:   # an exception where the property promises a value
        r = ('exception:' + type(e).__name__, repr(e)[:300])
    if r is not None:
        ctx.fail(call, r[0], case, r[1])
        ctx.branch('oracle-fail:' + call)
    else:
        ctx.branch('oracle-ok:' + call)
    return r


def replay(ctx, rep):
    try:
        return ORACLES[rep['call']](rep['case']) is not None
    except Exception:
        return True


# ------------------------------------------------------------------ generators
def logu(rng, lo, hi):
    return 10.0 ** rng.uniform(lo, hi)


def threshold_P(g, N, Es, k):
    """(float) power at which exactly the k best channels are in use: k*a_(k-1) - A_k"""
    a = sorted(N / (Es * x) for x in g)
    return k * a[k - 1] - sum(a[:k])


def quantize(x, bits):
    """binary64 value with a `bits`-bit mantissa (keeps the exact-rational model cheap for long
    vectors: the common denominator of the levels N/(Es g) stays bounded)"""
    m, e = math.frexp(x)
    return math.ldexp(round(m * (1 << bits)) / float(1 << bits), e)


def gen_case(rng, nmax, nmin=1):
    style = rng.choice(['decades', 'decades', 'narrow', 'equal', 'ties', 'tiny', 'ints'])
    if nmin > 1:
        n = rng.randint(nmin, nmax)
    else:
        n = rng.choice([1, 1, 2, 2, 3, 3, 4, 5, 6, 8]) if rng.chance(0.5) else rng.randint(1, nmax)
    if style == 'decades':
        span = rng.choice([1.0, 3.0, 6.0, 12.0])
        c = rng.uniform(-3, 3)
        g = [logu(rng, c - span / 2, c + span / 2) for _ in range(n)]
    elif style == 'narrow':
        c = logu(rng, -2, 2)
        g = [c * (1 + 1e-3 * rng.uniform(-1, 1)) for _ in range(n)]
    elif style == 'equal':
        g = [logu(rng, -3, 3)] * n
    elif style == 'ties':
        vals = [logu(rng, -2, 2) for _ in range(rng.randint(1, 3))]
        g = [rng.choice(vals) for _ in range(n)]
    elif style == 'tiny':
        g = [logu(rng, -9, -5) for _ in range(n)]
    else:
        g = [float(rng.randint(1, 9)) for _ in range(n)]
    if n > 12:
        bits = 16 if n <= 32 else 8
        g = [quantize(x, bits) for x in g]
    N = rng.choice([1.0, 1.0, logu(rng, -2, 2), 0.5])
    Es = rng.choice([1.0, logu(rng, -2, 2), 2.0, 0.25, logu(rng, -1, 1)])
    # choose P around the threshold of a target number of used channels, so that
    # every number of dropped channels is produced
    k = rng.randint(1, n)
    t = threshold_P(g, N, Es, k)
    t_next = threshold_P(g, N, Es, k + 1) if k < n else None
    mode = rng.below(4)
    if mode == 0 and t_next is not None and t_next > t:
        P = t + (t_next - t) * rng.uniform(0.02, 0.98)
    elif mode == 1 and t > 0:
        P = t * logu(rng, 0.01, 2)
    elif mode == 2:
        P = logu(rng, -3, 3)
    else:
        a_best = N / (Es * max(g))
        P = a_best * logu(rng, -2, 2)
    if not (P > 0) or not math.isfinite(P):
        P = 1.0
    return {'g': g, 'P': float(P), 'N': float(N), 'Es': float(Es), 'style': style}


def gen_dyadic(rng, nmax=16):
    """powers of two everywhere: binary64 evaluation of doWF is exact when the
    model's result is dyadic (checked on the model's output)"""
    n = rng.randint(1, nmax)
    g = [2.0 ** rng.randint(-6, 6) for _ in range(n)]
    if rng.chance(0.3):
        g = [rng.choice(g[:2]) for _ in range(n)]
    N = 2.0 ** rng.randint(-3, 3)
    Es = 2.0 ** rng.randint(-3, 3)
    a = sorted(Fraction(N) / (Fraction(Es) * Fraction(x)) for x in g)
    k = rng.randint(1, n)
    t = k * a[k - 1] - sum(a[:k])
    P = t + k * Fraction(rng.randint(1, 64), 16)
    if P <= 0 or P > 2 ** 20:
        P = Fraction(rng.randint(1, 4096), 16)
    return {'g': g, 'P': float(P), 'N': N, 'Es': Es, 'style': 'dyadic'}


BOUNDARY = [
    {'g': [1.0, 0.5, 0.1], 'P': 1.0, 'N': 0.5, 'Es': 2.0},       # DESIGN §6 (8): level without Es
    {'g': [1.0, 0.5, 0.1], 'P': 1.0, 'N': 0.5, 'Es': 1.0},
    {'g': [3.0], 'P': 2.0, 'N': 1.0, 'Es': 1.0},
    {'g': [3.0], 'P': 1e-9, 'N': 4.0, 'Es': 0.125},
    {'g': [2.0, 2.0, 2.0, 2.0], 'P': 1.0, 'N': 1.0, 'Es': 1.0},
    {'g': [2.0, 2.0, 0.5, 0.5, 0.5], 'P': 0.25, 'N': 1.0, 'Es': 4.0},
    {'g': [1e6, 1.0, 1e-6], 'P': 1.0, 'N': 1.0, 'Es': 1.0},
    {'g': [1e6, 1.0, 1e-6], 'P': 1e7, 'N': 1.0, 'Es': 3.0},
    {'g': [1e-6, 1e6, 1.0, 1e-6, 1e6], 'P': 0.5, 'N': 2.0, 'Es': 0.5},
    {'g': [4.0, 2.0, 1.0], 'P': 0.25, 'N': 1.0, 'Es': 1.0},      # P exactly at the 2-channel threshold
    {'g': [4.0, 2.0, 1.0], 'P': 1.25, 'N': 1.0, 'Es': 1.0},      # P exactly at the 3-channel threshold
    {'g': [1.0, 2.0, 4.0, 8.0], 'P': 100.0, 'N': 1.0, 'Es': 0.5},
    {'g': [0.3, 0.2, 0.1], 'P': 1e-6, 'N': 1.0, 'Es': 1.0},
]


def corpus_cases():
    d = os.path.join(core.VERIF, 'corpus', 'c12')
    out = []
    if os.path.isdir(d):
        for fn in sorted(os.listdir(d)):
            if fn.endswith('.json'):
                with open(os.path.join(d, fn)) as f:
                    obj = json.load(f)
                out += obj if isinstance(obj, list) else [obj]
    return out


def clean(case):
    return {k: case[k] for k in ('g', 'P', 'N', 'Es')}


# ------------------------------------------------------------------ correspondence
def correspondence(ctx, cases):
    drv = core.Driver(DRIVER)
    B = 2000
    for s in range(0, len(cases), B):
        chunk = cases[s:s + B]
        out = drv.ask([line_of(c) for c in chunk])
        for case, rep in zip(chunk, out):
            compare_one(ctx, case, parse_reply(rep))


def compare_one(ctx, case, m):
    cc = clean(case)
    key = json.dumps(cc, sort_keys=True)
    n = len(cc['g'])
    # contract of the external kernel np.argsort
    g = np.array(cc['g'], dtype=float)
    ix = np.argsort(g)
    ok = sorted(ix.tolist()) == list(range(n)) and bool(np.all(np.diff(g[ix]) >= 0))
    ctx.corr('np.argsort.contract', cc, 'permutation,nondecreasing' if ok else 'violated:%r' % ix.tolist(),
             'permutation,nondecreasing', nontrivial=False, key=('sortc', key))
    try:
        p, mu = run_impl(cc)
        impl_err = None
    except Exception as e:
        impl_err = 'error:' + type(e).__name__
    if 'error' in m or impl_err:
        ctx.corr('doWF', cc, impl_err or 'value', m.get('error', 'value'), key=('wf', key))
        ctx.branch('error-case')
        return
    s = scale_of(cc, float(m['mu']))
    tol = RTOL * s
    mp = np.array([float(x) for x in m['p']])
    # binary64 evaluation is exact when gains, N, Es are powers of two (all levels dyadic) and
    # the model's result is a short dyadic (then so is every intermediate of the code)
    dyadic_exact = case.get('style') == 'dyadic' and all(
        math.frexp(x)[0] == 0.5 for x in cc['g'] + [cc['N'], cc['Es']]) and all(
        (x.denominator & (x.denominator - 1)) == 0 and x.denominator <= 2 ** 30 and x.numerator < 2 ** 45
        for x in m['p'] + [m['mu']])
    dropped = n - m['kept']
    nontrivial = n >= 2
    if dyadic_exact:
        ip = [Fraction(float(x)) for x in p]
        same = len(ip) == len(m['p']) and all(a == b for a, b in zip(ip, m['p'])) and Fraction(mu) == m['mu']
        ctx.corr('doWF.exact', cc, 'identical' if same else 'p=%r mu=%r' % (p.tolist(), mu),
                 'identical' if same else 'p=%s mu=%s' % ([str(x) for x in m['p']], m['mu']),
                 nontrivial=nontrivial, key=('wfx', key))
        ctx.branch('exact-dyadic')
    else:
        okp = p.shape == mp.shape and bool(np.all(np.abs(p - mp) <= tol))
        ctx.corr('doWF.alloc', cc, 'agree' if okp else 'p=%r' % (p.tolist(),),
                 'agree' if okp else 'p=%r' % (mp.tolist(),), nontrivial=nontrivial, key=('wfp', key))
        okm = abs(mu - float(m['mu'])) <= tol
        ctx.corr('doWF.mu', cc, 'agree' if okm else 'mu=%r' % mu, 'agree' if okm else 'mu=%r' % float(m['mu']),
                 nontrivial=nontrivial, key=('wfm', key))
    if m['margin'] >= Fraction(1, 10 ** 9):
        ik = int(np.count_nonzero(p))
        ctx.corr('doWF.kept', cc, str(ik), str(m['kept']), nontrivial=nontrivial, key=('wfk', key))
    else:
        ctx.branch('near-tie(kept count not compared)')
    ctx.branch('dropped=0' if dropped == 0 else 'dropped>=1')
    if dropped >= n - 1 and n >= 3:
        ctx.branch('only-best-kept')
    if cc['Es'] != 1.0:
        ctx.branch('Es!=1')
    if has_ties(cc):
        ctx.branch('ties')
    if n == 1:
        ctx.branch('n=1')
    if n >= 32:
        ctx.branch('n>=32')
    if max(cc['g']) / min(cc['g']) >= 1e9:
        ctx.branch('gain-spread>=1e9')
    ctx.sample({'call': 'doWF', 'case': cc, 'impl': {'p': p.tolist(), 'mu': mu},
                'model': {'p': [str(x) for x in m['p']], 'mu': str(m['mu']), 'kept': m['kept']}})


def malformed(ctx):
    """outside the quantifier, recorded so that the model's error branches are tied too"""
    drv = core.Driver(DRIVER)
    cases = [{'g': [], 'P': 1.0, 'N': 1.0, 'Es': 1.0},
             {'g': [3.0], 'P': -1.0, 'N': 1.0, 'Es': 1.0},
             {'g': [3.0, 1.0, 2.0], 'P': -0.5, 'N': 1.0, 'Es': 2.0}]
    out = drv.ask([line_of(c) for c in cases])
    for c, rep in zip(cases, out):
        compare_one(ctx, c, parse_reply(rep))


# ------------------------------------------------------------------ check
def grid_cases():
    """thorough tier: every gain vector over {1/2,1,2,3} of length 1..4 x a grid of P, N, Es"""
    import itertools
    out = []
    for n in range(1, 5):
        for g in itertools.product([0.5, 1.0, 2.0, 3.0], repeat=n):
            for P in (0.125, 0.5, 1.0, 3.0, 10.0):
                for N in (0.5, 1.0):
                    for Es in (0.5, 1.0, 2.0):
                        out.append({'g': list(g), 'P': P, 'N': N, 'Es': Es, 'style': 'dyadic'})
    return out


def make_cases(ctx, n_rand, n_dyadic, nmax, n_big=0, grid=False):
    cases = [dict(c) for c in BOUNDARY] + [dict(c) for c in corpus_cases()]
    cases += [gen_case(ctx.rng, nmax) for _ in range(n_rand)]
    cases += [gen_case(ctx.rng, 256, nmin=129) for _ in range(n_big)]
    cases += [gen_dyadic(ctx.rng) for _ in range(n_dyadic)]
    if grid:
        cases += grid_cases()
    return cases


def oracles(ctx, cases):
    for i, case in enumerate(cases):
        cc = clean(case)
        n = len(cc['g'])
        run_oracle(ctx, 'doWF', cc, nontrivial=n >= 2)
        co = dict(cc)
        co['oseed'] = ctx.rng.below(1 << 30)
        run_oracle(ctx, 'doWF.optimal', co, nontrivial=n >= 2)
        cp = dict(cc)
        sigma = list(range(n))
        ctx.rng.shuffle(sigma)
        cp['perm'] = sigma
        run_oracle(ctx, 'doWF.permute', cp, nontrivial=n >= 2 and sigma != list(range(n)))


def check(ctx):
    ctx.rule = ('gain vectors of length 1..64 (quick) / 1..256 (thorough; vectors longer than 12 use 16/8-bit mantissas): log-uniform over 1/3/6/12 decades, '
                'narrow (1e-3 spread), all equal, few distinct values (ties), tiny gains, small integers; '
                'N, Es in 1e-2..1e2 (Es=1 and Es!=1); P placed between the thresholds of a target number of used '
                'channels, at multiples of a threshold, or log-uniform; plus a dyadic stream (powers of two) '
                'compared bit-exactly, boundary cases and corpus/c12; thorough adds every vector over {1/2,1,2,3} of length <= 4 on a P/N/Es grid. Inputs are binary64 values sent to the model '
                'as exact rationals. non-trivial = distinct input with >= 2 channels')
    quick = ctx.tier == 'quick'
    n_rand, n_dyadic, nmax, n_big = (3000, 1000, 64, 0) if quick else (20000, 10000, 128, 600)
    core.prove(ctx, MODULE, generated=[], drivers=[DRIVER], scratch=ctx.scratch)
    ctx.required_branches = ['dropped=0', 'dropped>=1', 'only-best-kept', 'Es!=1', 'ties', 'n=1', 'n>=32',
                             'gain-spread>=1e9', 'exact-dyadic', 'error-case']
    cases = make_cases(ctx, n_rand, n_dyadic, nmax, n_big, grid=not quick)
    try:
        correspondence(ctx, cases)
        malformed(ctx)
    except core.Infra as e:
        if not ctx.broken:
            raise
        ctx.notes.append('correspondence skipped: %s' % e)
        ctx.required_branches = []
    oracles(ctx, cases)
    if not quick:
        ctx.branch('grid-enumeration', len(grid_cases()))


def search(ctx):
    """deeper failing-input search, used when a proof / correspondence broke"""
    cases = [dict(c) for c in BOUNDARY]
    for _ in range(4000):
        c = gen_case(ctx.rng, 12)
        if ctx.rng.chance(0.5):
            c['Es'] = ctx.rng.choice([2.0, 0.5, 4.0, logu(ctx.rng, -2, 2)])
        cases.append(c)
    cases += [gen_dyadic(ctx.rng, 6) for _ in range(1000)]
    oracles(ctx, cases)
