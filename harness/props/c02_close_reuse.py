"""C02 — robustness classes R15 and R16 (helper module of harness/props/c02.py).

R15 — distinct values that are merely close.  Wherever the code of C02 compares, de-duplicates, rounds or chooses
a branch on a value (the `num_used_subcarriers == fft_size` branch of the index map, the guards of set_parameters,
the float ceiling of _calc_zeropad, rounding + np.unique of the path delays, the normalisation of the path powers,
the division by the mean frequency response) and wherever a maintainer could add an "unchanged -> skip" / "static ->
fast path" / value-keyed memo, sets of close-but-distinct legitimate values are generated (tiny magnitudes 1e-9 ..
1e-15 which np.isclose calls equal to 0 and to each other, values at 2.4e9 differing by a relative 1e-6, adjacent
doubles, values differing beyond the 12th decimal, integers 2^18 and 2^18 - 2) and EVERY value must give exactly the
result of a fresh first-principles computation for that value, on ONE long-lived object.

R16 — argument identity and buffer reuse.  The caller keeps ONE preallocated array per role and refills it in place
before every call (or hands out views of one big array), passes an equal-content copy instead, modifies the argument
right after the call, passes the same array object in two roles, keeps ONE TdlImpulseResponse object over a buffer
it refills.  The k-th result must equal the first-principles result for the contents at call time (and, bit for bit,
the result of a fresh object on a copy); earlier results must not change.

All comparisons are relative to the magnitude of the data compared (no absolute floor); comparisons that involve the
division by H carry the conditioning max|H| / min|H_used| like the existing `onetap` oracle.
"""
import math

import numpy as np

from harness import core
from harness.props import c02 as B

TOL = 1e-9
SLOW_TOL = 1e-12        # hand-built impulse responses at fft <= 16: numpy and the direct sums agree to ~1e-15


# ------------------------------------------------------------------ first principles
_DFT = {}


def _F(n, sign=-1.0):
    k = (n, sign)
    if k not in _DFT:
        if len(_DFT) > 40:
            _DFT.clear()
        _DFT[k] = B.dft_matrix(n, sign)
    return _DFT[k]


def fp_bins(fft, used):
    """bin of the i-th data symbol of an OFDM symbol: the signed subcarrier numbers in increasing order
    (-h .. -1, 1 .. h; all of -fft/2 .. fft/2 - 1 when every subcarrier is used), as bins of the transform"""
    h = used // 2
    nums = list(range(-(fft // 2), fft // 2)) if used == fft else list(range(-h, 0)) + list(range(1, h + 1))
    return [k % fft for k in nums]


def fp_scale(fft, cp, used):
    return fft / math.sqrt(used + cp)


def fp_modulate(fft, cp, used, x):
    x = np.asarray(x, dtype=complex).ravel()
    nsym = -(-x.size // used)
    xp = np.concatenate([x, np.zeros(nsym * used - x.size, dtype=complex)])
    bins, s = fp_bins(fft, used), fp_scale(fft, cp, used)
    out = []
    for r in range(nsym):
        X = np.zeros(fft, dtype=complex)
        X[bins] = xp[r * used:(r + 1) * used]
        body = s * (_F(fft, +1.0) @ X) / fft
        out.append(np.concatenate([body[fft - cp:], body]) if cp else body)
    return np.concatenate(out) if out else np.zeros(0, dtype=complex)


def fp_demodulate(fft, cp, used, y):
    y = np.asarray(y, dtype=complex).ravel()
    w = fft + cp
    nsym = y.size // w
    bins, s = fp_bins(fft, used), fp_scale(fft, cp, used)
    out = [((_F(fft) @ y[r * w + cp:(r + 1) * w]) / s)[bins] for r in range(nsym)]
    return np.concatenate(out) if out else np.zeros(0, dtype=complex)


def fp_corrupt(idx, vals, x):
    """y[m + d_t] += vals[t, m] * x[m]  (vals: taps x samples)"""
    x = np.asarray(x, dtype=complex)
    vals = np.asarray(vals, dtype=complex)
    y = np.zeros(x.size + int(idx[-1]), dtype=complex)
    for t, d in enumerate(idx):
        for m in range(x.size):
            y[m + int(d)] += vals[t, m] * x[m]
    return y


def fp_mean_response(fft, idx, vals, nsym):
    """per OFDM symbol: mean over its samples of H_j[k] = sum_t vals[t, j] exp(-2 pi i d_t k / fft)"""
    vals = np.asarray(vals, dtype=complex)
    ns = vals.shape[1]
    m = ns // nsym
    d = np.asarray(idx, dtype=int)
    E = np.exp(-2j * np.pi * ((d[:, None] * np.arange(fft)[None, :]) % fft) / fft)        # taps x fft
    H = vals.T @ E                                                                         # samples x fft
    return np.array([H[r * m:(r + 1) * m].sum(axis=0) / m for r in range(nsym)])


def fp_equalize(fft, used, data, idx, vals):
    data = np.asarray(data, dtype=complex).ravel()
    nsym = data.size // used
    Hm = fp_mean_response(fft, idx, vals, nsym)
    bins = fp_bins(fft, used)
    out = np.concatenate([data[r * used:(r + 1) * used] / Hm[r][bins] for r in range(nsym)])
    cond = float(np.max(np.abs(Hm)) / np.min(np.abs(Hm[:, bins])))
    return out, cond


def relerr(a, b):
    """max |a - b| relative to the larger of the two magnitudes; inf on a shape mismatch / non-finite value"""
    a, b = np.asarray(a), np.asarray(b)
    if a.shape != b.shape:
        return float('inf')
    if a.size == 0:
        return 0.0
    if not (np.all(np.isfinite(a)) and np.all(np.isfinite(b))):
        return float('inf')
    ref = max(float(np.max(np.abs(a))), float(np.max(np.abs(b))))
    return 0.0 if ref == 0.0 else float(np.max(np.abs(a - b))) / ref


def same_bits(a, b):
    a, b = np.asarray(a), np.asarray(b)
    return a.shape == b.shape and np.array_equal(a, b, equal_nan=True)


# ------------------------------------------------------------------ families of close values
CLOSE_KINDS = ['tiny-1e-9', 'tiny-1e-12', 'tiny-1e-15', 'relative-1e-6@2.4e9', 'adjacent-doubles', 'decimal-13']


def _gauss_vec(rng, n):
    return np.array([complex(rng.gauss(), rng.gauss()) for _ in range(n)])


def close_family(rng, kind, n, k):
    """k complex vectors of length n, pairwise DISTINCT in every entry, pairwise `np.allclose` with the default
    tolerances:  tiny-*: independent O(1) vectors times 1e-9 / 1e-12 / 1e-15 (their quotients are anything, their
    differences are below atol = 1e-8);  relative-1e-6@2.4e9: one vector at magnitude 2.4e9, entries moved by a
    relative 1e-6 .. 4e-6 (below rtol = 1e-5);  adjacent-doubles: each part moved to the j-th next double;
    decimal-13: each part moved by j * 3e-13"""
    if kind.startswith('tiny-'):
        s = float(kind[5:])
        return [s * _gauss_vec(rng, n) for _ in range(k)]
    v = _gauss_vec(rng, n)
    v = v + (0.5 + 0.5j) * np.sign(v.real + 0.0)                        # keep both parts away from 0
    out = []
    for j in range(k):
        if kind == 'relative-1e-6@2.4e9':
            u = np.array([rng.uniform(1.0, 2.0) for _ in range(n)])
            out.append(2.4e9 * v * (1.0 + 1e-6 * j * u))
        elif kind == 'adjacent-doubles':
            re, im = v.real.copy(), v.imag.copy()
            for _ in range(j):
                re, im = np.nextafter(re, np.inf), np.nextafter(im, np.inf)
            out.append(re + 1j * im)
        elif kind == 'decimal-13':
            out.append(v + j * 3e-13 * (1 + 1j))
        else:
            raise ValueError(kind)
    return out


def family_discriminates(kind):
    """can a first-principles comparison at 1e-9 tell the members of the family apart?  (for adjacent doubles and
    13th-decimal differences only the bit-for-bit comparison with a fresh object can)"""
    return kind.startswith('tiny-') or kind.startswith('relative-')


def pattern(n):
    """deterministic integer-valued symbols, no zero entry (large inputs are not stored in the case)"""
    i = np.arange(n)
    return ((i * 7919) % 7 + 1).astype(float) + 1j * (((i * 104729) % 11) - 5).astype(float)


# ------------------------------------------------------------------ R15 oracle
def _config(case):
    """close INTEGERS: fft around 2^18 with used = fft - 2 (np.isclose(used, fft) holds) - the all-used branch of the
    index map, the guards, the float ceiling of the padding"""
    o = B._ofdm()
    F, C, U = case['fft'], case['cp'], case['used']
    q = ',fft>=2e5' if F >= 200000 else ''
    try:
        obj = o.OFDM(F, C, U)
    except Exception as e:
        return 'R15:config:rejects-valid' + q, 'OFDM(%d, %d, %d): %s' % (F, C, U, type(e).__name__)
    for bad in ((F, F + 1, U), (F, C, F + 2 - F % 2), (F, C, U + 1), (F, -1, U)):
        try:
            o.OFDM(*bad)
            return 'R15:config:accepts-invalid' + q, 'OFDM%r accepted' % (bad,)
        except ValueError:
            pass
        except Exception as e:
            return 'R15:config:wrong-exception' + q, 'OFDM%r: %s' % (bad, type(e).__name__)
    try:
        idx = np.asarray(obj.get_used_subcarrier_indexes())
    except Exception as e:
        return 'R15:config:index-map-raises' + q, '%s: %s' % (type(e).__name__, str(e)[:120])
    want = np.array(fp_bins(F, U))
    if idx.shape != want.shape or not np.array_equal(idx, want):
        return 'R15:config:index-map' + q, 'get_used_subcarrier_indexes differs from the signed subcarrier numbers -h..-1, 1..h'
    for n in case['lengths']:
        zp = tuple(int(v) for v in obj._calc_zeropad(n))
        if zp != ((-n) % U, -(-n // U)):
            return 'R15:config:zeropad' + q, '_calc_zeropad(%d) = %r, expected %r' % (n, zp, ((-n) % U, -(-n // U)))
    # a setter called with a close-but-different value takes effect
    U2 = case['used2']
    obj2 = o.OFDM(F, C, U)
    obj2.set_parameters(F, C, U2)
    if obj2.num_used_subcarriers != U2 or not np.array_equal(obj2.get_used_subcarrier_indexes(), np.array(fp_bins(F, U2))):
        return 'R15:config:setter-ignored' + q, 'set_parameters(%d, %d, %d) after used = %d' % (F, C, U2, U)
    obj2.set_parameters(F, C, U)
    if not np.array_equal(obj2.get_used_subcarrier_indexes(), want):
        return 'R15:config:setter-ignored' + q, 'set_parameters back to used = %d' % U
    x = pattern(case['n'])
    try:
        tx = np.asarray(obj.modulate(x.copy()))
        back = np.asarray(obj.demodulate(np.array(tx, copy=True)))
    except Exception as e:
        return 'R15:config:raises' + q, '%s: %s' % (type(e).__name__, str(e)[:120])
    nsym = -(-x.size // U)
    if tx.shape != (nsym * (F + C),):
        return 'R15:config:length' + q, 'emitted %s samples' % (tx.shape,)
    want_back = np.concatenate([x, np.zeros(nsym * U - x.size)])
    if relerr(back, want_back) > TOL:
        return 'R15:config:roundtrip' + q, 'relative error %.3g' % relerr(back, want_back)
    for r in range(nsym):
        blk = tx[r * (F + C):(r + 1) * (F + C)]
        if C and not np.array_equal(blk[:C], blk[F:F + C]):
            return 'R15:config:cp-not-tail-copy' + q, 'symbol %d' % r
        if U < F:
            body = blk[C:]
            h = U // 2
            n_ = np.arange(F)

            def bin_(b):
                return complex(np.sum(body * np.exp(-2j * np.pi * ((b * n_) % F) / F)))
            # magnitude of the spectrum: the bin of the largest data symbol of this OFDM symbol
            row = np.concatenate([x, np.zeros(nsym * U - x.size)])[r * U:(r + 1) * U]
            ref = abs(bin_(int(want[int(np.argmax(np.abs(row)))])))
            for b in sorted({0, h + 1, F - h - 1, F // 2}):
                if h < b < F - h or b == 0:
                    if not abs(bin_(b)) <= TOL * ref:
                        return ('R15:config:dc-energy' if b == 0 else 'R15:config:guard-energy') + q, \
                            'symbol %d bin %d carries %.3g (used bins %.3g)' % (r, b, abs(bin_(b)), ref)
    return None


def _signals(case):
    """ONE OFDM object is given close-but-distinct signals one after the other"""
    o = B._ofdm()
    f, c, u = case['fft'], case['cp'], case['used']
    obj = o.OFDM(f, c, u)
    kind = case['family']
    for k, xs in enumerate(case['xs']):
        x = B.cx(xs)
        pos = 'first-call' if k == 0 else 'later-call'
        fresh = o.OFDM(f, c, u)
        if case['op'] == 'modulate':
            tx = obj.modulate(x.copy())
            if relerr(tx, fp_modulate(f, c, u, x)) > TOL:
                return 'R15:modulate:%s,%s' % (kind, pos), 'call %d: relative error %.3g against the first-principles signal' % (
                    k, relerr(tx, fp_modulate(f, c, u, x)))
            if not same_bits(tx, fresh.modulate(x.copy())):
                return 'R15:modulate:differs-from-fresh:%s,%s' % (kind, pos), 'call %d' % k
            back = obj.demodulate(np.array(tx, copy=True))
            want = np.concatenate([x, np.zeros(B.expected_padding(x.size, u))])
            if relerr(back, want) > TOL:
                return 'R15:roundtrip:%s,%s' % (kind, pos), 'call %d: relative error %.3g' % (k, relerr(back, want))
        else:
            dem = obj.demodulate(x.copy())
            if relerr(dem, fp_demodulate(f, c, u, x)) > TOL:
                return 'R15:demodulate:%s,%s' % (kind, pos), 'call %d: relative error %.3g against the first-principles symbols' % (
                    k, relerr(dem, fp_demodulate(f, c, u, x)))
            if not same_bits(dem, fresh.demodulate(x.copy())):
                return 'R15:demodulate:differs-from-fresh:%s,%s' % (kind, pos), 'call %d' % k
    return None


def _static_taps(delays, powers_db, draw):
    idx, pw = B.expected_discretisation(delays, powers_db)
    gains = np.resize(B.cx(draw), len(idx)) * np.sqrt(np.array(pw))
    return idx, gains


def _channels(case):
    """ONE OFDM object + ONE equaliser see close-but-distinct channels one after the other"""
    o = B._ofdm()
    f, c, u = case['fft'], case['cp'], case['used']
    obj = o.OFDM(f, c, u)
    eqz = o.OfdmOneTapEqualizer(obj)
    kind = case['family']
    x = B.cx(case['x'])
    tx = obj.modulate(x.copy())
    want = np.concatenate([x, np.zeros(B.expected_padding(x.size, u))])
    for k, st in enumerate(case['steps']):
        pos = 'first-call' if k == 0 else 'later-call'
        try:
            ch = B.make_static_channel(case['delays'], st['powers_dB'], B.cx(st['draw']))
            rx = ch.corrupt_data(np.array(tx, copy=True))
            ir = ch.get_last_impulse_response()
            dem = obj.demodulate(np.array(rx[:tx.size], copy=True))
            out = eqz.equalize_data(np.array(dem, copy=True), ir)
        except Exception as e:
            return 'R15:channel:raises:%s,%s' % (kind, pos), 'step %d: %s: %s' % (k, type(e).__name__, str(e)[:120])
        idx, gains = _static_taps(case['delays'], st['powers_dB'], st['draw'])
        if [int(v) for v in np.asarray(ir.tap_indexes_sparse)] != idx:
            return 'R15:channel:tap-indexes:%s' % kind, 'step %d: %r' % (k, list(ir.tap_indexes_sparse))
        rep = np.asarray(ir.tap_values_sparse)[:, 0]
        per_tap = float(np.max(np.abs(rep - gains) / np.abs(gains)))
        if not per_tap <= TOL:
            return 'R15:channel:tap-values:%s,%s' % (kind, pos), 'step %d: a reported tap is off by a relative %.3g' % (k, per_tap)
        dense = np.zeros(idx[-1] + 1, dtype=complex)
        dense[idx] = gains
        if relerr(rx, B.direct_convolution(dense, tx)) > TOL:
            return 'R15:channel:not-convolution:%s,%s' % (kind, pos), 'step %d' % k
        vals = np.repeat(gains[:, None], tx.size, axis=1)
        fp, cond = fp_equalize(f, u, dem, idx, vals)
        if cond > 1e4:
            continue
        if relerr(out, fp) > TOL + 1e-12 * cond:
            return 'R15:equalize_data:%s,%s' % (kind, pos), 'step %d: relative error %.3g against data / H of THIS channel' % (
                k, relerr(out, fp))
        if relerr(out, want) > TOL + 1e-12 * cond:
            return 'R15:one-tap-inexact:%s,%s' % (kind, pos), 'step %d: relative error %.3g' % (k, relerr(out, want))
        fr = o.OFDM(f, c, u)
        if not same_bits(out, o.OfdmOneTapEqualizer(fr).equalize_data(np.array(dem, copy=True), ir)):
            return 'R15:equalize_data:differs-from-fresh:%s,%s' % (kind, pos), 'step %d' % k
    return None


def build_ir(idx, vals):
    """a TdlImpulseResponse over the caller's array `vals` (taps x samples) for taps on the samples `idx`"""
    fading, _ = B._fading()
    prof = fading.TdlChannelProfile(np.zeros(len(idx)), np.array(idx, dtype=float)).get_discretize_profile(1.0)
    return fading.TdlImpulseResponse(vals, prof)


def make_matrix_channel(idx, vals):
    """a real TdlChannel (equal-power taps on the samples `idx`) whose next transmission of vals.shape[1] samples sees
    the tap values `vals` (taps x samples)"""
    fading, fg = B._fading()
    vals = np.asarray(vals, dtype=complex)
    mat = vals * math.sqrt(len(idx))                   # the channel applies sqrt(1 / number of taps) to every tap

    class MatrixGen(fg.RayleighSampleGenerator):
        def __init__(self):
            super().__init__(shape=None)

        def generate_more_samples(self, num_samples=None):
            n = 1 if num_samples is None else int(num_samples)
            k = self._shape[0] if self._shape else 1
            self._samples = mat.copy() if (k, n) == mat.shape else np.ones((k, n), dtype=complex)

        def skip_samples_for_next_generation(self, num_samples):
            pass

    return fading.TdlChannel(MatrixGen(), tap_powers_dB=np.zeros(len(idx)), tap_delays=np.array(idx, dtype=float), Ts=1.0)


def _slow(case):
    """a channel that varies a little inside each OFDM symbol is NOT static: the equaliser divides by the mean
    response over the samples of the symbol"""
    o = B._ofdm()
    f, c, u = case['fft'], case['cp'], case['used']
    obj = o.OFDM(f, c, u)
    eqz = o.OfdmOneTapEqualizer(obj)
    kind = case['family']
    idx = case['idx']
    held = None                                   # ONE impulse response object over an array the caller refills,
    eqz_h = o.OfdmOneTapEqualizer(obj)            # on an equaliser that sees nothing else
    for k, st in enumerate(case['steps']):
        pos = 'first-call' if k == 0 else 'later-call'
        vals = np.array([B.cx(row) for row in st['vals']])
        data = B.cx(st['data'])
        try:
            out = eqz.equalize_data(data.copy(), build_ir(idx, vals.copy()))
            if held is None or held[0].shape != vals.shape:
                buf = np.empty(vals.shape, dtype=complex)
                held = (buf, build_ir(idx, buf))
            held[0][...] = vals
            out_h = eqz_h.equalize_data(data.copy(), held[1])
        except Exception as e:
            return 'R15:slowly-varying:raises:%s' % kind, '%s: %s' % (type(e).__name__, str(e)[:120])
        fp, cond = fp_equalize(f, u, data, idx, vals)
        if relerr(out, fp) > SLOW_TOL * max(1.0, cond):
            return 'R15:slowly-varying:%s,%s' % (kind, pos), 'step %d: relative error %.3g against data / mean_j H_j (conditioning %.3g)' % (
                k, relerr(out, fp), cond)
        if relerr(out_h, fp) > SLOW_TOL * max(1.0, cond):
            return 'R15:slowly-varying:impulse-response-object-refilled:%s,%s' % (kind, pos), \
                'step %d: relative error %.3g against data / mean_j H_j for the taps held at call time' % (k, relerr(out_h, fp))
        # the same slowly varying taps inside a real channel: sample m of the signal meets the taps of sample m
        tx = B.cx(st['tx'])
        try:
            ch = make_matrix_channel(idx, vals)
            rx = ch.corrupt_data(tx.copy())
            rep = np.asarray(ch.get_last_impulse_response().tap_values_sparse)
        except Exception as e:
            return 'R15:slowly-varying:channel-raises:%s' % kind, '%s: %s' % (type(e).__name__, str(e)[:120])
        if rep.shape != vals.shape or not float(np.max(np.abs(rep - vals) / np.abs(vals))) <= SLOW_TOL:
            return 'R15:slowly-varying:reported-taps:%s,%s' % (kind, pos), 'step %d' % k
        if relerr(rx, fp_corrupt(idx, rep, tx)) > SLOW_TOL:
            return 'R15:slowly-varying:channel-output:%s,%s' % (kind, pos), 'step %d: relative error %.3g against sum_t h_t[m] x[m]' % (
                k, relerr(rx, fp_corrupt(idx, rep, tx)))
    return None


def _discretisation(case):
    r = B.o_onetap(case)
    if r is None:
        return None
    return 'R15:discretisation:%s:%s' % (case['family'], r[0]), r[1]


def o_close(case):
    """R15: every one of a set of close-but-distinct legitimate values gives the result of a fresh first-principles
    computation for THAT value"""
    return {'config': _config, 'signals': _signals, 'channels': _channels, 'slow': _slow,
            'discretisation': _discretisation}[case['kind']](case)


# ------------------------------------------------------------------ R16 oracle
class Buffers:
    """the caller's preallocated arrays, one per role, refilled in place before every call.  `views`: one big array
    per role, the call gets the leading part of it (another array OBJECT over the same memory each time)"""

    def __init__(self, views=False):
        self.views, self.b = views, {}

    def fill(self, role, a):
        a = np.asarray(a)
        if self.views:
            big = self.b.get(role)
            if big is None or big.size < a.size:
                big = self.b[role] = np.empty(max(a.size, 1) * 2, dtype=complex)
            v = big[:a.size].reshape(a.shape)
            v[...] = a
            return v
        key = (role, a.shape)
        if key not in self.b:
            self.b[key] = np.empty(a.shape, dtype=complex)
        self.b[key][...] = a
        return self.b[key]


def make_scripted_channel(delays, powers_db, draws):
    """ONE TdlChannel object; the transmission made while `gen.round == k` sees the k-th scripted time-invariant draw.
    Returns (channel, gen)."""
    fading, fg = B._fading()

    class ScriptedGen(fg.RayleighSampleGenerator):
        def __init__(self, draws):
            self._draws = [np.asarray(d, dtype=complex) for d in draws]
            self.round = 0
            super().__init__(shape=None)

        def generate_more_samples(self, num_samples=None):
            n = 1 if num_samples is None else int(num_samples)
            k = self._shape[0] if self._shape else 1
            v = np.resize(self._draws[self.round % len(self._draws)], k)
            self._samples = np.repeat(v[:, None], n, axis=1)

        def skip_samples_for_next_generation(self, num_samples):
            pass

    gen = ScriptedGen(draws)
    return fading.TdlChannel(gen, tap_powers_dB=np.array(powers_db, dtype=float),
                             tap_delays=np.array(delays, dtype=float), Ts=1.0), gen


GARBAGE = 1e3 - 7e2j


def _reuse_history(case):
    o = B._ofdm()
    f, c, u = case['fft'], case['cp'], case['used']
    obj = o.OFDM(f, c, u)
    eqz = o.OfdmOneTapEqualizer(obj)
    eqz_u = o.OfdmOneTapEqualizer(obj)          # an equaliser that only ever sees the caller's ONE impulse response object
    rounds = case['rounds']
    ch, gen = make_scripted_channel(case['delays'], case['powers_dB'], [B.cx(r['draw']) for r in rounds])
    bufs = Buffers(case.get('views', False))
    user_ir = {}
    kept = []
    idx, _ = B.expected_discretisation(case['delays'], case['powers_dB'])
    for k, r in enumerate(rounds):
        pos = 'first-call' if k == 0 else 'later-call'
        x = B.cx(r['x'])

        def hand(role, a):
            if r.get('fresh_copy'):
                return np.array(a, dtype=complex, copy=True), 'equal-content-new-object'
            return bufs.fill(role, a), ('view-of-one-buffer' if bufs.views else 'buffer-refilled')

        def after(name, arg, res, pat):
            """(iii) the caller overwrites the argument right after the call: the result stays"""
            if r.get('scribble'):
                sn = B._snap(res)
                arg[...] = GARBAGE
                if not B._same(res, sn):
                    return 'R16:%s:result-follows-argument-modified-after-call' % name, 'round %d' % k
            return None
        try:
            # --- modulate
            arg, pat = hand('x', x)
            tx = obj.modulate(arg)
            e = relerr(tx, fp_modulate(f, c, u, x))
            if e > TOL:
                return 'R16:modulate:%s,%s' % (pat, pos), 'round %d: relative error %.3g against the signal for the contents at call time' % (k, e)
            if not same_bits(tx, o.OFDM(f, c, u).modulate(x.copy())):
                return 'R16:modulate:differs-from-fresh:%s,%s' % (pat, pos), 'round %d' % k
            bad = after('modulate', arg, tx, pat)
            if bad:
                return bad
            tx_l = np.array(tx, copy=True)
            # --- channel (ONE channel object; its k-th draw is scripted)
            arg, pat = hand('tx', tx_l)
            gen.round = k
            rx = ch.corrupt_data(arg)
            ir = ch.get_last_impulse_response()
            gains = np.resize(B.cx(r['draw']), len(idx)) * np.sqrt(np.array(B.expected_discretisation(case['delays'], case['powers_dB'])[1]))
            dense = np.zeros(idx[-1] + 1, dtype=complex)
            dense[idx] = gains
            e = relerr(rx, B.direct_convolution(dense, tx_l))
            if e > TOL:
                return 'R16:corrupt_data:%s,%s' % (pat, pos), 'round %d: relative error %.3g against the convolution of the contents at call time' % (k, e)
            bad = after('corrupt_data', arg, rx, pat)
            if bad:
                return bad
            rep = np.array(ir.tap_values_sparse, copy=True)
            # --- demodulate
            rx_l = np.array(rx[:tx_l.size], copy=True)
            arg, pat = hand('rx', rx_l)
            dem = obj.demodulate(arg)
            e = relerr(dem, fp_demodulate(f, c, u, rx_l))
            if e > TOL:
                return 'R16:demodulate:%s,%s' % (pat, pos), 'round %d: relative error %.3g' % (k, e)
            if not same_bits(dem, o.OFDM(f, c, u).demodulate(rx_l.copy())):
                return 'R16:demodulate:differs-from-fresh:%s,%s' % (pat, pos), 'round %d' % k
            bad = after('demodulate', arg, dem, pat)
            if bad:
                return bad
            dem_l = np.array(dem, copy=True)
            # --- equalize_data: data in the caller's buffer, the impulse response as reported
            arg, pat = hand('dem', dem_l)
            out = eqz.equalize_data(arg, ir)
            vals = np.repeat(gains[:, None], tx_l.size, axis=1)
            fp, cond = fp_equalize(f, u, dem_l, idx, vals)
            ok_cond = cond <= 1e4
            if ok_cond and relerr(out, fp) > TOL + 1e-12 * cond:
                return 'R16:equalize_data:%s,%s' % (pat, pos), 'round %d: relative error %.3g against data / H for the contents at call time' % (
                    k, relerr(out, fp))
            want = np.concatenate([x, np.zeros(B.expected_padding(x.size, u))])
            if ok_cond and relerr(out, want) > TOL + 1e-12 * cond:
                return 'R16:one-tap-inexact:%s,%s' % (pat, pos), 'round %d: relative error %.3g' % (k, relerr(out, want))
            fr = o.OFDM(f, c, u)
            if not same_bits(out, o.OfdmOneTapEqualizer(fr).equalize_data(dem_l.copy(), ir)):
                return 'R16:equalize_data:differs-from-fresh:%s,%s' % (pat, pos), 'round %d' % k
            bad = after('equalize_data', arg, out, pat)
            if bad:
                return bad
            # --- the same TdlImpulseResponse OBJECT over a buffer the caller refills
            if case.get('user_ir'):
                irbuf = bufs.fill('ir', rep)
                key = (irbuf.shape, irbuf.__array_interface__['data'][0])
                if key not in user_ir:
                    user_ir[key] = build_ir(idx, irbuf)
                IR = user_ir[key]
                for which, e in (('own-equaliser', eqz_u), ('shared-equaliser', eqz)):
                    out2 = e.equalize_data(bufs.fill('dem', dem_l), IR)
                    if not same_bits(out2, out):
                        return 'R16:equalize_data:impulse-response-object-refilled,%s,%s' % (which, pos), \
                            'round %d: differs from the result for an impulse response with the same contents' % k
                if not same_bits(IR.get_freq_response(f), ir.get_freq_response(f)):
                    return 'R16:get_freq_response:impulse-response-object-refilled,%s' % pos, 'round %d' % k
        except Exception as e:
            return 'R16:raises,%s' % pos, 'round %d: %s: %s' % (k, type(e).__name__, str(e)[:150])
        if not same_bits(ir.tap_values_sparse, rep):
            return 'R16:impulse-response-changed', 'round %d' % k
        for name, arr in (('modulate', tx), ('corrupt_data', rx), ('demodulate', dem), ('equalize_data', out),
                          ('impulse_response', ir.tap_values_sparse)):
            kept.append((name, k, arr, B._snap(arr)))
        for name, k0, arr, sn in kept:
            if not B._same(arr, sn):
                return 'R16:earlier-result-changed:' + name, 'the result of round %d changed during round %d' % (k0, k)
    return None


def _two_roles(case):
    """(ii) the same array object in two roles"""
    o = B._ofdm()
    fading, _ = B._fading()
    what = case['what']
    try:
        if what == 'modulate+demodulate':
            f = case['fft']
            obj = o.OFDM(f, 0, f)
            a = B.cx(case['x'])                        # a multiple of fft values: a legal argument of both methods
            sn = B._snap(a)
            t = obj.modulate(a)
            d = obj.demodulate(a)
            if not B._same(a, sn):
                return 'R16:argument-modified:modulate+demodulate', 'the array handed to modulate and then to demodulate changed'
            t2 = obj.modulate(a)
            if relerr(t, fp_modulate(f, 0, f, sn[2])) > TOL or not same_bits(t, t2):
                return 'R16:modulate:same-array-also-demodulated', 'relative error %.3g; same result before and after demodulate(a): %s' % (
                    relerr(t, fp_modulate(f, 0, f, sn[2])), same_bits(t, t2))
            if relerr(d, fp_demodulate(f, 0, f, sn[2])) > TOL:
                return 'R16:demodulate:same-array-also-modulated', 'relative error %.3g' % relerr(d, fp_demodulate(f, 0, f, sn[2]))
            return None
        if what == 'powers-is-delays':
            a = np.array(case['a'], dtype=float)       # the SAME array as tap powers (dB) and as tap delays (samples)
            twin_p, twin_d = a.copy(), a.copy()
            sn = B._snap(a)
            g = B._static_gen(B.cx(case['draw']))
            ch = fading.TdlChannel(g, tap_powers_dB=a, tap_delays=a, Ts=1.0)
            pr = fading.TdlChannelProfile(a, a)
            a[...] = 9.0                                # (iii) and the caller re-uses the array afterwards
            ref = fading.TdlChannel(B._static_gen(B.cx(case['draw'])), tap_powers_dB=twin_p, tap_delays=twin_d, Ts=1.0)
            idx, pw = B.expected_discretisation(list(sn[2]), list(sn[2]))
            if [int(v) for v in ch.channel_profile.tap_delays] != idx or not np.allclose(ch.channel_profile.tap_powers_linear, pw, rtol=1e-9, atol=0):
                return 'R16:TdlChannel:same-array-powers-and-delays', 'taps %r powers %r after the caller re-used the array' % (
                    list(ch.channel_profile.tap_delays), list(ch.channel_profile.tap_powers_linear))
            if not np.array_equal(pr.tap_delays, sn[2]) or not np.array_equal(pr.tap_powers_dB, sn[2]):
                return 'R16:TdlChannelProfile:keeps-reference-to-argument', 'profile follows the caller\'s array'
            x = B.cx(case['x'])
            r1, r2 = ch.corrupt_data(x.copy()), ref.corrupt_data(x.copy())
            if not same_bits(r1, r2):
                return 'R16:TdlChannel:same-array-powers-and-delays', 'output differs from the channel built on two separate arrays'
            return None
        if what == 'profile-in-two-channels':
            # ONE (not yet discretised) profile object serves two channels with different sampling intervals
            p = np.array(case['powers_dB'], dtype=float)
            d = np.array(case['delays'], dtype=float)                 # even sample numbers at Ts = 1
            prof = fading.TdlChannelProfile(p, d, 'shared')
            ch1 = fading.TdlChannel(B._static_gen(B.cx(case['draw'])), prof, Ts=1.0)
            ch2 = fading.TdlChannel(B._static_gen(B.cx(case['draw'])), channel_profile=prof, Ts=2.0)
            ch3 = fading.TdlChannel(B._static_gen(B.cx(case['draw'])), prof, Ts=1.0)
            if prof.is_discretized or prof.Ts is not None or not np.array_equal(prof.tap_delays, d) \
                    or not np.array_equal(prof.tap_powers_dB, p) or prof.name != 'shared':
                return 'R16:TdlChannel:profile-argument-modified', 'the caller\'s profile: Ts %r, delays %r' % (prof.Ts, list(prof.tap_delays))
            x = B.cx(case['x'])
            for ch, Ts in ((ch1, 1.0), (ch2, 2.0), (ch3, 1.0)):
                idx, pw = B.expected_discretisation(case['delays'], case['powers_dB'], Ts)
                if [int(v) for v in ch.channel_profile.tap_delays] != idx:
                    return 'R16:TdlChannel:profile-shared-by-two-channels', 'Ts %g: taps on %r, expected %r' % (
                        Ts, list(ch.channel_profile.tap_delays), idx)
                gains = np.resize(B.cx(case['draw']), len(idx)) * np.sqrt(np.array(pw))
                dense = np.zeros(idx[-1] + 1, dtype=complex)
                dense[idx] = gains
                if relerr(ch.corrupt_data(x.copy()), B.direct_convolution(dense, x)) > TOL:
                    return 'R16:TdlChannel:profile-shared-by-two-channels', 'Ts %g: output differs from the convolution' % Ts
            return None
        if what == 'data-is-taps':
            f, u = case['fft'], case['used']
            obj = o.OFDM(f, 0, u)
            eqz = o.OfdmOneTapEqualizer(obj)
            buf = np.array([B.cx(case['x'])])          # 1 tap x (nsym * used) samples
            sn = B._snap(buf)
            IR = build_ir([0], buf)
            out = eqz.equalize_data(buf[0], IR)         # the data ARE the tap values (same memory)
            fp, cond = fp_equalize(f, u, sn[2][0], [0], sn[2])
            if relerr(out, fp) > TOL + 1e-12 * cond:
                return 'R16:equalize_data:data-shares-memory-with-taps', 'relative error %.3g' % relerr(out, fp)
            if not B._same(buf, sn):
                return 'R16:argument-modified:equalize_data', 'the array holding data and tap values changed'
            return None
    except Exception as e:
        return 'R16:two-roles:raises:' + what, '%s: %s' % (type(e).__name__, str(e)[:150])
    raise ValueError(what)


def o_reuse(case):
    """R16: results depend on the contents of the arguments at call time only"""
    return _two_roles(case) if case.get('kind') == 'two-roles' else _reuse_history(case)


# ------------------------------------------------------------------ generators
def small_config(rng, need_cp=True, fmax=24):
    while True:
        f, c, u = B.gen_config(rng, fmax)
        if (c >= 1 or not need_cp) and f >= 4:
            return f, c, u


def gen_close_signals(rng, kind, op):
    f, c, u = small_config(rng, need_cp=False)
    k = rng.randint(2, 4)
    n = (rng.randint(1, 3) * (f + c)) if op == 'demodulate' else max(1, B.gen_length(rng, u))
    return {'kind': 'signals', 'family': kind, 'op': op, 'fft': f, 'cp': c, 'used': u,
            'xs': [B.pairs(v) for v in close_family(rng, kind, n, k)]}


def benign_profile(rng, f, c, ntaps=None):
    """a strong first path and weaker echoes: |H| stays within a factor ~3 of the strongest gain (the comparisons
    then resolve relative differences of 1e-6 between channels)"""
    m = min(c, f - 1)
    k = min(m, ntaps if ntaps is not None else rng.randint(1, 3))
    others = list(range(1, m + 1))
    rng.shuffle(others)
    delays = [0] + sorted(others[:k])
    powers = [0.0] + [round(-rng.uniform(12, 20), 3) for _ in delays[1:]]
    return delays, powers


def gen_close_channels(rng, kind):
    f, c, u = small_config(rng)
    delays, powers = benign_profile(rng, f, c)
    k = rng.randint(2, 4)
    fam = close_family(rng, kind, len(delays), k)
    steps = []
    for j, d in enumerate(fam):
        d = np.array(d)
        if kind.startswith('tiny-'):
            # independent tiny draws; the first path keeps the largest magnitude
            d[0] = d[0] / abs(d[0]) * float(kind[5:]) * 2.0
        steps.append({'draw': B.pairs(d), 'powers_dB': list(powers)})
    return {'kind': 'channels', 'family': kind, 'fft': f, 'cp': c, 'used': u, 'delays': delays,
            'x': B.gen_symbols(rng, max(1, B.gen_length(rng, u)), integer=False), 'steps': steps}


POWER_FAMILIES = ['powers-1e-5dB-apart', 'powers-tiny']


def gen_close_powers(rng, kind):
    """close-but-distinct path POWERS: profiles whose dB values differ by 1e-5, and profiles whose (unnormalised)
    linear powers are all tiny (-90 .. -150 dB: an absolute threshold would drop every path)"""
    f, c, u = small_config(rng)
    delays, powers = benign_profile(rng, f, c, ntaps=2)
    draw = [[1.0, 0.3]] + [[rng.gauss(), rng.gauss()] for _ in delays[1:]]
    steps = []
    for j in range(rng.randint(2, 4)):
        if kind == 'powers-1e-5dB-apart':
            p = [powers[0]] + [q - 1e-5 * j * (i + 1) for i, q in enumerate(powers[1:])]
        else:
            off = [-90.0, -100.0, -120.0, -150.0][j % 4]
            p = [q + off - (3.0 * j if i else 0.0) for i, q in enumerate(powers)]
        steps.append({'draw': draw, 'powers_dB': p})
    return {'kind': 'channels', 'family': kind, 'fft': f, 'cp': c, 'used': u, 'delays': delays,
            'x': B.gen_symbols(rng, max(1, B.gen_length(rng, u)), integer=False), 'steps': steps}


SLOW_KINDS = ['variation-1e-6', 'tiny-1e-12', 'variation-1e-6@2.4e9', 'adjacent-doubles', 'variation-1e-10-absolute']


def gen_slow(rng, kind):
    f, c, u = small_config(rng, fmax=16)
    nsym = rng.randint(1, 2)
    m = rng.randint(2, 4)                       # samples of the response per OFDM symbol
    ns = nsym * m
    d = rng.randint(1, min(c, f - 1))
    idx = [0, d]
    steps = []
    for _ in range(rng.randint(2, 3)):
        base = np.array([complex(1.0, 0.4), 0.2 * complex(rng.gauss(), rng.gauss())])
        ramp = np.array([[rng.uniform(-1, 1) for _ in range(ns)] for _ in idx])
        if kind == 'variation-1e-6':
            vals = base[:, None] * (1.0 + 1e-6 * ramp)
        elif kind == 'tiny-1e-12':
            vals = 1e-12 * base[:, None] * (1.0 + 0.3 * ramp)          # |differences| << atol, relative variation 30 %
        elif kind == 'variation-1e-6@2.4e9':
            vals = 2.4e9 * base[:, None] * (1.0 + 1e-6 * ramp)
        elif kind == 'adjacent-doubles':
            vals = np.repeat(base[:, None], ns, axis=1)
            vals[:, 1::2] = np.nextafter(vals[:, 1::2].real, np.inf) + 1j * vals[:, 1::2].imag
        else:
            vals = base[:, None] + 1e-10 * ramp
        data = _gauss_vec(rng, nsym * u)
        steps.append({'vals': [B.pairs(row) for row in vals], 'data': B.pairs(data), 'tx': B.pairs(_gauss_vec(rng, ns))})
    return {'kind': 'slow', 'family': kind, 'fft': f, 'cp': c, 'used': u, 'idx': idx, 'steps': steps}


TS_VALUES = [1e-15, 1e-12, 1e-9, 3.25e-8, 1e6, 2.4e9]


def gen_discretisation(rng, family, Ts=1.0):
    """paths whose delays are close but fall on DIFFERENT samples (tiny sampling intervals: all delays are below
    atol = 1e-8; delays just below / above a half sample, margin 1e-6 / 1e-9 of a sample) or are different numbers
    on the SAME sample (adjacent doubles)"""
    f, c, u = small_config(rng, fmax=32)
    while min(c, f - 1) < 3:
        f, c, u = small_config(rng, fmax=32)
    m = min(c, f - 1)
    if family == 'tiny-or-huge-Ts':
        k = rng.randint(2, min(4, m))
        others = list(range(1, m + 1))
        rng.shuffle(others)
        delays = [0] + sorted(others[:k])
    elif family == 'half-sample-margin':
        k0 = rng.randint(0, m - 2)
        eps = rng.choice([1e-6, 1e-9])
        delays = [0.0, k0 + 0.5 - eps * (k0 + 1), k0 + 0.5 + eps * (k0 + 1)] if k0 > 0 else [0.5 - eps, 0.5 + eps, float(m)]
    else:                                                   # adjacent doubles on one sample
        k0 = rng.randint(1, m)
        v = k0 + rng.choice([-0.3, 0.3, 0.0])
        delays = [0.0, v, float(np.nextafter(v, np.inf)), float(np.nextafter(np.nextafter(v, np.inf), np.inf))]
    powers = [0.0] + [round(-rng.uniform(10, 16), 3) for _ in delays[1:]]
    draw = [[1.0, 0.2]] + [[0.5 * rng.gauss(), 0.5 * rng.gauss()] for _ in delays[1:]]
    case = {'kind': 'discretisation', 'family': family + ('' if Ts == 1.0 else ',Ts=%g' % Ts), 'fft': f, 'cp': c, 'used': u,
            'x': B.gen_symbols(rng, max(1, B.gen_length(rng, u)), integer=False), 'delays': delays, 'powers_dB': powers,
            'draw': draw}
    if Ts != 1.0:
        case['Ts'] = Ts
    return case


BIG_CONFIGS = [(262144, 0, 262142, 262144), (262144, 1, 262144, 262142), (200003, 0, 200002, 200000)]
BIG_CONFIGS_THOROUGH = BIG_CONFIGS + [(200002, 200002, 200000, 200002), (1048576, 3, 1048574, 1048576),
                                      (300000, 7, 299998, 299996)]


def config_case(F, C, U, U2):
    return {'kind': 'config', 'fft': F, 'cp': C, 'used': U, 'used2': U2, 'n': U + 1,
            'lengths': [0, 1, U - 1, U, U + 1, 2 * U - 1, 2 * U, 2 * U + 1,
                        # lengths that single precision / a rounded quotient would identify with their neighbours
                        2 ** 24 + 1, 2 ** 24 + 3, 2 ** 31 + 1, U * 10 ** 6 + 1, U * (10 ** 9 + 1) - 1]}


def gen_reuse(rng, i):
    f, c, u = small_config(rng)
    delays, powers = benign_profile(rng, f, c)
    n = max(1, B.gen_length(rng, u))
    vary = i % 4 == 3                                        # lengths change between the calls
    rounds = []
    for k in range(2 + i % 3):
        nk = max(1, B.gen_length(rng, u)) if vary else n
        draw = [[1.0 + 0.2 * rng.gauss(), 0.3 * rng.gauss()]] + [[rng.gauss(), rng.gauss()] for _ in delays[1:]]
        rounds.append({'x': B.gen_symbols(rng, nk, integer=False), 'draw': draw,
                       'fresh_copy': (i + k) % 5 == 4, 'scribble': (i + k) % 3 == 1})
    return {'kind': 'history', 'fft': f, 'cp': c, 'used': u, 'delays': delays, 'powers_dB': powers, 'rounds': rounds,
            'views': i % 2 == 1, 'user_ir': not vary}


def gen_two_roles(rng, what):
    if what == 'modulate+demodulate':
        f = 2 * rng.randint(1, 8)
        return {'kind': 'two-roles', 'what': what, 'fft': f, 'x': B.gen_symbols(rng, f * rng.randint(1, 3), integer=False)}
    if what == 'powers-is-delays':
        k = rng.randint(2, 4)
        a = sorted({0.0} | {float(rng.randint(1, 6)) for _ in range(k)})
        return {'kind': 'two-roles', 'what': what, 'a': a, 'draw': [[rng.gauss(), rng.gauss()] for _ in a],
                'x': B.gen_symbols(rng, rng.randint(3, 12), integer=False)}
    if what == 'profile-in-two-channels':
        k = rng.randint(2, 4)
        d = sorted({0.0} | {2.0 * rng.randint(1, 6) for _ in range(k)})
        return {'kind': 'two-roles', 'what': what, 'delays': d, 'powers_dB': [round(-rng.uniform(0, 12), 3) for _ in d],
                'draw': [[rng.gauss(), rng.gauss()] for _ in d], 'x': B.gen_symbols(rng, rng.randint(3, 12), integer=False)}
    f, c, u = small_config(rng, need_cp=False)
    x = _gauss_vec(rng, u * rng.randint(1, 3))
    x = x + (1.5 + 0.5j) * np.sign(x.real + 0.0)                         # tap values away from 0
    return {'kind': 'two-roles', 'what': what, 'fft': f, 'used': u, 'x': B.pairs(x)}


TWO_ROLES = ['modulate+demodulate', 'powers-is-delays', 'profile-in-two-channels', 'data-is-taps']


# ------------------------------------------------------------------ oracle runs
def run_oracles(ctx, quick):
    rng = ctx.rng
    reps = 1 if quick else 8
    for F, C, U, U2 in (BIG_CONFIGS if quick else BIG_CONFIGS_THOROUGH):
        B.run_oracle(ctx, 'close', config_case(F, C, U, U2), key=('R15-config', F, C, U))
        ctx.branch('R15:oracle:close-integers')
    for F, C, U, U2 in [(18, 2, 16, 18), (18, 0, 18, 16), (9, 3, 8, 6)]:          # the same pattern at a readable size
        B.run_oracle(ctx, 'close', config_case(F, C, U, U2), key=('R15-config', F, C, U))
    for kind in CLOSE_KINDS:
        for op in ('modulate', 'demodulate'):
            for j in range(reps):
                B.run_oracle(ctx, 'close', gen_close_signals(rng, kind, op), key=('R15-sig', kind, op, j))
        ctx.branch('R15:oracle:signals')
        for j in range(reps):
            B.run_oracle(ctx, 'close', gen_close_channels(rng, kind), key=('R15-ch', kind, j))
        ctx.branch('R15:oracle:channels')
    for kind in POWER_FAMILIES:
        for j in range(reps):
            B.run_oracle(ctx, 'close', gen_close_powers(rng, kind), key=('R15-pw', kind, j))
        ctx.branch('R15:oracle:powers')
    for kind in SLOW_KINDS:
        for j in range(reps):
            B.run_oracle(ctx, 'close', gen_slow(rng, kind), key=('R15-slow', kind, j))
        ctx.branch('R15:oracle:slowly-varying')
    for Ts in TS_VALUES:
        for j in range(reps):
            B.run_oracle(ctx, 'close', gen_discretisation(rng, 'tiny-or-huge-Ts', Ts), key=('R15-ts', Ts, j))
    for fam in ('half-sample-margin', 'adjacent-doubles-one-sample'):
        for j in range(2 * reps):
            B.run_oracle(ctx, 'close', gen_discretisation(rng, fam), key=('R15-disc', fam, j))
    B.run_oracle(ctx, 'close', gen_discretisation(rng, 'half-sample-margin', 3.25e-8), key=('R15-disc', 'half', 'Ts'))
    ctx.branch('R15:oracle:discretisation')
    for i in range(12 if quick else 120):
        B.run_oracle(ctx, 'reuse', gen_reuse(rng, i), key=('R16-hist', i))
        ctx.branch('R16:oracle:buffer-refilled')
    for what in TWO_ROLES:
        for j in range(2 * reps):
            B.run_oracle(ctx, 'reuse', gen_two_roles(rng, what), key=('R16-two', what, j))
        ctx.branch('R16:oracle:same-array-two-roles')


def search(ctx):
    rng = ctx.rng
    for F, C, U, U2 in BIG_CONFIGS:
        B.run_oracle(ctx, 'close', config_case(F, C, U, U2))
    for j in range(6):
        for kind in CLOSE_KINDS:
            for op in ('modulate', 'demodulate'):
                B.run_oracle(ctx, 'close', gen_close_signals(rng, kind, op))
            B.run_oracle(ctx, 'close', gen_close_channels(rng, kind))
        for kind in SLOW_KINDS:
            B.run_oracle(ctx, 'close', gen_slow(rng, kind))
        for kind in POWER_FAMILIES:
            B.run_oracle(ctx, 'close', gen_close_powers(rng, kind))
    for i in range(60):
        B.run_oracle(ctx, 'reuse', gen_reuse(rng, i))
    for what in TWO_ROLES:
        for j in range(4):
            B.run_oracle(ctx, 'reuse', gen_two_roles(rng, what))


# ------------------------------------------------------------------ correspondence
def _check(ctx, name, tag, arr, tol):
    """reply of the model against `arr`, relative to the data (no magnitude filter)"""
    arr = np.asarray(arr, dtype=complex).ravel()

    def chk(r):
        if r.startswith('error') or r == 'ok':
            return ctx.corr(name, tag, 'value', r, key=(name, tag))
        m = B.parse_cx(r)
        e = relerr(arr, m)
        return ctx.corr(name, tag, 'match', 'match' if e <= tol else 'relative error %.3g' % e, key=(name, tag, arr.size))
    return chk


def corr_close(ctx, b, quick):
    """R15 in the correspondence: the model sees the exact values"""
    rng = ctx.rng
    o = B._ofdm()
    # close integers: index map (model normal form and the functions regenerated from the source), padding, guards
    for F, C, U, U2 in (BIG_CONFIGS if quick else BIG_CONFIGS_THOROUGH):
        obj = o.OFDM(F, C, U)
        key = ('R15', F, C, U)
        idx = ','.join(map(str, np.asarray(obj.get_used_subcarrier_indexes()).tolist()))
        num = ','.join(map(str, np.asarray(obj._get_used_subcarrier_numbers()).tolist()))
        b.add('idx %d %d' % (F, U), lambda r, idx=idx, key=key: ctx.corr('R15.get_used_subcarrier_indexes', key, idx, r, key=key + ('idx',)))
        b.add('gidx %d %d' % (F, U), lambda r, idx=idx, key=key: ctx.corr('R15.generated.get_used_subcarrier_indexes', key, idx, r, key=key + ('gidx',)))
        b.add('gnum %d %d' % (F, U), lambda r, num=num, key=key: ctx.corr('R15.generated.get_used_subcarrier_numbers', key, num, r, key=key + ('gnum',)))
        for n in (U - 1, U, U + 1, 2 * U + 1):
            zp = '%d %d' % tuple(int(v) for v in obj._calc_zeropad(n))
            b.add('zeropad %d %d' % (U, n), lambda r, zp=zp, key=key, n=n: ctx.corr('R15._calc_zeropad', key + (n,), zp, r))
            b.add('gzeropad %d %d' % (U, n), lambda r, zp=zp, key=key, n=n: ctx.corr('R15.generated._calc_zeropad', key + (n,), zp, r))
        for trip in ((F, F + 1, U), (F, F, U), (F, C, U + 2), (F, C, U2), (F - 1, C, U), (F - 2, C, U)):
            impl = B.impl_params(*trip)
            b.add('params %d %d %d' % trip, lambda r, impl=impl, trip=trip: ctx.corr('R15.set_parameters', trip, impl, r))
        ctx.branch('R15:corr:close-integers')
    # ONE object, close-but-distinct signals / channels: pair histories
    for i in range(6 if quick else 60):
        kind = CLOSE_KINDS[i % len(CLOSE_KINDS)]
        tag = 'r15-%d' % i
        f, c, u = small_config(rng, fmax=20)
        obj = o.OFDM(f, c, u)
        eqz = o.OfdmOneTapEqualizer(obj)
        sf = core.f2s(math.sqrt(float(obj._calculate_power_scale())))
        delays, powers = benign_profile(rng, f, c)
        k = rng.randint(2, 3)
        xs = close_family(rng, kind, max(1, B.gen_length(rng, u)), k)
        draws = close_family(rng, kind, len(delays), k)
        ops, checks = [], []
        for x, dr in zip(xs, draws):
            dr = np.array(dr)
            if kind.startswith('tiny-'):
                dr[0] = dr[0] / abs(dr[0]) * float(kind[5:]) * 2.0
            ch = B.make_static_channel(delays, powers, dr)
            tx = obj.modulate(x.copy())
            rx = ch.corrupt_data(np.array(tx, copy=True))
            ir = ch.get_last_impulse_response()
            dem = obj.demodulate(np.array(rx[:tx.size], copy=True))
            out = eqz.equalize_data(np.array(dem, copy=True), ir)
            d = ','.join(str(int(v)) for v in np.asarray(ir.tap_indexes_sparse))
            vals = np.asarray(ir.tap_values_sparse, dtype=complex)
            _, cond = fp_equalize(f, u, dem, [int(v) for v in ir.tap_indexes_sparse], vals)
            ops += ['mod:%s:%s' % (sf, B.fl(x)), 'demod:%s:%s' % (sf, B.fl(rx[:tx.size])),
                    'eq:%s:%d:%s:%s' % (d, vals.shape[1], B.fl(vals), B.fl(dem))]
            checks += [_check(ctx, 'R15.modulate', tag, tx, TOL), _check(ctx, 'R15.demodulate', tag, dem, TOL),
                       _check(ctx, 'R15.equalize_data', tag, out, TOL + 1e-12 * cond)]
        B._pair_request(ctx, b, 'R15.' + kind, tag, (f, c, u), ops, checks, '%d %d %d' % (f, c, u))
        ctx.branch('R15:corr:close-values')
    for i in range(len(SLOW_KINDS) if quick else 40):
        case = gen_slow(rng, SLOW_KINDS[i % len(SLOW_KINDS)])
        f, c, u = case['fft'], case['cp'], case['used']
        eqz = o.OfdmOneTapEqualizer(o.OFDM(f, c, u))
        for j, st in enumerate(case['steps']):
            vals = np.array([B.cx(row) for row in st['vals']])
            data = B.cx(st['data'])
            out = eqz.equalize_data(data.copy(), build_ir(case['idx'], vals.copy()))
            _, cond = fp_equalize(f, u, data, case['idx'], vals)
            b.add('eq %d %d %d %s %d %s %s' % (f, c, u, ','.join(map(str, case['idx'])), vals.shape[1], B.fl(vals), B.fl(data)),
                  _check(ctx, 'R15.equalize_data.slowly-varying', 'slow-%d-%d' % (i, j), out, 1e-11 * max(1.0, cond)))
            tx = B.cx(st['tx'])
            ch = make_matrix_channel(case['idx'], vals)
            rx = ch.corrupt_data(tx.copy())
            rep = np.asarray(ch.get_last_impulse_response().tap_values_sparse, dtype=complex)
            b.add('corrupt %s %d %s %s' % (','.join(map(str, case['idx'])), rep.shape[1], B.fl(rep), B.fl(tx)),
                  _check(ctx, 'R15.corrupt_data.slowly-varying', 'slow-%d-%d' % (i, j), rx, 1e-11))
        ctx.branch('R15:corr:slowly-varying')
