"""C20 — subspace and linear-algebra kernels satisfy their defining identities
(DESIGN.md §5 C20).

Tie to source: hand model `lean/PyPhysim/Model/C20.lean` (polymorphic in the
scalar; proofs at any commutative star ring / C / R, driver at binary64).  The
external kernels (np.linalg.inv/qr/svd/eig(h), np.argsort) are *tapped* while
the real code runs: their actual arguments and results are recorded, the
results are handed to the model as parameters, the arguments are compared
with what the model says the code hands to the kernel, and the contract the
theorems assume of each result is checked numerically on every case.
The conversions are additionally regenerated from source
(`Generated/C20Conversion.lean`, plugin `harness/gen/c20.py`).
"""
import decimal
import math

import numpy as np

from harness import core

MODULE = 'PyPhysim.Properties.C20'
DRIVER = 'drv_c20'
CLAIM = {
    'technique': 'Lean 4 theorems (Mathlib matrices over a commutative star ring / C / R, real analysis) about an '
                 'executable polymorphic model; numpy kernels are contract parameters whose calls are tapped; '
                 'conversions regenerated from source; seeded differential correspondence at binary64',
    'text': 'For every matrix A and every left inverse G of A^H A (the contract of np.linalg.inv; over C such a G '
            'exists iff A has full column rank) the modelled projector is Hermitian, idempotent, fixes A, has a '
            'residual orthogonal to A, is complementary to the orthogonal projector; reflection is an involution; '
            'the projector is invariant under change of basis and covariant under unitary rotation. The '
            'projector-based chordal distances are symmetric, zero exactly for equal spans (both directions), '
            'basis- and rotation-invariant, equal to each other under the QR contract and equal to the '
            'principal-angle form for equal dimensions under the SVD contract (the cosines are proved <= 1). '
            'calc_whitening_matrix gives W^H C W = 1 for every Hermitian C whose eig and qr results satisfy their '
            'contracts with positive eigenvalues (repeated eigenvalues included). update_inv_sum_diag returns, for '
            'every diagonal length <= n, a left inverse of A + D whenever the pivots are non-zero, which holds '
            'whenever every partial sum is invertible; longer diagonals give IndexError. peig / leig / '
            'least_right_singular_vectors / get_principal_component_matrix select exactly what their names say for '
            'every argsort / eig / svd result satisfying its contract. dB/linear/dBm and SNR/EbN0 conversions '
            '(definitions regenerated from the source) are mutually inverse on the (positive) reals.',
    'note': 'trusted: numpy kernels (contracts checked numerically on every case, not proved), binary64 rounding '
            '(correspondence compared within 1e-9 of the absolute-value product bound), the harness and the '
            'conversion translator plugin. PARTIAL: gmd - the full statement GmdStatement is not proved; its '
            'executable model is tied by correspondence, each Givens step is proved '
            '(gmd_rotation_step_partial) and the decomposition is checked numerically per case. KNOWN FINDING: the '
            'principal-angle chordal distance disagrees with the projector forms for subspaces of different '
            'dimension (negative witness chordal_angles_disagree_when_dims_differ). Four defects fixed in the '
            'worktree (whitening with repeated eigenvalues; get_principal_component_matrix integer dtype and wide '
            'matrices; least_right_singular_vectors on wide matrices): the model mirrors the repaired code, so '
            'the check alarms on a tree without those commits.',
}

EPS = 2.220446049250313e-16


def _impl():
    from pyphysim.subspace import metrics, projections
    from pyphysim.util import conversion, misc
    return projections, metrics, misc, conversion


# ------------------------------------------------------------------ helpers
def enc(a):
    a = np.asarray(a)
    flat = a.reshape(-1)
    if np.iscomplexobj(a):
        data = [[float(z.real), float(z.imag)] for z in flat]
        kind = 'c'
    elif a.dtype.kind in 'iu':
        data = [int(z) for z in flat]
        kind = 'i'
    else:
        data = [float(z) for z in flat]
        kind = 'f'
    return {'shape': list(a.shape), 'kind': kind, 'data': data}


def dec(d):
    if d['kind'] == 'c':
        a = np.array([complex(re, im) for re, im in d['data']], dtype=complex)
    elif d['kind'] == 'i':
        a = np.array(d['data'], dtype=np.int64)
    else:
        a = np.array(d['data'], dtype=float)
    return a.reshape(d['shape'])


def H(a):
    return a.conj().T


def cline(a):
    """row-major, every scalar as re,im bit patterns"""
    flat = np.asarray(a, dtype=complex).reshape(-1)
    if flat.size == 0:
        return '-'
    return ','.join(core.f2s(z.real) + ',' + core.f2s(z.imag) for z in flat)


def fline(a):
    flat = np.asarray(a, dtype=float).reshape(-1)
    if flat.size == 0:
        return '-'
    return ','.join(core.f2s(x) for x in flat)


def parse_c(s, shape):
    if s == '':
        return np.zeros(shape, dtype=complex)
    v = [core.s2f(t) for t in s.split(',')]
    return (np.array(v[0::2]) + 1j * np.array(v[1::2])).reshape(shape)


def parse_f(s):
    if s == '':
        return np.zeros(0)
    return np.array([core.s2f(t) for t in s.split(',')])


def within(impl, model, bound, rtol=1e-9):
    """|impl - model| <= rtol * bound entrywise (bound = product of absolute values: the
    forward-error scale of two different summation orders)"""
    impl = np.asarray(impl)
    model = np.asarray(model)
    if impl.shape != model.shape:
        return False, 'shape %s vs %s' % (impl.shape, model.shape)
    if impl.size == 0:
        return True, ''
    if not (np.all(np.isfinite(impl)) and np.all(np.isfinite(model))):
        return False, 'non-finite'
    err = np.abs(impl - model)
    lim = rtol * np.maximum(np.asarray(bound, dtype=float), 1e-300)
    bad = err > lim
    if np.any(bad):
        return False, 'max err %.3e (limit %.3e)' % (float(err.max()), float(np.broadcast_to(lim, err.shape)[bad].min()))
    return True, ''


class Tap:
    """record (name, args, result) of every kernel call made while the real code runs"""
    NAMES = ('inv', 'qr', 'svd', 'eig', 'eigh')

    def __enter__(self):
        self.log = []
        self.saved = {n: getattr(np.linalg, n) for n in self.NAMES}
        self.saved_argsort = np.argsort
        for n, f in self.saved.items():
            setattr(np.linalg, n, self._wrap(n, f))
        np.argsort = self._wrap('argsort', self.saved_argsort)
        return self

    def _wrap(self, name, f):
        def g(*a, **kw):
            r = f(*a, **kw)
            self.log.append((name, [np.array(x, copy=True) if isinstance(x, np.ndarray) else x for x in a], kw,
                             tuple(np.array(x, copy=True) for x in r) if isinstance(r, tuple) else np.array(r, copy=True)))
            return r
        return g

    def __exit__(self, *exc):
        for n, f in self.saved.items():
            setattr(np.linalg, n, f)
        np.argsort = self.saved_argsort
        return False

    def calls(self, name):
        return [c for c in self.log if c[0] == name]


# --------------------------------------------------------------- generators
class Gen:
    def __init__(self, rng):
        self.rng = rng
        self.rs = np.random.RandomState(rng.u64() % (2 ** 32))

    def raw(self, m, k, cplx):
        a = self.rs.randn(m, k)
        return a + 1j * self.rs.randn(m, k) if cplx else a

    def unitary(self, n, cplx):
        q, r = np.linalg.qr(self.raw(n, n, cplx))
        d = np.diag(r)
        return q * (d / np.abs(d))

    def full_rank(self, m, k, cplx, kind=None, max_cond=1e6):
        """m x k, k <= m, full column rank, cond <= max_cond; returns (A, kind)"""
        assert k <= m
        kind = kind or self.rng.choice(['gauss', 'gauss', 'gint', 'cond', 'neardep'])
        for _ in range(200):
            if kind == 'gauss':
                a = self.raw(m, k, cplx)
            elif kind == 'gint':
                a = self.rs.randint(-3, 4, size=(m, k)).astype(float)
                if cplx:
                    a = a + 1j * self.rs.randint(-3, 4, size=(m, k))
            elif kind == 'cond':
                cond = 10.0 ** self.rng.uniform(0, math.log10(max_cond) - 0.3)
                if k > 1:   # random spectrum between 1 and 1/cond (end points fixed)
                    mid = sorted((self.rng.uniform(0, 1) for _ in range(k - 2)))
                    s = np.exp(-math.log(cond) * np.array([0.0] + mid + [1.0]))
                else:
                    s = np.ones(1)
                u = self.unitary(m, cplx)[:, :k]
                v = self.unitary(k, cplx)
                a = (u * s) @ H(v) * 10.0 ** self.rng.uniform(-2, 2)
            else:  # nearly dependent columns
                a = self.raw(m, k, cplx)
                if k >= 2:
                    eps = 10.0 ** self.rng.uniform(-math.log10(max_cond) + 1.0, -1)
                    w = self.raw(k - 1, 1, cplx)
                    a[:, -1:] = a[:, :-1] @ w + eps * a[:, -1:]
            if np.linalg.matrix_rank(a) == k and np.linalg.cond(a) <= max_cond:
                return a, kind
            if kind in ('cond', 'neardep'):
                continue
        return self.raw(m, k, cplx), 'gauss'

    def hpd(self, n, cplx, kind=None):
        """Hermitian positive definite covariance; returns (C, kind)"""
        kind = kind or self.rng.choice(['wishart', 'wishart', 'rank1', 'spectrum', 'diag', 'ident'])
        if kind == 'wishart':
            a = self.raw(n, n + 2, cplx)
            c = a @ H(a)
        elif kind == 'rank1':  # white noise + one interferer: eigenvalue 1 with multiplicity n-1
            v = self.raw(n, 1, cplx)
            c = np.eye(n) * (10.0 ** self.rng.uniform(-1, 1)) + v @ H(v)
        elif kind == 'spectrum':  # prescribed spectrum with a repeated value
            u = self.unitary(n, cplx)
            d = np.array([float(self.rng.randint(1, 4)) for _ in range(n)])
            c = (u * d) @ H(u)
        elif kind == 'diag':
            c = np.diag([float(self.rng.randint(1, 3)) for _ in range(n)]).astype(complex if cplx else float)
        else:
            c = np.eye(n, dtype=complex if cplx else float) * float(self.rng.randint(1, 5))
        c = (c + H(c)) / 2
        return c, kind


HPD_KINDS = ['wishart', 'rank1', 'spectrum', 'wishart', 'diag', 'ident']


def cond2(a):
    return float(np.linalg.cond(a))


def abs3(a, g, b):
    return np.abs(a) @ np.abs(g) @ np.abs(b)


# ------------------------------------------------------------------ oracles
# each takes a JSON-serialisable case and returns None (holds) or (class, detail)
def ref_projector(a):
    """orthogonal projector onto range(a) from an SVD basis (independent of the formula under test)"""
    u, s, _ = np.linalg.svd(a, full_matrices=False)
    r = int(np.sum(s > s[0] * 1e-13)) if s.size else 0
    u = u[:, :r]
    return u @ H(u)


def o_projection(case):
    proj, _, _, _ = _impl()
    a = dec(case['A'])
    mm = dec(case['M'])
    m = a.shape[0]
    c2 = cond2(a) ** 2
    tol = max(1e-9, 200 * EPS * c2 * m)
    p = proj.calcProjectionMatrix(a)
    op = proj.calcOrthogonalProjectionMatrix(a)
    obj = proj.Projection(a)
    eye = np.eye(m)
    cls_sfx = ':cond>1e4' if c2 > 1e8 else ''
    checks = [
        ('not-hermitian', np.abs(p - H(p)).max()),
        ('not-idempotent', np.abs(p @ p - p).max()),
        ('does-not-fix-A', np.abs(p @ a - a).max() / max(1.0, np.abs(a).max())),
        ('not-the-column-space-projector', np.abs(p - ref_projector(a)).max()),
        ('not-complementary', np.abs(p + op - eye).max()),
        ('oproj-not-annihilating-A', np.abs(op @ a).max() / max(1.0, np.abs(a).max())),
        ('oproj-not-idempotent', np.abs(op @ op - op).max()),
        ('project-method', np.abs(obj.project(mm) - ref_projector(a) @ mm).max() / max(1.0, np.abs(mm).max())),
        ('oproject-method', np.abs(obj.project(mm) + obj.oProject(mm) - mm).max() / max(1.0, np.abs(mm).max())),
        ('reflect-not-involutive', np.abs(obj.reflect(obj.reflect(mm)) - mm).max() / max(1.0, np.abs(mm).max())),
        ('reflect-wrong', np.abs(obj.reflect(mm) - (mm - 2 * ref_projector(a) @ mm)).max()
         / max(1.0, np.abs(mm).max())),
    ]
    for name, err in checks:
        if not (err <= tol):
            return name + cls_sfx, 'error %.3e > %.3e (cond(A)=%.2e)' % (err, tol, math.sqrt(c2))
    return None


def o_projection_invariance(case):
    proj, _, _, _ = _impl()
    a = dec(case['A'])
    t = dec(case['T'])
    u = dec(case['U'])
    m = a.shape[0]
    c2 = max(cond2(a), cond2(a @ t)) ** 2
    tol = max(1e-9, 200 * EPS * c2 * m)
    p = proj.calcProjectionMatrix(a)
    pb = proj.calcProjectionMatrix(a @ t)
    pu = proj.calcProjectionMatrix(u @ a)
    e1 = np.abs(pb - p).max()
    if not e1 <= tol:
        return 'basis-change-changes-projector', 'error %.3e > %.3e' % (e1, tol)
    e2 = np.abs(pu - u @ p @ H(u)).max()
    if not e2 <= tol:
        return 'not-unitary-covariant', 'error %.3e > %.3e' % (e2, tol)
    return None


def ref_chordal_sq(a, b):
    """(p+q)/2 - sum cos^2 of the principal angles, from SVD bases"""
    ua = np.linalg.svd(a, full_matrices=False)[0]
    ub = np.linalg.svd(b, full_matrices=False)[0]
    p, q = ua.shape[1], ub.shape[1]
    s = np.linalg.svd(H(ua) @ ub, compute_uv=False)
    return max(0.0, (p + q) / 2.0 - float(np.sum(np.minimum(s, 1.0) ** 2)))


def three_distances(a, b):
    _, met, _, _ = _impl()
    d1 = float(met.calc_chordal_distance(a, b))
    d2 = float(met.calc_chordal_distance_2(a, b))
    d3 = float(met.calc_chordal_distance_from_principal_angles(met.calc_principal_angles(a, b)))
    return d1, d2, d3


def o_chordal(case):
    _, met, _, _ = _impl()
    a = dec(case['A'])
    b = dec(case['B'])
    p, q = a.shape[1], b.shape[1]
    c2 = max(cond2(a), cond2(b)) ** 2
    tol = max(1e-9, 400 * EPS * c2 * a.shape[0])
    d1, d2, d3 = three_distances(a, b)
    ref = ref_chordal_sq(a, b)
    if not abs(d1 * d1 - ref) <= tol:
        return 'chordal-wrong', 'calc_chordal_distance^2=%r reference=%r' % (d1 * d1, ref)
    if not abs(d2 * d2 - ref) <= tol:
        return 'chordal2-wrong', 'calc_chordal_distance_2^2=%r reference=%r' % (d2 * d2, ref)
    if not abs(d3 * d3 - d1 * d1) <= tol:
        cls = 'disagree:dims-equal' if p == q else 'disagree:dims-differ'
        return cls, 'principal-angle form %r, projector forms %r / %r (p=%d q=%d)' % (d3, d1, d2, p, q)
    e1, e2, e3 = three_distances(b, a)
    for x, y, nm in ((d1, e1, 'chordal'), (d2, e2, 'chordal2'), (d3, e3, 'angles')):
        if not abs(x * x - y * y) <= tol:
            return 'not-symmetric:' + nm, 'd(A,B)=%r d(B,A)=%r' % (x, y)
    return None


def o_chordal_invariance(case):
    a = dec(case['A'])
    b = dec(case['B'])
    ta = dec(case['TA'])
    tb = dec(case['TB'])
    u = dec(case['U'])
    c2 = max(cond2(a), cond2(b), cond2(a @ ta), cond2(b @ tb)) ** 2
    tol = max(1e-9, 400 * EPS * c2 * a.shape[0])
    base = three_distances(a, b)
    z = three_distances(a, a @ ta)
    names = ('chordal', 'chordal2', 'angles')
    for d, nm in zip(z, names):
        if not d * d <= tol:
            return 'nonzero-for-equal-span:' + nm, 'd(A, A T)=%r' % d
    nb = three_distances(a @ ta, b @ tb)
    for d, e, nm in zip(base, nb, names):
        if not abs(d * d - e * e) <= tol:
            return 'not-basis-invariant:' + nm, 'd(A,B)=%r d(A T1,B T2)=%r' % (d, e)
    nu = three_distances(u @ a, u @ b)
    for d, e, nm in zip(base, nu, names):
        if not abs(d * d - e * e) <= tol:
            return 'not-unitary-invariant:' + nm, 'd(A,B)=%r d(UA,UB)=%r' % (d, e)
    return None


def o_gmd(case):
    _, _, misc, _ = _impl()
    a = dec(case['A'])
    m, n = a.shape
    u, s, vh = np.linalg.svd(a)
    u0, s0, vh0 = u.copy(), s.copy(), vh.copy()
    q, r, p = misc.gmd(u, s, vh)
    if not (np.array_equal(u, u0) and np.array_equal(s, s0) and np.array_equal(vh, vh0)):
        return 'inputs-modified', 'gmd changed its arguments'
    k = min(m, n)
    scale = max(1.0, s[0])
    tol = 1e-9 * max(1.0, (s[0] / s[-1]))
    if q.shape != (m, m) or r.shape != (m, n) or p.shape != (n, n):
        return 'shape', 'shapes %s %s %s' % (q.shape, r.shape, p.shape)
    e = np.abs(q @ r @ H(p) - a).max() / scale
    if not e <= tol:
        return 'does-not-reconstruct', 'max |Q R P^H - A| / s1 = %.3e' % e
    e = max(np.abs(H(q) @ q - np.eye(m)).max(), np.abs(H(p) @ p - np.eye(n)).max())
    if not e <= tol:
        return 'factors-not-orthonormal', 'max deviation %.3e' % e
    if np.any(np.tril(r, -1) != 0):
        return 'R-not-upper-triangular', 'non-zero entry below the diagonal'
    gm = math.exp(float(np.mean(np.log(s))))
    e = np.abs(np.diag(r)[:k] - gm).max() / gm
    if not e <= tol:
        return 'diagonal-not-geometric-mean', 'diag(R)=%r geometric mean=%r' % (np.diag(r)[:k].tolist(), gm)
    return None


def eig_gap_class(c):
    w = np.linalg.eigvalsh(c)
    if w.size < 2:
        return 'distinct-eigenvalues'
    gap = np.min(np.diff(w)) / max(abs(w[-1]), 1e-300)
    return 'repeated-eigenvalue' if gap < 1e-6 else 'distinct-eigenvalues'


def o_whitening(case):
    _, _, misc, _ = _impl()
    c = dec(case['C'])
    n = c.shape[0]
    w = misc.calc_whitening_matrix(c)
    tol = max(1e-9, 200 * EPS * cond2(c) * n)
    e = np.abs(H(w) @ c @ w - np.eye(n)).max()
    if not e <= tol:
        return 'not-identity:' + eig_gap_class(c), 'max |W^H C W - I| = %.3e' % e
    return None


def o_update_inv(case):
    _, _, misc, _ = _impl()
    a = dec(case['A'])
    d = dec(case['d'])
    n = a.shape[0]
    inv_a = np.linalg.inv(a)
    inv0 = inv_a.copy()
    out = misc.update_inv_sum_diag(inv_a, d)
    if not np.array_equal(inv_a, inv0):
        return 'input-modified', 'invA changed'
    full = np.zeros(n, dtype=d.dtype)
    full[:d.size] = d
    target = a + np.diag(full)
    conds = [cond2(a)] + [cond2(a + np.diag(np.concatenate([full[:i + 1], np.zeros(n - i - 1)]))) for i in range(d.size)]
    tol = max(1e-9, 500 * EPS * max(conds) ** 2 * n)
    e = np.abs(out @ target - np.eye(n)).max()
    if not e <= tol:
        return 'not-the-inverse', 'max |out (A+D) - I| = %.3e (tol %.3e)' % (e, tol)
    return None


def o_eig_select(case):
    _, _, misc, _ = _impl()
    a = dec(case['A'])
    n = int(case['n'])
    which = case['which']
    fn = misc.peig if which == 'peig' else misc.leig
    ncols = a.shape[1]
    if n > ncols:
        try:
            fn(a, n)
        except ValueError:
            return None
        return 'no-ValueError-for-n>ncols', 'n=%d ncols=%d' % (n, ncols)
    v, d = fn(a, n)
    if v.shape != (a.shape[0], n) or d.shape != (n,):
        return 'shape', 'V %s D %s' % (v.shape, d.shape)
    w = np.linalg.eigvalsh(a)               # ascending, independent kernel
    want = w[::-1][:n] if which == 'peig' else w[:n]
    scale = max(1.0, np.abs(w).max())
    tol = 1e-9 * scale
    if not np.all(np.abs(np.asarray(d) - want) <= tol):
        return 'wrong-eigenvalues-selected', 'got %r want %r' % (np.asarray(d).tolist(), want.tolist())
    res = np.abs(a @ v - v * d).max() if n else 0.0
    if not res <= 1e-8 * scale:
        return 'not-eigenvectors', 'residual %.3e' % res
    nrm = np.abs(np.linalg.norm(v, axis=0) - 1).max() if n else 0.0
    if not nrm <= 1e-9:
        return 'not-unit-norm', 'deviation %.3e' % nrm
    return None


def lrsv_class(a, n):
    m, c = a.shape
    return 'wide:n<ncols-nrows' if (m < c and n < c - m) else 'other'


def o_lrsv(case):
    _, _, misc, _ = _impl()
    a = dec(case['A'])
    n = int(case['n'])
    m, c = a.shape
    try:
        v0, v1, s1 = misc.least_right_singular_vectors(a, n)
    except Exception as e:
        return 'exception:' + lrsv_class(a, n), repr(e)[:200]
    if v0.shape != (c, n) or v1.shape != (c, c - n) or s1.shape != (c - n,):
        return 'shape:' + lrsv_class(a, n), 'V0 %s V1 %s S %s' % (v0.shape, v1.shape, s1.shape)
    sv = np.zeros(c)
    sv[:min(m, c)] = np.linalg.svd(a, compute_uv=False)
    asc = sv[::-1]
    scale = max(1.0, sv[0])
    tol = 1e-9 * scale
    v = np.hstack([v0, v1])
    e = np.abs(H(v) @ v - np.eye(c)).max()
    if not e <= 1e-9:
        return 'not-orthonormal', 'deviation %.3e' % e
    n0 = np.linalg.norm(a @ v0, axis=0)
    if not np.all(np.abs(n0 - asc[:n]) <= tol):
        return 'V0-not-least', '|A v0|=%r least singular values=%r' % (n0.tolist(), asc[:n].tolist())
    if not np.all(np.abs(np.asarray(s1) - asc[n:]) <= tol):
        return 'S-wrong', 'S=%r expected %r' % (np.asarray(s1).tolist(), asc[n:].tolist())
    n1 = np.linalg.norm(a @ v1, axis=0)
    if not np.all(np.abs(n1 - np.asarray(s1)) <= tol):
        return 'S-does-not-belong-to-V1', '|A v1|=%r S=%r' % (n1.tolist(), np.asarray(s1).tolist())
    return None


def gpcm_class(a):
    m, c = a.shape
    if m < c:
        return 'wide'
    if a.dtype.kind in 'iu':
        return 'int-dtype'
    return 'tall-float'


def o_gpcm(case):
    _, _, misc, _ = _impl()
    a = dec(case['A'])
    k = int(case['k'])
    m, c = a.shape
    try:
        out = misc.get_principal_component_matrix(a, k)
    except Exception as e:
        return 'exception:' + gpcm_class(a), repr(e)[:200]
    af = a.astype(complex)
    u, s, vh = np.linalg.svd(af, full_matrices=False)
    ak = (u[:, :k] * s[:k]) @ vh[:k, :]          # best rank-k approximation (unique: the generator keeps a gap)
    want = ak[:, :k]
    if out.shape != want.shape:
        return 'shape:' + gpcm_class(a), 'shape %s expected %s' % (out.shape, want.shape)
    gap = (s[k - 1] - (s[k] if k < s.size else 0.0)) / s[0] if k >= 1 else 1.0
    tol = 1e-9 * max(1.0, s[0]) / max(gap, 1e-6)
    e = np.abs(out - want).max()
    if not e <= tol:
        return 'not-principal-components:' + gpcm_class(a), 'max deviation %.3e' % e
    return None


def dlog10(x):
    return decimal.Decimal(x).log10()


def o_conversion(case):
    _, _, _, conv = _impl()
    decimal.getcontext().prec = 60
    x = float(case['x'])          # positive linear value
    y = float(case['y'])          # dB value
    b = int(case['bits'])
    rt = 1e-12
    # definitions against 60-digit decimal arithmetic
    ref_db = float(10 * dlog10(x))
    if not abs(conv.linear2dB(x) - ref_db) <= rt * max(1.0, abs(ref_db)):
        return 'linear2dB-wrong', 'linear2dB(%r)=%r reference %r' % (x, conv.linear2dB(x), ref_db)
    ref_lin = float(decimal.Decimal(10) ** (decimal.Decimal(y) / 10))
    if not abs(conv.dB2Linear(y) - ref_lin) <= rt * ref_lin:
        return 'dB2Linear-wrong', 'dB2Linear(%r)=%r reference %r' % (y, conv.dB2Linear(y), ref_lin)
    ref_dbm = float(10 * dlog10(x) + 30)
    if not abs(conv.linear2dBm(x) - ref_dbm) <= rt * max(1.0, abs(ref_dbm)):
        return 'linear2dBm-wrong', 'linear2dBm(%r)=%r reference %r' % (x, conv.linear2dBm(x), ref_dbm)
    ref_lin_m = float(decimal.Decimal(10) ** ((decimal.Decimal(y) - 30) / 10))
    if not abs(conv.dBm2Linear(y) - ref_lin_m) <= rt * ref_lin_m:
        return 'dBm2Linear-wrong', 'dBm2Linear(%r)=%r reference %r' % (y, conv.dBm2Linear(y), ref_lin_m)
    # round trips
    r = conv.dB2Linear(conv.linear2dB(x))
    if not abs(r - x) <= 1e-11 * x:
        return 'roundtrip:linear->dB->linear', '%r -> %r' % (x, r)
    r = conv.linear2dB(conv.dB2Linear(y))
    if not abs(r - y) <= 1e-11 * max(1.0, abs(y)):
        return 'roundtrip:dB->linear->dB', '%r -> %r' % (y, r)
    r = conv.dBm2Linear(conv.linear2dBm(x))
    if not abs(r - x) <= 1e-11 * x:
        return 'roundtrip:linear->dBm->linear', '%r -> %r' % (x, r)
    r = conv.linear2dBm(conv.dBm2Linear(y))
    if not abs(r - y) <= 1e-11 * max(1.0, abs(y)):
        return 'roundtrip:dBm->linear->dBm', '%r -> %r' % (y, r)
    e = conv.SNR_dB_to_EbN0_dB(y, b)
    ref_e = float(decimal.Decimal(y) - 10 * dlog10(b))
    if not abs(e - ref_e) <= rt * max(1.0, abs(ref_e)):
        return 'SNR_dB_to_EbN0_dB-wrong', 'got %r reference %r' % (e, ref_e)
    r = conv.EbN0_dB_to_SNR_dB(e, b)
    if not abs(r - y) <= 1e-11 * max(1.0, abs(y)):
        return 'roundtrip:SNR->EbN0->SNR', '%r -> %r' % (y, r)
    r = conv.SNR_dB_to_EbN0_dB(conv.EbN0_dB_to_SNR_dB(y, b), b)
    if not abs(r - y) <= 1e-11 * max(1.0, abs(y)):
        return 'roundtrip:EbN0->SNR->EbN0', '%r -> %r' % (y, r)
    # array path
    arr = np.array([x, 2 * x, x / 3])
    r = conv.dB2Linear(conv.linear2dB(arr))
    if not np.all(np.abs(r - arr) <= 1e-11 * arr):
        return 'roundtrip:array', '%r -> %r' % (arr.tolist(), r.tolist())
    return None


ORACLES = {
    'Projection': o_projection,
    'calcProjectionMatrix.invariance': o_projection_invariance,
    'calc_chordal_distance': o_chordal,
    'calc_chordal_distance.invariance': o_chordal_invariance,
    'gmd': o_gmd,
    'calc_whitening_matrix': o_whitening,
    'update_inv_sum_diag': o_update_inv,
    'peig/leig': o_eig_select,
    'least_right_singular_vectors': o_lrsv,
    'get_principal_component_matrix': o_gpcm,
    'conversion': o_conversion,
}


def run_oracle(ctx, call, case, key=None, nontrivial=True):
    ctx.count((call, key if key is not None else core.hashlib.sha1(repr(case).encode()).hexdigest()), nontrivial)
    try:
        r = ORACLES[call](case)
    except Exception as e:  # an exception where the property promises a value
        r = ('exception:' + type(e).__name__, repr(e)[:300])
    if r is not None:
        ctx.fail(call, r[0], case, r[1])
        ctx.branch('oracle-fail:' + call)
    else:
        ctx.branch('oracle-ok:' + call)
    return r


def replay(ctx, rep):
    try:
        r = ORACLES[rep['call']](rep['case'])
    except Exception:
        return True
    return r is not None


# ------------------------------------------------------------ case streams
def shapes(rng, tier):
    m = rng.randint(1, 8)
    k = rng.randint(1, m)
    return m, k


PROJ_KINDS = ['gauss', 'gint', 'cond', 'neardep', 'gauss']


def gen_proj_case(g, t=None):
    rng = g.rng
    m, k = shapes(rng, None)
    if t is not None and t % 10 == 3:
        m = max(m, 2)
        k = rng.randint(2, m)          # nearly dependent columns need two columns
    cplx = rng.chance(0.6) if t is None else (t % 2 == 0)
    a, kind = g.full_rank(m, k, cplx, kind=None if t is None else PROJ_KINDS[t % 5])
    c = rng.randint(1, 4)
    mm = g.raw(m, c, cplx or rng.chance(0.3))
    return a, mm, kind


def gen_pair(g, equal_dims=True):
    rng = g.rng
    m = rng.randint(1, 8) if equal_dims else rng.randint(2, 8)
    p = rng.randint(1, m)
    q = p if equal_dims else rng.choice([x for x in range(1, m + 1) if x != p])
    cplx = rng.chance(0.6)
    a, ka = g.full_rank(m, p, cplx, max_cond=1e4)
    b, kb = g.full_rank(m, q, cplx, max_cond=1e4)
    if rng.chance(0.15) and p == q:      # share part of the span
        j = rng.randint(1, p)
        b = b.copy()
        b[:, :j] = a[:, :j]
        if np.linalg.matrix_rank(b) < q or cond2(b) > 1e4:
            b, kb = g.full_rank(m, q, cplx, max_cond=1e4)
    return a, b, cplx


def gen_uisd_case(g, short=None):
    rng = g.rng
    n = rng.randint(1, 8)
    cplx = rng.chance(0.6)
    for _ in range(100):
        if rng.chance(0.6):
            c, _ = g.hpd(n, cplx, 'wishart')
            a = c
            d = np.array([10.0 ** rng.uniform(-2, 1) for _ in range(n)])
        else:
            a, _ = g.full_rank(n, n, cplx, max_cond=1e3)
            d = g.rs.randn(n) * 10.0 ** rng.uniform(-1, 1)
        if short is None:
            ln = n if rng.chance(0.8) else rng.randint(0, n)
        else:
            ln = rng.randint(0, n - 1) if short else n
        d = d[:ln]
        if cplx and rng.chance(0.3):
            d = d + 1j * g.rs.randn(ln)
        full = np.zeros(n, dtype=complex)
        full[:ln] = d
        ok = cond2(a) <= 1e3
        for i in range(ln):
            part = full.copy()
            part[i + 1:] = 0
            ok = ok and cond2(a + np.diag(part)) <= 1e3
        if ok:
            return a, d
    return np.eye(n, dtype=complex if cplx else float), np.ones(n)


def gen_herm(g, margin=True):
    """Hermitian matrix with eigenvalue gaps >= 1e-3 relative (no near-ties for the argsort decision)"""
    rng = g.rng
    n = rng.randint(1, 8)
    cplx = rng.chance(0.6)
    for _ in range(100):
        kind = rng.choice(['wishart', 'indef', 'gint'])
        if kind == 'wishart':
            x = g.raw(n, n + 1, cplx)
            a = x @ H(x)
        elif kind == 'indef':
            x = g.raw(n, n, cplx)
            a = x + H(x)
        else:
            x = g.rs.randint(-3, 4, size=(n, n)).astype(float)
            if cplx:
                x = x + 1j * g.rs.randint(-3, 4, size=(n, n))
            a = x + H(x)
        a = (a + H(a)) / 2
        w = np.linalg.eigvalsh(a)
        if not margin or n < 2 or np.min(np.diff(w)) >= 1e-3 * max(1.0, np.abs(w).max()):
            return a
    return np.diag(np.arange(1.0, n + 1))


def gen_rect(g, gap_at=None):
    """any shape 1..8 x 1..8, bounded condition"""
    rng = g.rng
    m = rng.randint(1, 8)
    c = rng.randint(1, 8)
    cplx = rng.chance(0.6)
    if m >= c:
        a, _ = g.full_rank(m, c, cplx, kind=rng.choice(['gauss', 'gint', 'cond']), max_cond=1e4)
    else:
        a, _ = g.full_rank(c, m, cplx, kind=rng.choice(['gauss', 'gint', 'cond']), max_cond=1e4)
        a = a.T.copy()
    return a


# ------------------------------------------------------------ correspondence
def corr_projection(ctx, g, drv, n_cases):
    proj, _, _, _ = _impl()
    cases = []
    lines = []
    for t in range(n_cases):
        a, mm, kind = gen_proj_case(g, t)
        m, k = a.shape
        with Tap() as tap:
            p = proj.calcProjectionMatrix(a)
        invs = tap.calls('inv')
        with Tap() as tap2:
            op = proj.calcOrthogonalProjectionMatrix(a)
        obj = proj.Projection(a)
        pm, om, rm = obj.project(mm), obj.oProject(mm), obj.reflect(mm)
        ok_calls = len(invs) == 1 and len(tap.log) == 1 and len(tap2.calls('inv')) == 1 and len(tap2.log) == 1
        if not ok_calls:
            ctx.corr('calcProjectionMatrix.kernel-calls', enc(a), 'calls=%s' % [c[0] for c in tap.log], 'calls=[inv]')
            continue
        arg, gmat = invs[0][1][0], invs[0][3]
        cases.append((a, mm, kind, p, op, pm, om, rm, arg, gmat, obj))
        lines.append('proj %d %d %s %s' % (m, k, cline(a), cline(gmat)))
        lines.append('apply %d %d %s %s' % (m, mm.shape[1], cline(obj.Q), cline(mm)))
        lines.append('apply %d %d %s %s' % (m, mm.shape[1], cline(obj.oQ), cline(mm)))
    out = drv.ask(lines)
    for i, (a, mm, kind, p, op, pm, om, rm, arg, gmat, obj) in enumerate(cases):
        m, k = a.shape
        cplx = np.iscomplexobj(a)
        key = ('proj', m, k, cplx, kind)
        case = {'A': enc(a), 'M': enc(mm)}
        ctx.branch('proj:' + kind)
        ctx.branch('complex' if cplx else 'real')
        ctx.branch('square' if m == k else 'tall')
        g_s, p_s, o_s = out[3 * i].split('|')
        # (1) what the code hands to the kernel is what the model says
        ok, why = within(arg, parse_c(g_s, (k, k)), np.abs(H(a)) @ np.abs(a))
        ctx.corr('calcProjectionMatrix.inv-argument', case, 'agree' if ok else 'differs: ' + why, 'agree',
                 key=key + ('arg', i))
        # (2) contract of the kernel result assumed by the theorems: G (A^H A) = 1
        gram = H(a) @ a
        c2 = cond2(a) ** 2
        res = np.abs(gmat @ gram - np.eye(k)).max()
        if not res <= max(1e-9, 100 * EPS * c2 * k):
            ctx.tie_broken('correspondence', 'contract:inv', 'G (A^H A) - I = %.3e (cond^2 %.2e)' % (res, c2), case)
        # (3) outputs
        bound = abs3(a, gmat, H(a))
        ok, why = within(p, parse_c(p_s, (m, m)), bound)
        ctx.corr('calcProjectionMatrix', case, 'agree' if ok else 'differs: ' + why, 'agree', key=key + ('P', i))
        ok, why = within(op, parse_c(o_s, (m, m)), bound + np.eye(m))
        ctx.corr('calcOrthogonalProjectionMatrix', case, 'agree' if ok else 'differs: ' + why, 'agree',
                 key=key + ('oP', i))
        ok1 = np.array_equal(obj.Q, p) and np.array_equal(obj.oQ, op)
        ctx.corr('Projection.__init__', case, 'Q,oQ=static results' if ok1 else 'differs', 'Q,oQ=static results',
                 key=key + ('init', i))
        c = mm.shape[1]
        pr_s, rf_s = out[3 * i + 1].split('|')
        bnd = np.abs(obj.Q) @ np.abs(mm)
        ok, why = within(pm, parse_c(pr_s, (m, c)), bnd)
        ctx.corr('Projection.project', case, 'agree' if ok else 'differs: ' + why, 'agree', key=key + ('pm', i))
        ok, why = within(rm, parse_c(rf_s, (m, c)), (np.eye(m) + 2 * np.abs(obj.Q)) @ np.abs(mm))
        ctx.corr('Projection.reflect', case, 'agree' if ok else 'differs: ' + why, 'agree', key=key + ('rm', i))
        opr_s, _ = out[3 * i + 2].split('|')
        ok, why = within(om, parse_c(opr_s, (m, c)), np.abs(obj.oQ) @ np.abs(mm))
        ctx.corr('Projection.oProject', case, 'agree' if ok else 'differs: ' + why, 'agree', key=key + ('om', i))
        if i < 2:
            ctx.sample({'call': 'calcProjectionMatrix', 'A': enc(a), 'impl_P00': complex(p[0, 0]),
                        'model_P00': complex(parse_c(p_s, (m, m))[0, 0])})


def corr_chordal(ctx, g, drv, n_cases):
    _, met, _, _ = _impl()
    cases, lines = [], []
    for t in range(n_cases):
        a, b, cplx = gen_pair(g, equal_dims=(t % 5 != 4))
        m, p = a.shape
        q = b.shape[1]
        with Tap() as t2:
            d2 = float(met.calc_chordal_distance_2(a, b))
        with Tap() as t1:
            d1 = float(met.calc_chordal_distance(a, b))
        with Tap() as t3:
            ang = met.calc_principal_angles(a, b)
        d3 = float(met.calc_chordal_distance_from_principal_angles(ang))
        names = ([c[0] for c in t2.log], [c[0] for c in t1.log], [c[0] for c in t3.log])
        if names != (['inv', 'inv'], ['qr', 'qr'], ['qr', 'qr', 'svd']):
            ctx.corr('chordal.kernel-calls', {'A': enc(a), 'B': enc(b)}, repr(names),
                     "(['inv','inv'],['qr','qr'],['qr','qr','svd'])")
            continue
        ga, gb = t2.log[0][3], t2.log[1][3]
        q1, q2 = t1.log[0][3][0], t1.log[1][3][0]
        q1b, q2b = t3.log[0][3][0], t3.log[1][3][0]
        svd_arg, svals = t3.log[2][1][0], t3.log[2][3][1]
        cases.append((a, b, cplx, d1, d2, d3, ang, ga, gb, q1, q2, q1b, q2b, svd_arg, svals, t1, t3))
        lines.append('chord2 %d %d %d %s %s %s %s' % (m, p, q, cline(a), cline(b), cline(ga), cline(gb)))
        lines.append('chord %d %d %d %s %s' % (m, p, q, cline(q1), cline(q2)))
        lines.append('angles %s' % fline(svals))
    out = drv.ask(lines)
    for i, (a, b, cplx, d1, d2, d3, ang, ga, gb, q1, q2, q1b, q2b, svd_arg, svals, t1, t3) in enumerate(cases):
        m, p = a.shape
        q = b.shape[1]
        case = {'A': enc(a), 'B': enc(b)}
        key = ('chord', m, p, q, cplx, i)
        ctx.branch('chordal:dims-equal' if p == q else 'chordal:dims-differ')
        ctx.branch('complex' if cplx else 'real')
        bound = float(np.max(abs3(a, ga, H(a))) + np.max(abs3(b, gb, H(b)))) * m
        md2 = core.s2f(out[3 * i])
        ok = abs(md2 - d2) <= 1e-9 * max(bound, 1.0)
        ctx.corr('calc_chordal_distance_2', case, 'agree' if ok else 'differs: impl %r model %r' % (d2, md2), 'agree',
                 key=key + ('d2',))
        c_s, arg_s = out[3 * i + 1].split('|')
        md1 = core.s2f(c_s)
        ok = abs(md1 - d1) <= 1e-9 * max(1.0, m)
        ctx.corr('calc_chordal_distance', case, 'agree' if ok else 'differs: impl %r model %r' % (d1, md1), 'agree',
                 key=key + ('d1',))
        # kernel arguments: qr is called on the inputs themselves, svd on Q1^H Q2
        ok = (np.array_equal(t1.log[0][1][0], a) and np.array_equal(t1.log[1][1][0], b)
              and np.array_equal(t3.log[0][1][0], a) and np.array_equal(t3.log[1][1][0], b)
              and np.array_equal(q1, q1b) and np.array_equal(q2, q2b)
              and t3.log[2][2].get('full_matrices', True) is False)
        ctx.corr('chordal.qr-arguments', case, 'qr(matrix1),qr(matrix2)' if ok else 'differs',
                 'qr(matrix1),qr(matrix2)', key=key + ('qra',))
        ok, why = within(svd_arg, parse_c(arg_s, (p, q)), np.abs(H(q1)) @ np.abs(q2))
        ctx.corr('calc_principal_angles.svd-argument', case, 'agree' if ok else 'differs: ' + why, 'agree',
                 key=key + ('svda',))
        a_s, d_s = out[3 * i + 2].split('|')
        mang = parse_f(a_s)
        ok = mang.shape == np.asarray(ang).shape and bool(np.all(np.abs(mang - ang) <= 1e-12))
        ctx.corr('calc_principal_angles', case, 'agree' if ok else 'differs: impl %r model %r' % (ang.tolist(), mang.tolist()),
                 'agree', key=key + ('ang',))
        md3 = core.s2f(d_s)
        ok = abs(md3 - d3) <= 1e-12 * max(1.0, d3)
        ctx.corr('calc_chordal_distance_from_principal_angles', case,
                 'agree' if ok else 'differs: impl %r model %r' % (d3, md3), 'agree', key=key + ('d3',))
        # contracts assumed by the theorems
        tolc = max(1e-9, 100 * EPS * max(cond2(a), cond2(b)) ** 2 * m)
        for (nm, x, qq) in (('A', a, q1), ('B', b, q2)):
            r = H(qq) @ x          # R = Q^H A ; contract: Q^H Q = 1 and A = Q R
            e1 = np.abs(H(qq) @ qq - np.eye(qq.shape[1])).max()
            e2 = np.abs(qq @ r - x).max() / max(1.0, np.abs(x).max())
            if not (e1 <= 1e-9 and e2 <= 1e-9):
                ctx.tie_broken('correspondence', 'contract:qr', '%s: Q^HQ-I %.2e, QR-A %.2e' % (nm, e1, e2), case)
        if not (np.all(svals >= 0) and np.all(np.diff(svals) <= 1e-12) and np.all(svals <= 1 + 1e-9)
                and abs(float(np.sum(svals ** 2)) - float(np.sum(np.abs(svd_arg) ** 2))) <= 1e-9 * max(1.0, p)):
            ctx.tie_broken('correspondence', 'contract:svd', 'singular values %r' % svals.tolist(), case)
        for (x, gg) in ((a, ga), (b, gb)):
            res = np.abs(gg @ (H(x) @ x) - np.eye(x.shape[1])).max()
            if not res <= tolc:
                ctx.tie_broken('correspondence', 'contract:inv', 'G (A^H A) - I = %.3e' % res, case)
        if i < 1:
            ctx.sample({'call': 'calc_chordal_distance_2', 'impl': d2, 'model': md2, 'shape': [m, p, q]})


def corr_whiten(ctx, g, drv, n_cases):
    _, _, misc, _ = _impl()
    cases, lines = [], []
    for t in range(n_cases):
        n = g.rng.randint(1, 8)
        cplx = g.rng.chance(0.6)
        c, kind = g.hpd(n, cplx, HPD_KINDS[t % len(HPD_KINDS)])
        with Tap() as tap:
            w = misc.calc_whitening_matrix(c)
        names = [x[0] for x in tap.log]
        if names != ['eig', 'qr']:
            ctx.corr('calc_whitening_matrix.kernel-calls', {'C': enc(c)}, repr(names), "['eig', 'qr']")
            continue
        lam, v_eig = tap.log[0][3]
        ok_arg = np.array_equal(tap.log[0][1][0], c) and np.array_equal(tap.log[1][1][0], v_eig)
        v, rfac = tap.log[1][3]
        # contracts of the two kernel calls (hypotheses of eig_then_qr_contract)
        sc = max(1.0, np.abs(c).max())
        k1 = np.abs(c @ v_eig - v_eig * lam).max() / sc
        k2 = np.abs(v @ rfac - v_eig).max()
        k3 = np.abs(H(v) @ v - np.eye(n)).max()
        k4 = bool(np.all(np.tril(rfac, -1) == 0)) and bool(np.all(np.abs(np.diag(rfac)) > 1e-8))
        k5 = np.abs(c - H(c)).max() / sc
        if not (k1 <= 1e-9 and k2 <= 1e-9 and k3 <= 1e-9 and k4 and k5 <= 1e-12):
            ctx.tie_broken('correspondence', 'contract:eig/qr',
                           'CV-VL %.2e, QR-V %.2e, Q^HQ-I %.2e, R upper triangular invertible %s, C-C^H %.2e'
                           % (k1, k2, k3, k4, k5), {'C': enc(c)})
        cases.append((c, kind, w, lam, v, 'eig+qr', ok_arg))
        lines.append('whiten %d %s %s' % (n, cline(lam), cline(v)))
    out = drv.ask(lines)
    for i, (c, kind, w, lam, v, kname, ok_arg) in enumerate(cases):
        n = c.shape[0]
        case = {'C': enc(c)}
        key = ('whiten', n, kind, np.iscomplexobj(c), i)
        ctx.branch('whiten:' + kind)
        ctx.corr('calc_whitening_matrix.kernel-arguments', case, 'eig(cov_matrix),qr(V)' if ok_arg else 'other',
                 'eig(cov_matrix),qr(V)', key=key + ('arg',))
        mw = parse_c(out[i], (n, n))
        ok, why = within(w, mw, np.abs(v) @ np.diag(1 / np.sqrt(np.abs(lam))), rtol=1e-12)
        ctx.corr('calc_whitening_matrix', case, 'agree' if ok else 'differs: ' + why, 'agree', key=key + ('W',))
        # contract assumed by whitening_identity: V unitary, C V = V diag(L), L real positive
        sc = max(1.0, np.abs(c).max())
        e1 = np.abs(H(v) @ v - np.eye(n)).max()
        e2 = np.abs(c @ v - v * lam).max() / sc
        e3 = float(np.max(np.abs(np.imag(lam)))) / sc
        pos = bool(np.all(np.real(lam) > 0))
        if not (e1 <= 1e-9 and e2 <= 1e-9 and e3 <= 1e-12 and pos):
            ctx.tie_broken('correspondence', 'contract:' + kname,
                           'V^HV-I %.2e, CV-VL %.2e, imag(L) %.2e, positive %s' % (e1, e2, e3, pos), case)


def corr_uisd(ctx, g, drv, n_cases):
    _, _, misc, _ = _impl()
    cases, lines = [], []
    for t in range(n_cases):
        a, d = gen_uisd_case(g, short=(t % 5 == 4))
        n = a.shape[0]
        inv_a = np.linalg.inv(a)
        if np.iscomplexobj(d) and not np.iscomplexobj(inv_a):
            inv_a = inv_a.astype(complex)
        with Tap() as tap:
            out = misc.update_inv_sum_diag(inv_a, d)
        cases.append((a, d, inv_a, out, len(tap.log)))
        lines.append('uisd %d %s %s' % (n, cline(inv_a), cline(d)))
    res = drv.ask(lines)
    for i, (a, d, inv_a, out, ncalls) in enumerate(cases):
        n = a.shape[0]
        case = {'A': enc(a), 'd': enc(d)}
        key = ('uisd', n, d.size, np.iscomplexobj(a), i)
        ctx.branch('uisd:full-diagonal' if d.size == n else 'uisd:short-diagonal')
        m_s, p_s = res[i].split('|')
        if m_s.startswith('error'):
            ctx.corr('update_inv_sum_diag', case, 'value', m_s, key=key)
            continue
        mo = parse_c(m_s, (n, n))
        piv = parse_c(p_s, (d.size,)) if d.size else np.zeros(0)
        scale = max(1.0, float(np.abs(inv_a).max()), float(np.abs(out).max())) * max(1.0, float(np.max(1 / np.abs(piv))) if d.size else 1.0)
        ok, why = within(out, mo, scale * np.ones((n, n)), rtol=1e-9)
        ctx.corr('update_inv_sum_diag', case, 'agree' if ok else 'differs: ' + why, 'agree', key=key)
        if d.size and not np.all(np.abs(piv) > 1e-6):
            ctx.tie_broken('correspondence', 'contract:pivot', 'pivot near zero %r' % piv.tolist(), case)
        if ncalls:
            ctx.corr('update_inv_sum_diag.kernel-calls', case, 'calls=%d' % ncalls, 'calls=0', key=key + ('k',))


def corr_select(ctx, g, drv, n_cases):
    _, _, misc, _ = _impl()
    cases, lines = [], []
    for _ in range(n_cases):
        a = gen_herm(g)
        ncols = a.shape[1]
        which = ['peig', 'leig'][len(cases) % 2]
        n = g.rng.randint(0, ncols) if len(cases) % 6 != 5 else ncols + g.rng.randint(1, 2)
        fn = misc.peig if which == 'peig' else misc.leig
        with Tap() as tap:
            try:
                r = fn(a, n)
                err = None
            except Exception as e:
                r, err = None, type(e).__name__
        cases.append((a, which, n, r, err, tap))
        perm = tap.calls('argsort')[0][3].tolist() if tap.calls('argsort') else list(range(ncols))
        lines.append('%s %d %d %s' % (which, ncols, n, ','.join(map(str, perm)) if perm else '-'))
    out = drv.ask(lines)
    for i, (a, which, n, r, err, tap) in enumerate(cases):
        ncols = a.shape[1]
        case = {'A': enc(a), 'n': n, 'which': which}
        key = (which, ncols, n, i)
        if err is not None:
            ctx.branch('select:error')
            ctx.corr(which + '.guard', case, 'error:' + err, out[i], key=key)
            continue
        ctx.branch('select:' + which)
        names = [c[0] for c in tap.log]
        if names != ['eig', 'argsort']:
            ctx.corr(which + '.kernel-calls', case, repr(names), "['eig','argsort']", key=key)
            continue
        dvals, vmat = tap.log[0][3]
        ok_args = np.array_equal(tap.log[0][1][0], a) and np.array_equal(tap.log[1][1][0], dvals.real)
        ctx.corr(which + '.kernel-arguments', case, 'eig(A),argsort(D.real)' if ok_args else 'other',
                 'eig(A),argsort(D.real)', key=key + ('args',))
        if out[i].startswith('error'):
            ctx.corr(which + '.guard', case, 'value', out[i], key=key)
            continue
        idx = [int(t) for t in out[i].split(',')] if out[i] else []
        v, d = r
        ok = (v.shape == (a.shape[0], len(idx)) and np.array_equal(v, vmat[:, idx]) and np.array_equal(d, dvals[idx]))
        ctx.corr(which, case, 'V[:,idx],D[idx] idx=%s' % idx if ok else 'differs', 'V[:,idx],D[idx] idx=%s' % idx, key=key)
        # contracts: argsort result is a permutation sorting D.real; eig pairs are eigenpairs
        perm = tap.log[1][3].tolist()
        srt = dvals.real[perm]
        if sorted(perm) != list(range(ncols)) or np.any(np.diff(srt) < 0):
            ctx.tie_broken('correspondence', 'contract:argsort', 'perm %r values %r' % (perm, srt.tolist()), case)
        res = np.abs(a @ vmat - vmat * dvals).max() / max(1.0, np.abs(a).max())
        if not res <= 1e-9:
            ctx.tie_broken('correspondence', 'contract:eig', 'A V - V D = %.3e' % res, case)


def corr_lrsv(ctx, g, drv, n_cases):
    _, _, misc, _ = _impl()
    cases, lines = [], []
    for _ in range(n_cases):
        a = gen_rect(g)
        m, c = a.shape
        n = g.rng.randint(0, c)
        with Tap() as tap:
            try:
                r = misc.least_right_singular_vectors(a, n)
                err = None
            except Exception as e:
                r, err = None, type(e).__name__
        cases.append((a, n, r, err, tap))
        s = tap.calls('svd')[0][3][1] if tap.calls('svd') else np.zeros(0)
        lines.append('lrsv %d %d %s' % (c, n, fline(s)))
    out = drv.ask(lines)
    for i, (a, n, r, err, tap) in enumerate(cases):
        m, c = a.shape
        case = {'A': enc(a), 'n': n}
        key = ('lrsv', m, c, n, i)
        ctx.branch('lrsv:wide' if m < c else 'lrsv:tall-or-square')
        names = [x[0] for x in tap.log]
        if names != ['svd']:
            ctx.corr('least_right_singular_vectors.kernel-calls', case, repr(names), "['svd']", key=key)
            continue
        ok_arg = np.array_equal(tap.log[0][1][0], a) and tap.log[0][2].get('full_matrices', True) is True
        ctx.corr('least_right_singular_vectors.kernel-arguments', case, 'svd(A,full)' if ok_arg else 'other',
                 'svd(A,full)', key=key + ('args',))
        i0_s, i1_s, s_s = out[i].split('|')
        if err is not None or s_s.startswith('error'):
            ctx.branch('lrsv:error')
            ctx.corr('least_right_singular_vectors.error', case, 'error:%s' % err if err else 'value', s_s, key=key)
            continue
        i0 = [int(t) for t in i0_s.split(',')] if i0_s else []
        i1 = [int(t) for t in i1_s.split(',')] if i1_s else []
        vfull = H(tap.log[0][3][2])
        v0, v1, s1 = r
        ok = (np.array_equal(v0, vfull[:, i0]) and np.array_equal(v1, vfull[:, i1])
              and np.array_equal(np.asarray(s1), parse_f(s_s)))
        ctx.corr('least_right_singular_vectors', case, 'V[:,idx0],V[:,idx1],S[idx1]' if ok else 'differs',
                 'V[:,idx0],V[:,idx1],S[idx1]', key=key)
        u, s, vh = tap.log[0][3]
        sig = np.zeros((m, c))
        sig[:s.size, :s.size] = np.diag(s)
        e = np.abs(u @ sig @ vh - a).max() / max(1.0, np.abs(a).max())
        e2 = max(np.abs(H(u) @ u - np.eye(m)).max(), np.abs(vh @ H(vh) - np.eye(c)).max())
        if not (e <= 1e-9 and e2 <= 1e-9 and np.all(s >= 0) and np.all(np.diff(s) <= 0)):
            ctx.tie_broken('correspondence', 'contract:svd', 'U S V^H - A = %.2e, unitarity %.2e' % (e, e2), case)


def corr_gpcm(ctx, g, drv, n_cases):
    _, _, misc, _ = _impl()
    cases, lines = [], []
    for _ in range(n_cases):
        a = gen_rect(g)
        m, c = a.shape
        k = g.rng.randint(1, min(m, c))
        with Tap() as tap:
            try:
                r = misc.get_principal_component_matrix(a, k)
                err = None
            except Exception as e:
                r, err = None, type(e).__name__
        names = [x[0] for x in tap.log]
        if names != ['svd']:
            ctx.corr('get_principal_component_matrix.kernel-calls', {'A': enc(a)}, repr(names), "['svd']")
            continue
        u, s, vh = tap.log[0][3]
        cases.append((a, k, r, err, tap))
        lines.append('gpcm %d %d %d %s %s %s' % (m, c, k, cline(u), cline(s), cline(vh)))
    out = drv.ask(lines)
    for i, (a, k, r, err, tap) in enumerate(cases):
        m, c = a.shape
        case = {'A': enc(a), 'k': k}
        key = ('gpcm', m, c, k, i)
        ctx.branch('gpcm:wide' if m < c else 'gpcm:tall-or-square')
        u, s, vh = tap.log[0][3]
        if err is not None or out[i].startswith('error'):
            ctx.branch('gpcm:error')
            ctx.corr('get_principal_component_matrix.error', case, 'error:%s' % err if err else 'value', out[i], key=key)
            continue
        mo = parse_c(out[i], (m, k))
        bound = (np.abs(u[:, :s.size]) * s) @ np.abs(vh[:s.size, :k])
        ok, why = within(r, mo, bound + 1e-300)
        ctx.corr('get_principal_component_matrix', case, 'agree' if ok else 'differs: ' + why, 'agree', key=key)


def corr_gmd(ctx, g, drv, n_cases):
    _, _, misc, _ = _impl()
    cases, lines = [], []
    for t in range(n_cases):
        if t % 7 == 6:      # repeated singular values (no rotation branch)
            n = g.rng.randint(1, 6)
            a = g.unitary(n, g.rng.chance(0.5)) * float(g.rng.randint(1, 4))
        else:
            a = gen_rect(g)
        m, n = a.shape
        u, sv, vh = np.linalg.svd(a)
        tol = 0.0
        if t % 6 == 5 and sv.size < 2:
            a = g.raw(3, 2, True)
            m, n = a.shape
            u, sv, vh = np.linalg.svd(a)
        if t % 6 == 5:
            tol = float(np.sqrt(sv[-1] * sv[-2]))      # drops the smallest singular value
        with Tap() as tap:
            q, r, pm = misc.gmd(u, sv, vh, tol)
        pcount = int(np.sum(sv >= tol))
        sb = float(np.prod(sv[0:pcount]) ** (1. / pcount))
        cases.append((a, u, sv, vh, tol, pcount, q, r, pm, len(tap.log)))
        lines.append('gmd %d %d %d %s %s %s %s' % (m, n, pcount, core.f2s(sb), cline(u), fline(sv), cline(H(vh))))
    out = drv.ask(lines)
    for i, (a, u, sv, vh, tol, pcount, q, r, pm, ncalls) in enumerate(cases):
        m, n = a.shape
        case = {'A': enc(a), 'tol': tol}
        key = ('gmd', m, n, pcount, np.iscomplexobj(a), i)
        ctx.branch('gmd:p<len(S)' if pcount < sv.size else 'gmd:p=len(S)')
        if out[i].startswith('error'):
            ctx.corr('gmd', case, 'value', out[i], key=key)
            continue
        q_s, r_s, p_s, mg_s = out[i].split('|')
        margin = core.s2f(mg_s)      # conditioning: min over rotations of min(c^2,1-c^2)*|d1^2-d2^2|/sb^2
        if not margin >= 1e-6:
            # a singular value (numerically) equal to the geometric mean: c or s is the root of a
            # cancelled difference, the factors are determined only up to that noise (the oracle
            # still checks the decomposition itself)
            ctx.branch('gmd:ill-conditioned-rotation-skipped')
            continue
        scale = max(1.0, float(sv[0]), float(sv[0] / sv[pcount - 1])) / margin
        ok1, w1 = within(q, parse_c(q_s, (m, m)), scale * np.ones((m, m)), rtol=1e-11)
        ok2, w2 = within(r, parse_c(r_s, (m, n)), scale * np.ones((m, n)), rtol=1e-11)
        ok3, w3 = within(pm, parse_c(p_s, (n, n)), scale * np.ones((n, n)), rtol=1e-11)
        ok = ok1 and ok2 and ok3
        ctx.corr('gmd', case, 'agree' if ok else 'differs: Q %s R %s P %s' % (w1, w2, w3), 'agree', key=key)
        if ncalls:
            ctx.corr('gmd.kernel-calls', case, 'calls=%d' % ncalls, 'calls=0', key=key + ('k',))


def corr_conversion(ctx, g, drv, n_cases):
    _, _, _, conv = _impl()
    xs, ys, bs = [], [], []
    for _ in range(n_cases):
        xs.append(10.0 ** g.rng.uniform(-15, 15))
        ys.append(g.rng.uniform(-150, 150))
        bs.append(g.rng.randint(1, 10))
    xs += [1.0, 1000.0, 1e-3, 2.0]
    ys += [0.0, 30.0, -30.0, 3.0]
    bs += [1, 2, 4, 6]
    lines = []
    for x, y, b in zip(xs, ys, bs):
        lines += ['lin2db %s' % core.f2s(x), 'db2lin %s' % core.f2s(y), 'lin2dbm %s' % core.f2s(x),
                  'dbm2lin %s' % core.f2s(y), 'snr2ebn0 %s %s' % (core.f2s(y), core.f2s(float(b))),
                  'ebn02snr %s %s' % (core.f2s(y), core.f2s(float(b)))]
    out = drv.ask(lines)
    for i, (x, y, b) in enumerate(zip(xs, ys, bs)):
        impl = [conv.linear2dB(x), conv.dB2Linear(y), conv.linear2dBm(x), conv.dBm2Linear(y),
                conv.SNR_dB_to_EbN0_dB(y, b), conv.EbN0_dB_to_SNR_dB(y, b)]
        names = ['linear2dB', 'dB2Linear', 'linear2dBm', 'dBm2Linear', 'SNR_dB_to_EbN0_dB', 'EbN0_dB_to_SNR_dB']
        for j, (nm, v) in enumerate(zip(names, impl)):
            mv = core.s2f(out[6 * i + j])
            ok = core.close(float(v), mv, rtol=1e-12)
            ctx.corr(nm, {'x': x, 'y': y, 'bits': b}, 'agree' if ok else 'differs: impl %r model %r' % (float(v), mv),
                     'agree', key=(nm, i))
    ctx.branch('conversion', len(xs))


def correspondence(ctx, scale):
    g = Gen(ctx.rng.fork('corr'))
    drv = core.Driver(DRIVER)
    plan = [(corr_projection, 40), (corr_chordal, 30), (corr_whiten, 30), (corr_uisd, 30), (corr_select, 40),
            (corr_lrsv, 40), (corr_gpcm, 40), (corr_gmd, 40), (corr_conversion, 60)]
    for fn, n in plan:
        try:
            fn(ctx, g, drv, n * scale)
        except core.Infra:
            raise
        except Exception as e:
            # the implementation raised where the model has a value (or returned something the
            # comparison cannot even parse): the correspondence is broken, the oracles look for the input
            import traceback
            ctx.branch('disagree:' + fn.__name__)
            ctx.tie_broken('correspondence', fn.__name__,
                           'exception while running the implementation: %r\n%s' % (e, traceback.format_exc()[-1200:]))
            ctx.required_branches = []


# ------------------------------------------------------------------ oracles
CORPUS = [
    ('calc_whitening_matrix', lambda: {'C': enc(np.eye(3) + np.outer([1, 2, 2], [1, 2, 2]).astype(float))}),
    ('calc_whitening_matrix', lambda: {'C': enc(np.eye(4) * 2.0 + np.outer([1, -1j, 2, 0], np.conj([1, -1j, 2, 0])))}),
    ('get_principal_component_matrix', lambda: {'A': enc(np.array([[1, 2], [3, 4], [5, 7]])), 'k': 1}),
    ('get_principal_component_matrix', lambda: {'A': enc(np.array([[1.0, 2, 0, 1], [0, 1.0, 3, 1]])), 'k': 1}),
    ('least_right_singular_vectors', lambda: {'A': enc(np.array([[1.0, 2, 0, 1], [0, 1.0, 3, 1]])), 'n': 1}),
    ('calc_chordal_distance', lambda: {'A': enc(np.array([[1.0], [0.0]])), 'B': enc(np.eye(2))}),
    ('Projection', lambda: {'A': enc(np.array([[1 + 1j, 2 - 2j], [3 - 2j, 0], [-1 - 1j, 2 - 3j]])),
                            'M': enc(np.array([[1.0], [2.0], [3.0]]))}),
    ('gmd', lambda: {'A': enc(np.array([[6.0, 8, 0, 4], [8, 6, 7, 6], [10, 9, 7, 3], [6, 2, 9, 2]]))}),
    ('gmd', lambda: {'A': enc(3.0 * np.eye(3))}),
]


def oracles(ctx, scale):
    g = Gen(ctx.rng.fork('oracle'))
    rng = g.rng
    for call, mk in CORPUS:
        run_oracle(ctx, call, mk(), key=('corpus', call, repr(mk())[:80]))
    for _ in range(40 * scale):
        a, mm, kind = gen_proj_case(g)
        run_oracle(ctx, 'Projection', {'A': enc(a), 'M': enc(mm)})
        ctx.branch('oracle:proj:' + kind)
    for _ in range(15 * scale):
        m, k = shapes(rng, None)
        cplx = rng.chance(0.6)
        a, _ = g.full_rank(m, k, cplx, max_cond=1e4)
        t, _ = g.full_rank(k, k, cplx, max_cond=1e2)
        run_oracle(ctx, 'calcProjectionMatrix.invariance', {'A': enc(a), 'T': enc(t), 'U': enc(g.unitary(m, cplx))})
    for _ in range(30 * scale):
        a, b, cplx = gen_pair(g, equal_dims=rng.chance(0.85))
        run_oracle(ctx, 'calc_chordal_distance', {'A': enc(a), 'B': enc(b)})
    for _ in range(15 * scale):
        a, b, cplx = gen_pair(g)
        p = a.shape[1]
        ta, _ = g.full_rank(p, p, cplx, max_cond=1e2)
        tb, _ = g.full_rank(p, p, cplx, max_cond=1e2)
        run_oracle(ctx, 'calc_chordal_distance.invariance',
                   {'A': enc(a), 'B': enc(b), 'TA': enc(ta), 'TB': enc(tb), 'U': enc(g.unitary(a.shape[0], cplx))})
    for _ in range(40 * scale):
        a = gen_rect(g)
        run_oracle(ctx, 'gmd', {'A': enc(a)})
        ctx.branch('gmd:' + ('square' if a.shape[0] == a.shape[1] else 'tall' if a.shape[0] > a.shape[1] else 'wide'))
    for _ in range(6 * scale):     # repeated singular values: unitary and scaled-unitary matrices
        n = rng.randint(1, 6)
        run_oracle(ctx, 'gmd', {'A': enc(g.unitary(n, rng.chance(0.5)) * float(rng.randint(1, 4)))})
    for _ in range(40 * scale):
        n = rng.randint(1, 8)
        c, kind = g.hpd(n, rng.chance(0.6))
        run_oracle(ctx, 'calc_whitening_matrix', {'C': enc(c)})
        ctx.branch('oracle:whiten:' + kind)
    for _ in range(30 * scale):
        a, d = gen_uisd_case(g)
        if np.iscomplexobj(d) and not np.iscomplexobj(a):
            a = a.astype(complex)
        run_oracle(ctx, 'update_inv_sum_diag', {'A': enc(a), 'd': enc(d)})
    for _ in range(40 * scale):
        a = gen_herm(g, margin=rng.chance(0.7))
        run_oracle(ctx, 'peig/leig', {'A': enc(a), 'n': rng.randint(0, a.shape[1] + 1),
                                      'which': rng.choice(['peig', 'leig'])})
    for _ in range(40 * scale):
        a = gen_rect(g)
        run_oracle(ctx, 'least_right_singular_vectors', {'A': enc(a), 'n': rng.randint(0, a.shape[1])})
    for _ in range(40 * scale):
        a = gen_rect(g)
        if rng.chance(0.2):
            a = np.round(a.real * 3).astype(np.int64)
            if np.linalg.matrix_rank(a) < min(a.shape):
                continue
        s = np.linalg.svd(a.astype(complex), compute_uv=False)
        ks = [k for k in range(1, s.size + 1) if (s[k - 1] - (s[k] if k < s.size else 0.0)) >= 1e-3 * s[0]]
        if not ks:
            continue
        run_oracle(ctx, 'get_principal_component_matrix', {'A': enc(a), 'k': rng.choice(ks)})
    for _ in range(60 * scale):
        run_oracle(ctx, 'conversion', {'x': 10.0 ** rng.uniform(-15, 15), 'y': rng.uniform(-150, 150),
                                       'bits': rng.randint(1, 10)})


def exhaustive_shapes(ctx):
    """thorough tier: every shape of the quantifier's range once per field"""
    g = Gen(ctx.rng.fork('shapes'))
    for cplx in (False, True):
        for m in range(1, 9):
            for k in range(1, m + 1):
                a, _ = g.full_rank(m, k, cplx, kind='gauss')
                b, _ = g.full_rank(m, k, cplx, kind='gauss')
                run_oracle(ctx, 'Projection', {'A': enc(a), 'M': enc(g.raw(m, 2, cplx))}, key=('shape', m, k, cplx))
                run_oracle(ctx, 'calc_chordal_distance', {'A': enc(a), 'B': enc(b)}, key=('shape', m, k, cplx))
            for c in range(1, 9):
                a = g.raw(m, c, cplx)
                run_oracle(ctx, 'gmd', {'A': enc(a)}, key=('shape', m, c, cplx))
                for n in range(0, c + 1):
                    run_oracle(ctx, 'least_right_singular_vectors', {'A': enc(a), 'n': n}, key=('shape', m, c, n, cplx))
                for k in range(1, min(m, c) + 1):
                    run_oracle(ctx, 'get_principal_component_matrix', {'A': enc(a), 'k': k}, key=('shape', m, c, k, cplx))
            h = g.raw(m, m, cplx)
            h = h + H(h)
            for n in range(0, m + 2):
                for which in ('peig', 'leig'):
                    run_oracle(ctx, 'peig/leig', {'A': enc(h), 'n': n, 'which': which}, key=('shape', m, n, which, cplx))
            c, _ = g.hpd(m, cplx, 'rank1')
            run_oracle(ctx, 'calc_whitening_matrix', {'C': enc(c)}, key=('shape', m, cplx))
            a, d = gen_uisd_case(g)
            run_oracle(ctx, 'update_inv_sum_diag', {'A': enc(a.astype(complex) if np.iscomplexobj(d) else a), 'd': enc(d)})
    ctx.branch('exhaustive-shapes')


def check(ctx):
    ctx.rule = ('matrices m x k, 1 <= k <= m <= 8 (selectors/gmd: any 1..8 x 1..8), real or complex, drawn from '
                'gaussian / Gaussian-integer / prescribed condition number (<= 1e6) / nearly dependent columns; '
                'Hermitian positive definite covariances incl. repeated eigenvalues (identity + rank one, prescribed '
                'spectra); Hermitian matrices with eigenvalue margin for the selectors; positive reals 1e-15..1e15 '
                'and dB values -150..150 for the conversions; non-trivial = distinct (function, shape, field, '
                'generator kind, case index)')
    quick = ctx.tier == 'quick'
    scale = 1 if quick else 250
    core.prove(ctx, MODULE, generated=['C20Conversion'], drivers=[DRIVER], scratch=ctx.scratch)
    ctx.notes += [
        'numpy.linalg.inv / qr / svd / eig and numpy.argsort are tapped while the real code runs: their results are '
        'parameters of the model, their arguments are compared with the model, and the contracts the theorems assume '
        '(G (A^H A) = 1; Q^H Q = 1, A = Q R, R upper triangular invertible; M = U diag(s) V^H with unitary factors; '
        'A V = V diag(D); argsort = sorting permutation) are checked numerically on every case',
        'harness/gen/c20.py (float-expression fragment of util/conversion.py -> Generated/C20Conversion.lean)',
        'gmd: only the Givens step is proved; the sweep is an executable model tied by correspondence',
    ]
    ctx.required_branches = ['complex', 'real', 'tall', 'square', 'proj:neardep', 'proj:cond', 'proj:gint',
                             'chordal:dims-equal', 'chordal:dims-differ', 'whiten:rank1', 'whiten:spectrum',
                             'uisd:full-diagonal', 'uisd:short-diagonal', 'select:peig', 'select:leig',
                             'select:error', 'lrsv:wide', 'lrsv:tall-or-square', 'gpcm:wide',
                             'gpcm:tall-or-square', 'gmd:p=len(S)', 'gmd:p<len(S)', 'conversion']
    try:
        correspondence(ctx, scale)
    except core.Infra as e:
        if not ctx.broken:
            raise
        ctx.notes.append('correspondence skipped: %s' % e)
        ctx.required_branches = []
    oracles(ctx, scale)
    if not quick:
        exhaustive_shapes(ctx)


def search(ctx):
    """deeper failing-input search, used when a proof / correspondence broke"""
    before = len(ctx.failures)
    for _ in range(4):
        oracles(ctx, 3)
        if len(ctx.failures) > before:
            return
