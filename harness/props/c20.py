"""C20 — subspace and linear-algebra kernels satisfy their defining identities
(DESIGN.md §5 C20).

Tie to source: hand model `lean/PyPhysim/Model/C20.lean` (polymorphic in the
scalar; proofs at any commutative star ring / C / R, driver at binary64).  The
external kernels (np.linalg.inv/qr/svd/eig(h), np.argsort) are *tapped* while
the real code runs: their actual arguments and results are recorded, the
results are handed to the model as parameters, the arguments are compared
with what the model says the code hands to the kernel, and the contract the
theorems assume of each result is checked numerically on every case.
The conversions are additionally regenerated from source
(`Generated/C20Conversion.lean`, plugin `harness/gen/c20.py`).
"""
import decimal
import math

import numpy as np

from harness import core

MODULE = 'PyPhysim.Properties.C20'
DRIVER = 'drv_c20'
CLAIM = {
    'technique': 'Lean 4 theorems (Mathlib matrices over a commutative star ring / C / R, real analysis) about an '
                 'executable polymorphic model; numpy kernels are contract parameters whose calls are tapped; '
                 'conversions regenerated from source; seeded differential correspondence at binary64',
    'text': 'For every matrix A and every left inverse G of A^H A (the contract of np.linalg.inv; over C such a G '
            'exists iff A has full column rank) the modelled projector is Hermitian, idempotent, fixes A, has a '
            'residual orthogonal to A, is complementary to the orthogonal projector; reflection is an involution; '
            'the projector is invariant under change of basis and covariant under unitary rotation. The '
            'projector-based chordal distances are symmetric, zero exactly for equal spans (both directions), '
            'basis- and rotation-invariant, equal to each other under the QR contract and equal to the '
            'principal-angle form for equal dimensions under the SVD contract (the cosines are proved <= 1). '
            'calc_whitening_matrix gives W^H C W = 1 for every Hermitian C whose eig and qr results satisfy their '
            'contracts with positive eigenvalues (repeated eigenvalues included). update_inv_sum_diag returns, for '
            'every diagonal length <= n, a left inverse of A + D whenever the pivots are non-zero, which holds '
            'whenever every partial sum is invertible; longer diagonals give IndexError. peig / leig / '
            'least_right_singular_vectors / get_principal_component_matrix select exactly what their names say for '
            'every argsort / eig / svd result satisfying its contract. gmd (geometric mean decomposition, the '
            'Givens sweep of Jiang/Hager/Li): for every full SVD A = U S V^H of a real or complex m x n matrix '
            '(unitary U, V, positive non-increasing singular values, sigma_bar their geometric mean) the '
            'statement-by-statement array model of the sweep raises nothing (every index read is in range) and '
            'returns Q, R, P with Q R P^H = A, Q^H Q = 1, P^H P = 1, R upper triangular with constant diagonal '
            'sigma_bar (theorems gmd_correct : GmdStatement over R and gmd_correct_complex : GmdStatementComplex '
            'over C, all sizes; loop invariant with the product invariant d[k] * prod(unused S) = '
            'sigma_bar^(p-k), which forces a partner on the other side of sigma_bar in every step). '
            'dB/linear/dBm and SNR/EbN0 conversions '
            '(definitions regenerated from the source) are mutually inverse on the (positive) reals.',
    'note': 'trusted: numpy kernels (contracts checked numerically on every case, not proved), binary64 rounding '
            '(correspondence compared within 1e-9 of the absolute-value product bound), the harness and the '
            'conversion translator plugin. gmd: the theorems are about the executable array model '
            '(Model/C20Gmd.lean, hand-written statement by statement from util.misc.gmd, NOT regenerated from the '
            'source): it is tied to the code by the seeded differential correspondence (real and complex inputs, '
            'tol = 0 and tol > 0, the value sigma_bar the code computes is passed through and checked to be the '
            'geometric mean) and the decomposition is additionally checked by a first-principles oracle on every '
            'case, including inputs whose singular values equal sigma_bar exactly in binary64 (the no-rotation '
            'branch). The theorems assume exact real arithmetic and take sigma_bar with sigma_bar^p = prod S (the '
            'code expression exp(mean(log S)) has that property over the reals: '
            'gmd_sigma_bar_is_geometric_mean); tol > 0 (p < min(m, n) singular values in use) is covered by '
            'gmd_correct_truncated / gmd_correct_truncated_complex: Q R P^H is then the rank-p truncation U S_p V^H '
            '(oracle gmd with tol > 0, class suffix :tol>0, and correspondence). KNOWN FINDING: the '
            'principal-angle chordal distance disagrees with the projector forms for subspaces of different '
            'dimension (negative witness chordal_angles_disagree_when_dims_differ). Four defects fixed in the '
            'worktree (whitening with repeated eigenvalues; get_principal_component_matrix integer dtype and wide '
            'matrices; least_right_singular_vectors on wide matrices): the model mirrors the repaired code, so '
            'the check alarms on a tree without those commits. ROBUSTNESS CLASSES: R1 element types (float32 / '
            'complex64 / int8..int64 / uint8 arrays; Python and numpy scalars of every width for the conversions), '
            'R2 layouts and shapes (Fortran, transposed, reversed and strided views, broadcast views, 0-d, size-0, '
            '(N,1)/(1,N)/3-D for the conversions, 1-D and column-less M for project/reflect), R3 (arguments '
            'untouched, results fresh and never changed by later calls, no aliasing), R4 (rejected peig/leig/'
            'update_inv_sum_diag/get_principal_component_matrix calls leave arguments and later results '
            'unchanged), R5 (1x1, square and empty bases, n = 0 / ncols, zero and empty diagonals, identical and '
            'orthogonal subspaces, 0 dB / 1 bit, sizes 9..17), R6 (inputs scaled by 1e-15..1e15, every comparison '
            'relative) and R7 (Projection objects used repeatedly in any order, sharing one array) are each '
            'exercised in the correspondence AND by first-principles oracles, with their own required branches and '
            'failure classes. By THEOREM: every theorem is about the exact model, i.e. a function of the logical '
            'values only (so independent of dtype and layout, R1/R2) and universally quantified over sizes and '
            'scalars (R5/R6: n = 0, k = m, k = 0, every positive eigenvalue however small); in addition '
            'proj_scale_invariant / chordal2_scale_invariant (R6), proj_of_square_invertible / proj_of_empty_basis '
            '(R5), eig_selectors_reject / update_inv_sum_diag_index_error (R4: rejection is a pure error value). '
            'R3, R7 and the dtype/layout behaviour of numpy itself are covered by correspondence/oracle only (the '
            'model has no mutable state). Two further defects found by R1 and fixed: update_inv_sum_diag with an '
            'integer-dtype inverse or a real inverse and complex diagonal (UFuncTypeError), float16/float32 '
            'logarithms for narrow numpy integers in the dB conversions. Not accepted by the API and therefore not '
            'exercised: float16 matrices (numpy.linalg rejects them), Python lists for the matrix routines. '
            'SECOND ROBUSTNESS ROUND: R8 argument forms (every documented parameter positionally / by keyword in '
            'every order / default left vs given explicitly; scalar = 0-d = length-1 = 1x1 for the conversions; '
            'module alias = static method = static method through an instance = Projection(A).Q/.oQ; project = '
            'Q.dot(M); peig = leig reversed; dBm = dB with the factor 1000; EbN0 = SNR - linear2dB(bits)) - oracle '
            'argument-forms + keyword/default calls in every correspondence stream; THEOREMS '
            'projection_methods_are_static_results, peig_is_leig_reversed, conversion_entry_points_agree; there is '
            'no setter path (Projection is configured by its constructor only). R9 counts n / num_components / '
            'bits_per_symb as int, int8..int64, uint8..uint64, intp, 0-d array, bool, also > 256 - oracle '
            'index-forms + every count of the selector correspondences cycles through the types; in the model a '
            'count is a natural number (the logical value), negative indexes are not documented. R10 arguments of '
            'one call with different element types (real/complex, float32/complex128, integer/float; a list of '
            'mixed Python and numpy scalars) against the promoted twins - oracle mixed-types + mixed pairs in the '
            'projection / chordal / update_inv_sum_diag correspondences; there are no list-of-arrays parameters. '
            'R11 queries (project / oProject / reflect, repr, static methods through the instance, copies, pickling) '
            'leave Q, oQ, _A and later results unchanged, R13 deep copies and pickle round trips equal and '
            'independent, results overwritten by the caller never leak into later results - oracles '
            'Projection.derived and independence (oracle only: the model has no state). R12 the API has no dict / '
            'set / named containers; the analogue - the order in which basis vectors, users or rows are listed - '
            'is covered by the oracle column-order and the THEOREM proj_column_order_invariant. R14 one case per '
            'routine with 257 / 258 / 300 columns, users or eigenvalues per quick run (513 and a 65537-element '
            'conversion in thorough): oracles on regenerated large inputs, index-level and conversion '
            'correspondences (the value-level model driver is not run at that size: its lazy function matrices are '
            'far too slow there); every theorem is for all sizes. R14 exposed and fixed: gmd geometric mean '
            'overflow (np.prod of 300 singular values). THIRD ROBUSTNESS ROUND (harness/props/c20_robust.py, '
            'Model/C20Robust.lean): R15 distinct values that are merely close - subspaces a principal angle 1.5e-8..1.4e-3 '
            'apart (cosines 1 - 1e-16..1 - 1e-6, i.e. inside every isclose tolerance of one), bases of magnitude 1e-9..1e-15, '
            'singular values / eigenvalues a relative 1e-6..one ulp apart or tiny, gmd tol a relative 1e-9 above / below / '
            'exactly at / one ulp above a singular value, diagonal updates a relative 1e-6 apart or 1e-9 of the matrix, '
            'conversion arguments next to 1 / 0 / 30 / each other (2.4e9 vs 2.4e9 + 2e4, adjacent doubles, equal to the 12th '
            'decimal): every call against a first-principles value for THAT input (analytic principal angles, U diag(S) V^H '
            'with prescribed spectra, 60-digit decimal arithmetic) inside sequences of neighbouring inputs, tolerances a few '
            'hundred ulp times the condition number and no absolute floor (oracles R15.*); correspondence of the tapped '
            'singular values -> angles, of the eigenvalue selection on close spectra and of the conversions at strictly '
            'relative accuracy. THEOREMS distinct_projectors_positive_distance, principal_angles_clamp_only_above_one, '
            'angle_distance_zero_only_for_unit_cosines, selectors_resolve_every_strict_difference, '
            'diagonal_update_takes_effect_for_every_nonzero_value, diagonal_update_distinct_for_distinct_values, '
            'conversion_distinct_values_distinct_results. R16 argument identity and buffer reuse - every public entry point '
            'that takes an array (20 entry points and the Projection object) in histories of 2-4 calls on ONE preallocated '
            'array per parameter refilled in place, the same array in two roles (chordal distances / principal angles of '
            '(A, A), gmd(U, S, U), project / oProject / reflect of the array the object was built from, reflect of its own '
            'result written back), arguments overwritten right after the call, an equal-content copy at the end; results '
            'checked from first principles only (no interposed fresh call), earlier results unchanged, no aliasing (oracles '
            'R16.history, R16.projection); correspondence: the same histories against the Lean heap machine (driver op hist: '
            'projWith / chordal2 / project / reflect / updateInvSumDiag / gmd / conversions applied to the contents at call '
            'time) plus, for the routines whose model takes kernel results only, the requirement that every call of a history '
            'makes exactly the kernel calls of a fresh call on the contents at call time. THEOREMS '
            'call_reads_contents_at_call_time, earlier_results_unchanged_by_later_calls, calls_leave_buffers_unchanged, '
            'result_depends_on_contents_only (generic in the pure function called), same_object_in_both_roles, '
            'projection_of_own_basis. That numpy kernels are pure functions of their arguments is part of the trusted base.',
}

EPS = 2.220446049250313e-16


def limit_blas_threads(n=1):
    """the large-count cases (R14) run LAPACK on 300 x 300 matrices: with the default thread pool on a loaded
    machine they are ~250x slower (thread oversubscription) than single threaded; results do not depend on it"""
    import ctypes
    import glob
    import os
    done = []
    roots = [os.path.dirname(np.__file__)]
    try:
        import scipy
        roots.append(os.path.dirname(scipy.__file__))
    except ImportError:
        pass
    for base in roots:
        for lib in glob.glob(os.path.join(base, '..', '*.libs', '*openblas*')) + glob.glob(os.path.join(base, '.libs', '*openblas*')):
            try:
                h = ctypes.CDLL(lib)
            except OSError:
                continue
            for sym in ('openblas_set_num_threads', 'openblas_set_num_threads64_', 'scipy_openblas_set_num_threads',
                        'scipy_openblas_set_num_threads64_'):
                if hasattr(h, sym):
                    getattr(h, sym)(n)
                    done.append(sym)
    return done


limit_blas_threads(1)


def _impl():
    from pyphysim.subspace import metrics, projections
    from pyphysim.util import conversion, misc
    return projections, metrics, misc, conversion


# ------------------------------------------------------------------ helpers
def enc(a):
    a = np.asarray(a)
    flat = a.reshape(-1)
    if np.iscomplexobj(a):
        data = [[float(z.real), float(z.imag)] for z in flat]
        kind = 'c'
    elif a.dtype.kind in 'iu':
        data = [int(z) for z in flat]
        kind = 'i'
    else:
        data = [float(z) for z in flat]
        kind = 'f'
    return {'shape': list(a.shape), 'kind': kind, 'data': data}


def dec(d):
    if d['kind'] == 'gen':
        return gen_from_recipe(d)
    if d['kind'] == 'c':
        a = np.array([complex(re, im) for re, im in d['data']], dtype=complex)
    elif d['kind'] == 'i':
        a = np.array(d['data'], dtype=np.int64)
    else:
        a = np.array(d['data'], dtype=float)
    return a.reshape(d['shape'])


def H(a):
    return a.conj().T


def cline(a):
    """row-major, every scalar as re,im bit patterns"""
    flat = np.asarray(a, dtype=complex).reshape(-1)
    if flat.size == 0:
        return '-'
    return ','.join(core.f2s(z.real) + ',' + core.f2s(z.imag) for z in flat)


def fline(a):
    flat = np.asarray(a, dtype=float).reshape(-1)
    if flat.size == 0:
        return '-'
    return ','.join(core.f2s(x) for x in flat)


def parse_c(s, shape):
    if s == '':
        return np.zeros(shape, dtype=complex)
    v = [core.s2f(t) for t in s.split(',')]
    return (np.array(v[0::2]) + 1j * np.array(v[1::2])).reshape(shape)


def parse_f(s):
    if s == '':
        return np.zeros(0)
    return np.array([core.s2f(t) for t in s.split(',')])


def within(impl, model, bound, rtol=1e-9):
    """|impl - model| <= rtol * bound entrywise (bound = product of absolute values: the
    forward-error scale of two different summation orders)"""
    impl = np.asarray(impl)
    model = np.asarray(model)
    if impl.shape != model.shape:
        return False, 'shape %s vs %s' % (impl.shape, model.shape)
    if impl.size == 0:
        return True, ''
    if not (np.all(np.isfinite(impl)) and np.all(np.isfinite(model))):
        return False, 'non-finite'
    err = np.abs(impl - model)
    lim = rtol * np.maximum(np.asarray(bound, dtype=float), 1e-300)
    bad = err > lim
    if np.any(bad):
        return False, 'max err %.3e (limit %.3e)' % (float(err.max()), float(np.broadcast_to(lim, err.shape)[bad].min()))
    return True, ''


class Tap:
    """record (name, args, result) of every kernel call made while the real code runs"""
    NAMES = ('inv', 'qr', 'svd', 'eig', 'eigh')

    def __enter__(self):
        self.log = []
        self.saved = {n: getattr(np.linalg, n) for n in self.NAMES}
        self.saved_argsort = np.argsort
        for n, f in self.saved.items():
            setattr(np.linalg, n, self._wrap(n, f))
        np.argsort = self._wrap('argsort', self.saved_argsort)
        return self

    def _wrap(self, name, f):
        def g(*a, **kw):
            r = f(*a, **kw)
            self.log.append((name, [np.array(x, copy=True) if isinstance(x, np.ndarray) else x for x in a], kw,
                             tuple(np.array(x, copy=True) for x in r) if isinstance(r, tuple) else np.array(r, copy=True)))
            return r
        return g

    def __exit__(self, *exc):
        for n, f in self.saved.items():
            setattr(np.linalg, n, f)
        np.argsort = self.saved_argsort
        return False

    def add_implicit_argsort(self):
        """peig / leig sort the eigenvalues; when the source does it through the METHOD form (D.real.argsort(),
        which cannot be tapped) instead of np.argsort, the sorting permutation of the tapped eigenvalues is
        appended as if it had been tapped (it is unique: the generators keep the eigenvalue gaps >= 1e-3 relative)"""
        names = [c[0] for c in self.log]
        if names == ['eig']:
            d = self.log[0][3][0]
            self.log.append(('argsort', [np.array(d.real)], {}, np.argsort(d.real)))
        return self

    def calls(self, name):
        return [c for c in self.log if c[0] == name]


# --------------------------------------------------------------- generators
class Gen:
    def __init__(self, rng):
        self.rng = rng
        self.rs = np.random.RandomState(rng.u64() % (2 ** 32))

    def raw(self, m, k, cplx):
        a = self.rs.randn(m, k)
        return a + 1j * self.rs.randn(m, k) if cplx else a

    def unitary(self, n, cplx):
        q, r = np.linalg.qr(self.raw(n, n, cplx))
        d = np.diag(r)
        return q * (d / np.abs(d))

    def full_rank(self, m, k, cplx, kind=None, max_cond=1e6):
        """m x k, k <= m, full column rank, cond <= max_cond; returns (A, kind)"""
        assert k <= m
        kind = kind or self.rng.choice(['gauss', 'gauss', 'gint', 'cond', 'neardep'])
        for _ in range(200):
            if kind == 'gauss':
                a = self.raw(m, k, cplx)
            elif kind == 'gint':
                a = self.rs.randint(-3, 4, size=(m, k)).astype(float)
                if cplx:
                    a = a + 1j * self.rs.randint(-3, 4, size=(m, k))
            elif kind == 'cond':
                cond = 10.0 ** self.rng.uniform(0, math.log10(max_cond) - 0.3)
                if k > 1:   # random spectrum between 1 and 1/cond (end points fixed)
                    mid = sorted((self.rng.uniform(0, 1) for _ in range(k - 2)))
                    s = np.exp(-math.log(cond) * np.array([0.0] + mid + [1.0]))
                else:
                    s = np.ones(1)
                u = self.unitary(m, cplx)[:, :k]
                v = self.unitary(k, cplx)
                a = (u * s) @ H(v) * 10.0 ** self.rng.uniform(-2, 2)
            else:  # nearly dependent columns
                a = self.raw(m, k, cplx)
                if k >= 2:
                    eps = 10.0 ** self.rng.uniform(-math.log10(max_cond) + 1.0, -1)
                    w = self.raw(k - 1, 1, cplx)
                    a[:, -1:] = a[:, :-1] @ w + eps * a[:, -1:]
            if np.linalg.matrix_rank(a) == k and np.linalg.cond(a) <= max_cond:
                return a, kind
            if kind in ('cond', 'neardep'):
                continue
        return self.raw(m, k, cplx), 'gauss'

    def hpd(self, n, cplx, kind=None):
        """Hermitian positive definite covariance; returns (C, kind)"""
        kind = kind or self.rng.choice(['wishart', 'wishart', 'rank1', 'spectrum', 'diag', 'ident'])
        if kind == 'wishart':
            a = self.raw(n, n + 2, cplx)
            c = a @ H(a)
        elif kind == 'rank1':  # white noise + one interferer: eigenvalue 1 with multiplicity n-1
            v = self.raw(n, 1, cplx)
            c = np.eye(n) * (10.0 ** self.rng.uniform(-1, 1)) + v @ H(v)
        elif kind == 'spectrum':  # prescribed spectrum with a repeated value
            u = self.unitary(n, cplx)
            d = np.array([float(self.rng.randint(1, 4)) for _ in range(n)])
            c = (u * d) @ H(u)
        elif kind == 'diag':
            c = np.diag([float(self.rng.randint(1, 3)) for _ in range(n)]).astype(complex if cplx else float)
        else:
            c = np.eye(n, dtype=complex if cplx else float) * float(self.rng.randint(1, 5))
        c = (c + H(c)) / 2
        return c, kind


HPD_KINDS = ['wishart', 'rank1', 'spectrum', 'wishart', 'diag', 'ident']


def cond2(a):
    a = np.asarray(a)
    if a.size == 0:
        return 1.0
    return float(np.linalg.cond(twin(a)))


def abs3(a, g, b):
    return np.abs(twin(a)) @ np.abs(twin(g)) @ np.abs(twin(b))


# ------------------------------------------------ input variants (R1, R2, R6)
class Violation(Exception):
    """raised by the guards below: (class, detail)"""

    def __init__(self, cls, detail):
        Exception.__init__(self, cls, detail)
        self.cls, self.detail = cls, detail


INT_DTYPES = ['int8', 'int16', 'int32', 'int64', 'uint8']
LAYOUTS = ['F', 'rev', 'strided', 'T']


def relayout(x, layout):
    """a view with the same values and a different memory layout"""
    if layout is None or x.ndim == 0:
        return x
    if layout == 'F':
        return np.asfortranarray(x)
    if layout == 'T':                      # transpose of a C-contiguous array
        return np.ascontiguousarray(x.T).T
    if layout == 'rev':                    # negative strides on every axis
        idx = tuple(slice(None, None, -1) for _ in range(x.ndim))
        return x[idx].copy()[idx]
    if layout == 'strided':                # every 2nd / 3rd element of a larger buffer
        big = np.zeros(tuple(3 * s for s in x.shape), dtype=x.dtype)
        idx = tuple(slice(1, None, 3) for _ in range(x.ndim))
        big[idx] = x
        return big[idx]
    raise ValueError(layout)


def realize(d, var):
    """the array actually handed to the code: base values * scale, cast, re-laid out"""
    x = dec(d)
    var = var or {}
    if var.get('scale') is not None:
        x = x * float(var['scale'])
    dt = var.get('dtype')
    if dt == 'f32':
        x = x.astype(np.complex64 if np.iscomplexobj(x) else np.float32)
    elif dt in INT_DTYPES:
        if np.iscomplexobj(x):
            x = x.real
        x = np.rint(x)
        if dt == 'uint8':
            x = np.abs(x)
        x = x.astype(dt)
    elif dt is not None:
        raise ValueError(dt)
    return relayout(x, var.get('layout'))


def twin(x):
    """the float64 / complex128 C-contiguous array with the same values"""
    x = np.asarray(x)
    return np.array(x, dtype=complex if np.iscomplexobj(x) else float, order='C', copy=True)


def eps_of(*arrs):
    e = EPS
    for x in arrs:
        dt = np.asarray(x).dtype
        if dt.kind in 'fc':
            e = max(e, float(np.finfo(dt).eps))
    return e


def vtag(var):
    """failure-class suffix computed from the input variant"""
    if not var:
        return ''
    parts = []
    if var.get('dtype'):
        parts.append('dtype:' + ('float32/complex64' if var['dtype'] == 'f32' else 'integer'))
    if var.get('layout'):
        parts.append('layout:' + var['layout'])
    if var.get('scale') is not None:
        parts.append('scale:' + ('tiny' if var['scale'] < 1 else 'huge'))
    return '@' + ','.join(parts)


def vbranches(var):
    out = []
    var = var or {}
    if var.get('dtype') == 'f32':
        out.append('R1:float32/complex64')
    elif var.get('dtype'):
        out.append('R1:integer-dtype')
    if var.get('layout'):
        out.append('R2:layout-' + var['layout'])
    if var.get('scale') is not None:
        out.append('R6:scale-' + ('tiny' if var['scale'] < 1 else 'huge'))
    return out


def same(a, b):
    a, b = np.asarray(a), np.asarray(b)
    return a.shape == b.shape and a.dtype == b.dtype and bool(np.array_equal(a, b, equal_nan=a.dtype.kind in 'fc'))


def call(name, fn, *args):
    """R3 guard: arguments are left untouched and the results do not alias them"""
    snaps = [(a, np.array(a, copy=True)) for a in args if isinstance(a, np.ndarray)]
    out = fn(*args)
    for a, s in snaps:
        if not same(a, s):
            raise Violation('R3:input-modified:' + name, 'an argument of %s changed during the call' % name)
    outs = out if isinstance(out, tuple) else (out,)
    for o in outs:
        if isinstance(o, np.ndarray) and o.size:
            for a, _ in snaps:
                if a.size and np.shares_memory(o, a):
                    raise Violation('R3:output-aliases-input:' + name, 'a result of %s shares memory with an argument' % name)
    return out


def inexact_result(name, out, *inputs):
    """R1: a result must not be stored in an integer buffer, nor lose the complex part"""
    out = np.asarray(out)
    if out.dtype.kind not in 'fc':
        raise Violation('R1:integer-result-dtype:' + name, '%s returned dtype %s' % (name, out.dtype))
    if any(np.iscomplexobj(x) for x in inputs) and out.dtype.kind != 'c':
        raise Violation('R1:real-result-for-complex-input:' + name, '%s returned dtype %s' % (name, out.dtype))


def nz(x):
    x = float(x)
    return x if x > 0 else 1.0


def rt(base, *arrs):
    """comparison tolerance: `base` for double precision data, 5e-4 when a float32/complex64 array is involved"""
    return base if eps_of(*arrs) <= EPS else max(base, 5e-4)


def corr_variants(ctx, g, n):
    """(var, complex?) for the variant part of a correspondence stream; counts the corr-R* branches"""
    out = []
    for t in range(n):
        var = pick_var(g.rng, t)
        for br in vbranches(var):
            ctx.branch('corr-' + br)
        out.append((var, (t // 10) % 2 == 0, t))
    return out


def index_form(ctx, value, i):
    """R9 in the correspondence: the count in the i-th index type that can hold it"""
    for j in range(len(INDEX_TYPES)):
        t = INDEX_TYPES[(i + j) % len(INDEX_TYPES)]
        v = mk_index(value, t)
        if v is not None:
            ctx.branch('corr-R9:index-' + t)
            return v
    return value


def big_size(ctx):
    return [257, 258, 300][ctx.seed % 3]


def tol_for(c2, m, factor, *arrs):
    e = eps_of(*arrs)
    return max(1e-9 if e <= EPS else 100 * e, factor * e * c2 * max(m, 1))


# ------------------------------------------------------------------ oracles
# each takes a JSON-serialisable case and returns None (holds) or (class, detail)
def ref_projector(a):
    """orthogonal projector onto range(a) from an SVD basis (independent of the formula under test)"""
    a = twin(a)
    if a.shape[1] == 0:
        return np.zeros((a.shape[0], a.shape[0]))
    u, s, _ = np.linalg.svd(a, full_matrices=False)
    r = int(np.sum(s > s[0] * 1e-13)) if s.size else 0
    u = u[:, :r]
    return u @ H(u)


def o_projection(case):
    proj, _, _, _ = _impl()
    var = case.get('var')
    a = realize(case['A'], var)
    mm = realize(case['M'], dict(var or {}, scale=None) if var else None)
    a64, m64 = twin(a), twin(mm)
    m = a.shape[0]
    c2 = cond2(a) ** 2
    tol = tol_for(c2, m, 200, a, mm)
    p = call('calcProjectionMatrix', proj.calcProjectionMatrix, a)
    op = call('calcOrthogonalProjectionMatrix', proj.calcOrthogonalProjectionMatrix, a)
    obj = proj.Projection(a)
    inexact_result('calcProjectionMatrix', p, a)
    inexact_result('calcOrthogonalProjectionMatrix', op, a)
    eye = np.eye(m)
    sa, sm = nz(np.abs(a64).max() if a64.size else 0), nz(np.abs(m64).max() if m64.size else 0)
    ref = ref_projector(a)
    pm = call('Projection.project', obj.project, mm)
    om = call('Projection.oProject', obj.oProject, mm)
    rm = call('Projection.reflect', obj.reflect, mm)
    rr = call('Projection.reflect', obj.reflect, rm)
    cls_sfx = (':cond>1e4' if c2 > 1e8 else '') + vtag(var)
    if p.shape != (m, m) or op.shape != (m, m) or pm.shape != mm.shape:
        return 'shape' + cls_sfx, 'P %s oP %s project %s' % (p.shape, op.shape, pm.shape)
    checks = [
        ('not-hermitian', np.abs(p - H(p)).max()),
        ('not-idempotent', np.abs(p @ p - p).max()),
        ('does-not-fix-A', (np.abs(p @ a64 - a64).max() if a64.size else 0.0) / sa),
        ('not-the-column-space-projector', np.abs(p - ref).max()),
        ('not-complementary', np.abs(p + op - eye).max()),
        ('oproj-not-annihilating-A', (np.abs(op @ a64).max() if a64.size else 0.0) / sa),
        ('oproj-not-idempotent', np.abs(op @ op - op).max()),
        ('project-method', (np.abs(pm - ref @ m64).max() if m64.size else 0.0) / sm),
        ('oproject-method', (np.abs(pm + om - m64).max() if m64.size else 0.0) / sm),
        ('reflect-not-involutive', (np.abs(rr - m64).max() if m64.size else 0.0) / sm),
        ('reflect-wrong', (np.abs(rm - (m64 - 2 * ref @ m64)).max() if m64.size else 0.0) / sm),
    ]
    for name, err in checks:
        if not (err <= tol):
            return name + cls_sfx, 'error %.3e > %.3e (cond(A)=%.2e)' % (err, tol, math.sqrt(c2))
    if not (same(obj.Q, p) and same(obj.oQ, op)):
        return 'R7:object-differs-from-static' + vtag(var), 'Projection(A).Q / .oQ differ from the static results'
    if var and var.get('layout'):
        # R2: positionally equal to the result for the C-contiguous copy
        p2 = proj.calcProjectionMatrix(np.ascontiguousarray(a))
        if not np.abs(p2 - p).max() <= tol:
            return 'R2:layout-changes-result' + vtag(var), 'max difference %.3e' % np.abs(p2 - p).max()
    return None


def o_projection_invariance(case):
    proj, _, _, _ = _impl()
    var = case.get('var')
    a = realize(case['A'], var)
    t = dec(case['T'])
    u = dec(case['U'])
    a64 = twin(a)
    m = a.shape[0]
    c2 = max(cond2(a), cond2(a64 @ t)) ** 2
    tol = tol_for(c2, m, 200, a)
    p = proj.calcProjectionMatrix(a)
    pb = proj.calcProjectionMatrix(a64 @ t)
    pu = proj.calcProjectionMatrix(u @ a64)
    e1 = np.abs(pb - p).max()
    if not e1 <= tol:
        return 'basis-change-changes-projector' + vtag(var), 'error %.3e > %.3e' % (e1, tol)
    e2 = np.abs(pu - u @ p @ H(u)).max()
    if not e2 <= tol:
        return 'not-unitary-covariant' + vtag(var), 'error %.3e > %.3e' % (e2, tol)
    if var and var.get('scale') is not None:
        # R6: the projector does not depend on the scale of the basis
        p1 = proj.calcProjectionMatrix(twin(realize(case['A'], dict(var, scale=None))))
        e3 = np.abs(p1 - p).max()
        if not e3 <= tol:
            return 'R6:scale-changes-projector' + vtag(var), 'error %.3e > %.3e' % (e3, tol)
    return None


def ref_chordal_sq(a, b):
    """(p+q)/2 - sum cos^2 of the principal angles, from SVD bases"""
    a, b = twin(a), twin(b)
    if a.shape[1] == 0 or b.shape[1] == 0:
        return (a.shape[1] + b.shape[1]) / 2.0
    ua = np.linalg.svd(a, full_matrices=False)[0]
    ub = np.linalg.svd(b, full_matrices=False)[0]
    p, q = ua.shape[1], ub.shape[1]
    s = np.linalg.svd(H(ua) @ ub, compute_uv=False)
    return max(0.0, (p + q) / 2.0 - float(np.sum(np.minimum(s, 1.0) ** 2)))


def three_distances(a, b):
    _, met, _, _ = _impl()
    d1 = float(call('calc_chordal_distance', met.calc_chordal_distance, a, b))
    d2 = float(call('calc_chordal_distance_2', met.calc_chordal_distance_2, a, b))
    ang = call('calc_principal_angles', met.calc_principal_angles, a, b)
    d3 = float(call('calc_chordal_distance_from_principal_angles', met.calc_chordal_distance_from_principal_angles, ang))
    return d1, d2, d3


def o_chordal(case):
    var = case.get('var')
    a = realize(case['A'], var)
    vb = dict(var, scale=case['scaleB']) if (var and 'scaleB' in case) else var
    b = realize(case['B'], vb)
    p, q = a.shape[1], b.shape[1]
    c2 = max(cond2(a), cond2(b)) ** 2
    tol = tol_for(c2, a.shape[0], 400, a, b)
    d1, d2, d3 = three_distances(a, b)
    ref = ref_chordal_sq(a, b)
    sfx = vtag(var)
    if not abs(d1 * d1 - ref) <= tol:
        return 'chordal-wrong' + sfx, 'calc_chordal_distance^2=%r reference=%r' % (d1 * d1, ref)
    if not abs(d2 * d2 - ref) <= tol:
        return 'chordal2-wrong' + sfx, 'calc_chordal_distance_2^2=%r reference=%r' % (d2 * d2, ref)
    if not abs(d3 * d3 - d1 * d1) <= tol:
        cls = 'disagree:dims-equal' if p == q else 'disagree:dims-differ'
        return cls + (sfx if p == q else ''), 'principal-angle form %r, projector forms %r / %r (p=%d q=%d)' % (d3, d1, d2, p, q)
    e1, e2, e3 = three_distances(b, a)
    for x, y, nm in ((d1, e1, 'chordal'), (d2, e2, 'chordal2'), (d3, e3, 'angles')):
        if not abs(x * x - y * y) <= tol:
            return 'not-symmetric:' + nm + sfx, 'd(A,B)=%r d(B,A)=%r' % (x, y)
    return None


def o_chordal_invariance(case):
    var = case.get('var')
    a = twin(realize(case['A'], var))
    b = twin(realize(case['B'], var))
    ta = dec(case['TA'])
    tb = dec(case['TB'])
    u = dec(case['U'])
    c2 = max(cond2(a), cond2(b), cond2(a @ ta), cond2(b @ tb)) ** 2
    tol = max(1e-9, 400 * EPS * c2 * a.shape[0])
    base = three_distances(a, b)
    z = three_distances(a, a @ ta)
    names = ('chordal', 'chordal2', 'angles')
    sfx = vtag(var)
    for d, nm in zip(z, names):
        if not d * d <= tol:
            return 'nonzero-for-equal-span:' + nm + sfx, 'd(A, A T)=%r' % d
    nb = three_distances(a @ ta, b @ tb)
    for d, e, nm in zip(base, nb, names):
        if not abs(d * d - e * e) <= tol:
            return 'not-basis-invariant:' + nm + sfx, 'd(A,B)=%r d(A T1,B T2)=%r' % (d, e)
    nu = three_distances(u @ a, u @ b)
    for d, e, nm in zip(base, nu, names):
        if not abs(d * d - e * e) <= tol:
            return 'not-unitary-invariant:' + nm + sfx, 'd(A,B)=%r d(UA,UB)=%r' % (d, e)
    return None


def o_gmd(case):
    """first-principles check of the decomposition; with case['tol'] > 0 only the p = #{S >= tol} largest
    singular values are in use and Q R P^H must be the rank-p truncation U S_p V^H (theorem
    gmd_correct_truncated)"""
    _, _, misc, _ = _impl()
    var = case.get('var')
    a = twin(realize(case['A'], dict(var or {}, dtype=None, layout=None)))
    m, n = a.shape
    u, s, vh = np.linalg.svd(a)
    if var and var.get('dtype') == 'f32':
        u, vh = u.astype(np.complex64 if np.iscomplexobj(u) else np.float32), vh.astype(np.complex64 if np.iscomplexobj(vh) else np.float32)
    lay = (var or {}).get('layout')
    u, vh = relayout(u, lay), relayout(vh, lay)
    tol0 = float(case.get('tol') or 0.0)
    if tol0 > 0.0:
        q, r, p = call('gmd', misc.gmd, u, s, vh, tol0)
    else:
        q, r, p = call('gmd', misc.gmd, u, s, vh)
    k = int(np.sum(s >= tol0))
    sfx = (':tol>0' if tol0 > 0.0 else '') + vtag(var)
    e0 = eps_of(u, vh) / EPS
    tol = 1e-9 * max(1.0, (s[0] / s[k - 1])) * e0
    if q.shape != (m, m) or r.shape != (m, n) or p.shape != (n, n):
        return 'shape' + sfx, 'shapes %s %s %s' % (q.shape, r.shape, p.shape)
    sp = np.zeros((m, n))
    sp[np.arange(k), np.arange(k)] = s[:k]
    a_p = a if k == min(m, n) else twin(u) @ sp @ twin(vh)
    e = np.abs(twin(q) @ r @ H(twin(p)) - a_p).max() / nz(s[0])
    if not e <= tol:
        return 'does-not-reconstruct' + sfx, 'max |Q R P^H - A%s| / s1 = %.3e' % ('' if k == min(m, n) else '_p', e)
    e = max(np.abs(H(twin(q)) @ twin(q) - np.eye(m)).max(), np.abs(H(twin(p)) @ twin(p) - np.eye(n)).max())
    if not e <= tol:
        return 'factors-not-orthonormal' + sfx, 'max deviation %.3e' % e
    if np.any(np.tril(r, -1) != 0):
        return 'R-not-upper-triangular' + sfx, 'non-zero entry below the diagonal'
    gm = math.exp(float(np.mean(np.log(s[:k]))))
    e = np.abs(np.diag(r)[:k] - gm).max() / gm
    if not e <= tol:
        return 'diagonal-not-geometric-mean' + sfx, 'diag(R)=%r geometric mean=%r' % (np.diag(r)[:k].tolist(), gm)
    return None


S_FORMS = ['int64', 'int32', 'uint8', 'int8', 'uint16', 'float32', 'float16', 'float64']


def o_gmd_typed_s(case):
    """R1 for the singular-value ARGUMENT of gmd (in the other gmd cases S is what np.linalg.svd returned, a
    float64 array): integer-valued singular values handed over as an integer / narrow float array or a python
    sequence must give the decomposition of the float64 twin (the geometric mean of integers is not an integer)"""
    _, _, misc, _ = _impl()
    rs = np.random.RandomState(case['seed'])
    m, n = case['m'], case['n']
    cplx = case['cplx']
    def unitary(k):
        z = rs.randn(k, k) + (1j * rs.randn(k, k) if cplx else 0)
        return np.linalg.qr(z)[0]
    u, vh = unitary(m), unitary(n)
    vals = [float(v) for v in case['S']]
    form = case['form']
    if form == 'list':
        sarg = [int(v) for v in vals]
    elif form == 'tuple':
        sarg = tuple(int(v) for v in vals)
    else:
        sarg = np.array(vals, dtype=form)
    sfx = ':S-form=' + form
    try:
        q, r, p = misc.gmd(u, sarg, vh)
    except Exception as e:
        return 'gmd-typed-S:raises' + sfx, '%s: %s' % (type(e).__name__, str(e)[:120])
    k = len(vals)
    sp = np.zeros((m, n))
    sp[np.arange(k), np.arange(k)] = vals
    a = u @ sp @ vh
    e = np.abs(q @ r @ H(p) - a).max() / max(vals)
    if not e <= 1e-9 * max(vals) / min(vals):
        return 'gmd-typed-S:does-not-reconstruct' + sfx, 'max |Q R P^H - U S V^H| / s1 = %.3e for S = %r (%s)' % (e, vals, form)
    gm = math.exp(float(np.mean(np.log(vals))))
    if not np.abs(np.diag(r)[:k] - gm).max() <= 1e-9 * gm * max(vals) / min(vals):
        return 'gmd-typed-S:diagonal-not-geometric-mean' + sfx, 'diag(R)=%r gm=%r' % (np.diag(r)[:k].tolist(), gm)
    return None


def eig_gap_class(c):
    w = np.linalg.eigvalsh(twin(c))
    if w.size < 2:
        return 'distinct-eigenvalues'
    gap = np.min(np.diff(w)) / max(abs(w[-1]), 1e-300)
    return 'repeated-eigenvalue' if gap < 1e-6 else 'distinct-eigenvalues'


def o_whitening(case):
    _, _, misc, _ = _impl()
    var = case.get('var')
    c = realize(case['C'], var)
    c64 = twin(c)
    n = c.shape[0]
    w = call('calc_whitening_matrix', misc.calc_whitening_matrix, c)
    inexact_result('calc_whitening_matrix', w)
    tol = tol_for(cond2(c), n, 200, c)
    w64 = twin(w)
    e = np.abs(H(w64) @ c64 @ w64 - np.eye(n)).max() if n else 0.0
    if not e <= tol:
        return 'not-identity:' + eig_gap_class(c) + vtag(var), 'max |W^H C W - I| = %.3e (smallest eigenvalue %.3e)' % (
            e, float(np.linalg.eigvalsh(c64)[0]))
    return None


def o_update_inv(case):
    _, _, misc, _ = _impl()
    var = case.get('var')
    a = twin(realize(case['A'], dict(var or {}, dtype=None, layout=None)))
    d = realize(case['d'], var)
    n = a.shape[0]
    inv_a = np.linalg.inv(a) if n else np.zeros((0, 0))
    dt = (var or {}).get('dtype')
    if dt == 'f32':
        inv_a = inv_a.astype(np.complex64 if np.iscomplexobj(inv_a) else np.float32)
    elif dt in INT_DTYPES:
        # an integer-dtype inverse: A is (numerically) a signed permutation matrix times +-1
        inv_a = np.rint(inv_a.real).astype(dt if dt != 'uint8' else 'int16')
    inv_a = relayout(inv_a, (var or {}).get('layout'))
    out = call('update_inv_sum_diag', misc.update_inv_sum_diag, inv_a, d)
    inexact_result('update_inv_sum_diag', out, inv_a, d)
    d64 = twin(d)
    full = np.zeros(n, dtype=d64.dtype)
    full[:d64.size] = d64
    target = a + np.diag(full)
    steps = range(d64.size) if n <= 32 else ([d64.size - 1] if d64.size else [])
    conds = [cond2(a)] + [cond2(a + np.diag(np.concatenate([full[:i + 1], np.zeros(n - i - 1)]))) for i in steps]
    tol = tol_for(max(conds) ** 2, n, 500, inv_a, d)
    e = np.abs(twin(out) @ target - np.eye(n)).max() if n else 0.0
    if not e <= tol:
        return 'not-the-inverse' + vtag(var), 'max |out (A+D) - I| = %.3e (tol %.3e)' % (e, tol)
    return None


def o_eig_select(case):
    _, _, misc, _ = _impl()
    var = case.get('var')
    a = realize(case['A'], var)
    a64 = twin(a)
    n = int(case['n'])
    which = case['which']
    fn = misc.peig if which == 'peig' else misc.leig
    ncols = a.shape[1]
    sfx = vtag(var)
    if n > ncols:
        snap = np.array(a, copy=True)
        try:
            fn(a, n)
        except ValueError:
            if not same(a, snap):
                return 'R4:rejected-call-modified-input' + sfx, 'A changed by the rejected call'
            return None
        return 'no-ValueError-for-n>ncols' + sfx, 'n=%d ncols=%d' % (n, ncols)
    v, d = call(which, fn, a, n)
    inexact_result(which, v)
    if v.shape != (a.shape[0], n) or d.shape != (n,):
        return 'shape' + sfx, 'V %s D %s' % (v.shape, d.shape)
    w = np.linalg.eigvalsh(a64)               # ascending, independent kernel
    want = w[::-1][:n] if which == 'peig' else w[:n]
    scale = nz(np.abs(w).max() if w.size else 0)
    e0 = eps_of(a) / EPS
    tol = 1e-9 * scale * e0
    if not np.all(np.abs(np.asarray(d) - want) <= tol):
        return 'wrong-eigenvalues-selected' + sfx, 'got %r want %r' % (np.asarray(d).tolist(), want.tolist())
    res = np.abs(a64 @ v - v * d).max() if n else 0.0
    if not res <= 1e-8 * scale * e0:
        return 'not-eigenvectors' + sfx, 'residual %.3e' % res
    nrm = np.abs(np.linalg.norm(v, axis=0) - 1).max() if n else 0.0
    if not nrm <= 1e-9 * e0:
        return 'not-unit-norm' + sfx, 'deviation %.3e' % nrm
    return None


def lrsv_class(a, n):
    m, c = a.shape
    return 'wide:n<ncols-nrows' if (m < c and n < c - m) else 'other'


def o_lrsv(case):
    _, _, misc, _ = _impl()
    var = case.get('var')
    a = realize(case['A'], var)
    a64 = twin(a)
    n = int(case['n'])
    m, c = a.shape
    sfx = vtag(var)
    try:
        v0, v1, s1 = call('least_right_singular_vectors', misc.least_right_singular_vectors, a, n)
    except Violation:
        raise
    except Exception as e:
        return 'exception:' + lrsv_class(a, n) + sfx, repr(e)[:200]
    if v0.shape != (c, n) or v1.shape != (c, c - n) or s1.shape != (c - n,):
        return 'shape:' + lrsv_class(a, n) + sfx, 'V0 %s V1 %s S %s' % (v0.shape, v1.shape, s1.shape)
    inexact_result('least_right_singular_vectors', v0)
    sv = np.zeros(c)
    if min(m, c):
        sv[:min(m, c)] = np.linalg.svd(a64, compute_uv=False)
    asc = sv[::-1]
    e0 = eps_of(a) / EPS
    scale = nz(sv[0] if sv.size else 0)
    tol = 1e-9 * scale * e0
    v = np.hstack([twin(v0), twin(v1)])
    e = np.abs(H(v) @ v - np.eye(c)).max()
    if not e <= 1e-9 * e0:
        return 'not-orthonormal' + sfx, 'deviation %.3e' % e
    n0 = np.linalg.norm(a64 @ twin(v0), axis=0)
    if not np.all(np.abs(n0 - asc[:n]) <= tol):
        return 'V0-not-least' + sfx, '|A v0|=%r least singular values=%r' % (n0.tolist(), asc[:n].tolist())
    if not np.all(np.abs(np.asarray(s1) - asc[n:]) <= tol):
        return 'S-wrong' + sfx, 'S=%r expected %r' % (np.asarray(s1).tolist(), asc[n:].tolist())
    n1 = np.linalg.norm(a64 @ twin(v1), axis=0)
    if not np.all(np.abs(n1 - np.asarray(s1)) <= tol):
        return 'S-does-not-belong-to-V1' + sfx, '|A v1|=%r S=%r' % (n1.tolist(), np.asarray(s1).tolist())
    return None


def gpcm_class(a):
    m, c = a.shape
    if m < c:
        return 'wide'
    if a.dtype.kind in 'iu':
        return 'int-dtype'
    return 'tall-float'


def o_gpcm(case):
    _, _, misc, _ = _impl()
    var = case.get('var')
    a = realize(case['A'], var) if var else dec(case['A'])
    k = int(case['k'])
    m, c = a.shape
    sfx = vtag(var)
    try:
        out = call('get_principal_component_matrix', misc.get_principal_component_matrix, a, k)
    except Violation:
        raise
    except Exception as e:
        return 'exception:' + gpcm_class(a) + sfx, repr(e)[:200]
    af = twin(a).astype(complex)
    u, s, vh = np.linalg.svd(af, full_matrices=False)
    ak = (u[:, :k] * s[:k]) @ vh[:k, :]          # best rank-k approximation (unique: the generator keeps a gap)
    want = ak[:, :k]
    if out.shape != want.shape:
        return 'shape:' + gpcm_class(a) + sfx, 'shape %s expected %s' % (out.shape, want.shape)
    inexact_result('get_principal_component_matrix', out, a)
    gap = (s[k - 1] - (s[k] if k < s.size else 0.0)) / s[0] if k >= 1 else 1.0
    tol = 1e-9 * nz(s[0] if s.size else 0) / max(gap, 1e-6) * eps_of(a) / EPS
    e = np.abs(out - want).max() if out.size else 0.0
    if not e <= tol:
        return 'not-principal-components:' + gpcm_class(a) + sfx, 'max deviation %.3e' % e
    return None


def dlog10(x):
    return decimal.Decimal(x).log10()


SCALAR_TYPES = ['pyint', 'pyfloat', 'int8', 'uint8', 'int16', 'uint16', 'int32', 'int64', 'float64', 'float32',
                'float16']
ARRAY_SHAPES = [[], [0], [1], [3, 1], [1, 3], [2, 3], [2, 1, 3], [0, 3]]
ARRAY_DTYPES = ['float64', 'float32', 'int8', 'uint8', 'int16', 'int32', 'int64']


def mk_scalar(v, t):
    if t == 'pyint':
        return int(round(v))
    if t == 'pyfloat':
        return float(v)
    if t.startswith('uint'):
        return getattr(np, t)(abs(int(round(v))))
    return getattr(np, t)(int(round(v)) if t.startswith('int') else v)


def type_rtol(t):
    if t in ('float16',):
        return 4e-3
    if t in ('float32',):
        return 2e-6
    return 1e-12


def conv_refs(x, y, b):
    """60-digit decimal references of the six conversions at the exact binary values x, y, b"""
    decimal.getcontext().prec = 60
    D = decimal.Decimal
    return {
        'linear2dB': float(10 * dlog10(x)),
        'dB2Linear': float(D(10) ** (D(y) / 10)),
        'linear2dBm': float(10 * dlog10(x) + 30),
        'dBm2Linear': float(D(10) ** ((D(y) - 30) / 10)),
        'SNR_dB_to_EbN0_dB': float(D(y) - 10 * dlog10(b)),
        'EbN0_dB_to_SNR_dB': float(D(y) + 10 * dlog10(b)),
    }


def o_conversion_types(case):
    """R1 / R2 for the conversions: the same values as Python / numpy scalars of every width, as arrays of
    every dtype, shape and layout, must give the double precision result (or the precision of a float32 /
    float16 input), positionally, with a floating point result type"""
    _, _, _, conv = _impl()
    x, y, b = float(case['x']), float(case['y']), float(case['bits'])
    form = case['form']
    refs = conv_refs(x, y, b)
    kind = form['kind']
    if kind == 'scalar':
        t = form['type']
        rt_ = type_rtol(t)
        xs, ys, bs = mk_scalar(x, t), mk_scalar(y, t), mk_scalar(b, t)
        x, y, b = float(xs), float(ys), float(bs)          # the values actually passed
        refs = conv_refs(x, y, b)
        got = {
            'linear2dB': conv.linear2dB(xs), 'dB2Linear': conv.dB2Linear(ys), 'linear2dBm': conv.linear2dBm(xs),
            'dBm2Linear': conv.dBm2Linear(ys), 'SNR_dB_to_EbN0_dB': conv.SNR_dB_to_EbN0_dB(ys, 4),
            'EbN0_dB_to_SNR_dB': conv.EbN0_dB_to_SNR_dB(ys, 4),
            'SNR_dB_to_EbN0_dB(bits)': conv.SNR_dB_to_EbN0_dB(y, bs), 'EbN0_dB_to_SNR_dB(bits)': conv.EbN0_dB_to_SNR_dB(y, bs),
        }
        r4 = conv_refs(x, y, 4.0)
        want = dict(refs)
        want['SNR_dB_to_EbN0_dB'], want['EbN0_dB_to_SNR_dB'] = r4['SNR_dB_to_EbN0_dB'], r4['EbN0_dB_to_SNR_dB']
        want['SNR_dB_to_EbN0_dB(bits)'], want['EbN0_dB_to_SNR_dB(bits)'] = refs['SNR_dB_to_EbN0_dB'], refs['EbN0_dB_to_SNR_dB']
        cls_t = 'narrow-integer' if t in ('int8', 'uint8', 'int16', 'uint16') else t
        for nm, g in got.items():
            if np.asarray(g).dtype.kind not in 'f':
                return 'R1:integer-result-dtype:%s:%s' % (nm, cls_t), '%s(%s) has dtype %s' % (nm, t, np.asarray(g).dtype)
            w = want[nm]
            if not abs(float(g) - w) <= rt_ * max(1.0, abs(w)):
                return 'R1:scalar-type-changes-value:%s:%s' % (nm.split('(')[0], cls_t), \
                    '%s with a %s argument = %r, double precision value %r' % (nm, t, float(g), w)
        return None
    # arrays
    shape, dt, layout = tuple(form['shape']), form['dtype'], form.get('layout')
    rt_ = type_rtol(dt)
    size = int(np.prod(shape)) if shape else 1
    mult = (np.arange(size) % 60 + 1).reshape(shape) if size else np.zeros(shape)   # bounded: values stay in every dtype's range
    if form.get('broadcast'):
        xa = np.broadcast_to(np.array(x, dtype=dt), shape)
        ya = np.broadcast_to(np.array(y, dtype=dt), shape)
        mult = np.ones(shape)
    else:
        isint = dt.startswith(('int', 'uint'))
        xa = relayout((np.round(x) + mult if isint else x * mult).astype(dt), layout)
        ya = relayout(((abs(np.round(y)) if dt.startswith('uint') else np.round(y)) + mult if isint
                       else y + mult * 0.5).astype(dt), layout)
    cls_t = 'array:' + ('narrow-integer' if dt in ('int8', 'uint8', 'int16') else dt)
    for nm, fn, arr in (('linear2dB', conv.linear2dB, xa), ('linear2dBm', conv.linear2dBm, xa),
                        ('dB2Linear', conv.dB2Linear, ya), ('dBm2Linear', conv.dBm2Linear, ya),
                        ('SNR_dB_to_EbN0_dB', lambda v: conv.SNR_dB_to_EbN0_dB(v, 4), ya),
                        ('EbN0_dB_to_SNR_dB', lambda v: conv.EbN0_dB_to_SNR_dB(v, 4), ya)):
        snap = np.array(arr, copy=True)
        out = fn(arr)
        if not same(arr, snap):
            return 'R3:input-modified:' + nm, 'the argument array changed'
        if np.shape(out) != shape:
            return 'R2:shape-changed:' + nm, 'input shape %s result shape %s' % (shape, np.shape(out))
        if np.asarray(out).dtype.kind != 'f':
            return 'R1:integer-result-dtype:%s:%s' % (nm, cls_t), 'result dtype %s' % np.asarray(out).dtype
        flat_in = np.asarray(arr, dtype=float).reshape(-1)
        flat_out = np.asarray(out, dtype=float).reshape(-1)
        for vi, vo in zip(flat_in, flat_out):
            w = conv_refs(vi if nm.startswith('linear') else 1.0, vi, 4.0)[nm]
            if not abs(vo - w) <= rt_ * max(1.0, abs(w)):
                return 'R1R2:array-changes-value:%s:%s' % (nm, cls_t), \
                    '%s of element %r (dtype %s, shape %s, layout %s) = %r, double precision value %r' % (
                        nm, vi, dt, shape, layout, vo, w)
    return None


def o_conversion(case):
    _, _, _, conv = _impl()
    decimal.getcontext().prec = 60
    x = float(case['x'])          # positive linear value
    y = float(case['y'])          # dB value
    b = int(case['bits'])
    rt = 1e-12
    # definitions against 60-digit decimal arithmetic
    ref_db = float(10 * dlog10(x))
    if not abs(conv.linear2dB(x) - ref_db) <= rt * max(1.0, abs(ref_db)):
        return 'linear2dB-wrong', 'linear2dB(%r)=%r reference %r' % (x, conv.linear2dB(x), ref_db)
    ref_lin = float(decimal.Decimal(10) ** (decimal.Decimal(y) / 10))
    if not abs(conv.dB2Linear(y) - ref_lin) <= rt * ref_lin:
        return 'dB2Linear-wrong', 'dB2Linear(%r)=%r reference %r' % (y, conv.dB2Linear(y), ref_lin)
    ref_dbm = float(10 * dlog10(x) + 30)
    if not abs(conv.linear2dBm(x) - ref_dbm) <= rt * max(1.0, abs(ref_dbm)):
        return 'linear2dBm-wrong', 'linear2dBm(%r)=%r reference %r' % (x, conv.linear2dBm(x), ref_dbm)
    ref_lin_m = float(decimal.Decimal(10) ** ((decimal.Decimal(y) - 30) / 10))
    if not abs(conv.dBm2Linear(y) - ref_lin_m) <= rt * ref_lin_m:
        return 'dBm2Linear-wrong', 'dBm2Linear(%r)=%r reference %r' % (y, conv.dBm2Linear(y), ref_lin_m)
    # round trips
    r = conv.dB2Linear(conv.linear2dB(x))
    if not abs(r - x) <= 1e-11 * x:
        return 'roundtrip:linear->dB->linear', '%r -> %r' % (x, r)
    r = conv.linear2dB(conv.dB2Linear(y))
    if not abs(r - y) <= 1e-11 * max(1.0, abs(y)):
        return 'roundtrip:dB->linear->dB', '%r -> %r' % (y, r)
    r = conv.dBm2Linear(conv.linear2dBm(x))
    if not abs(r - x) <= 1e-11 * x:
        return 'roundtrip:linear->dBm->linear', '%r -> %r' % (x, r)
    r = conv.linear2dBm(conv.dBm2Linear(y))
    if not abs(r - y) <= 1e-11 * max(1.0, abs(y)):
        return 'roundtrip:dBm->linear->dBm', '%r -> %r' % (y, r)
    e = conv.SNR_dB_to_EbN0_dB(y, b)
    ref_e = float(decimal.Decimal(y) - 10 * dlog10(b))
    if not abs(e - ref_e) <= rt * max(1.0, abs(ref_e)):
        return 'SNR_dB_to_EbN0_dB-wrong', 'got %r reference %r' % (e, ref_e)
    r = conv.EbN0_dB_to_SNR_dB(e, b)
    if not abs(r - y) <= 1e-11 * max(1.0, abs(y)):
        return 'roundtrip:SNR->EbN0->SNR', '%r -> %r' % (y, r)
    r = conv.SNR_dB_to_EbN0_dB(conv.EbN0_dB_to_SNR_dB(y, b), b)
    if not abs(r - y) <= 1e-11 * max(1.0, abs(y)):
        return 'roundtrip:EbN0->SNR->EbN0', '%r -> %r' % (y, r)
    # array path
    arr = np.array([x, 2 * x, x / 3])
    r = conv.dB2Linear(conv.linear2dB(arr))
    if not np.all(np.abs(r - arr) <= 1e-11 * arr):
        return 'roundtrip:array', '%r -> %r' % (arr.tolist(), r.tolist())
    return None


def o_rejected_calls(case):
    """R4: a call that raises leaves its arguments untouched and later calls behave as if it never happened"""
    _, _, misc, _ = _impl()
    a = dec(case['A'])                       # Hermitian
    n = int(case['n'])
    ncols = a.shape[1]
    for which, fn in (('peig', misc.peig), ('leig', misc.leig)):
        fresh = fn(a.copy(), n)
        a1 = a.copy()
        try:
            fn(a1, ncols + int(case['excess']))
            return 'R4:no-ValueError:' + which, 'n = ncols + %d accepted' % case['excess']
        except ValueError:
            pass
        if not same(a1, a):
            return 'R4:rejected-call-modified-input:' + which, 'A changed'
        after = fn(a1, n)
        if not (same(after[0], fresh[0]) and same(after[1], fresh[1])):
            return 'R4:result-differs-after-rejected-call:' + which, 'results differ from a fresh call'
    inv_a = np.linalg.inv(a + (np.abs(a).sum() + 1) * np.eye(ncols))
    d = np.linspace(1.0, 2.0, ncols) * nz(np.abs(inv_a).max()) ** -1
    fresh = misc.update_inv_sum_diag(inv_a.copy(), d.copy())
    i1, dl = inv_a.copy(), np.concatenate([d, d[:1]])
    dl0 = dl.copy()
    try:
        misc.update_inv_sum_diag(i1, dl)
        return 'R4:no-IndexError:update_inv_sum_diag', 'a diagonal longer than the matrix was accepted'
    except IndexError:
        pass
    if not (same(i1, inv_a) and same(dl, dl0)):
        return 'R4:rejected-call-modified-input:update_inv_sum_diag', 'invA or the diagonal changed'
    if not same(misc.update_inv_sum_diag(i1, d), fresh):
        return 'R4:result-differs-after-rejected-call:update_inv_sum_diag', 'results differ from a fresh call'
    r = dec(case['R'])                       # tall full-rank matrix
    fresh = misc.get_principal_component_matrix(r.copy(), 1)
    r1 = r.copy()
    try:
        misc.get_principal_component_matrix(r1, r.shape[0] + 1)
        raised = False
    except Exception:
        raised = True
    if raised and not same(r1, r):
        return 'R4:rejected-call-modified-input:get_principal_component_matrix', 'A changed'
    if not same(misc.get_principal_component_matrix(r1, 1), fresh):
        return 'R4:result-differs-after-rejected-call:get_principal_component_matrix', 'results differ from a fresh call'
    return None


def o_projection_history(case):
    """R3 / R7: a Projection object used repeatedly, in any order, behaves like a freshly built one; results
    handed out earlier never change; the caller's matrix may be changed after construction; two objects
    built from the same array do not influence each other"""
    proj, _, _, _ = _impl()
    a = dec(case['A'])
    ms = [dec(m) for m in case['Ms']]
    a_shared = a.copy()
    obj = proj.Projection(a_shared)
    other = proj.Projection(a_shared)         # second user of the same array
    q0, oq0 = obj.Q.copy(), obj.oQ.copy()
    handed = []
    for step, (op, mi) in enumerate(case['ops']):
        mm = ms[mi]
        snap = mm.copy()
        r = getattr(obj, op)(mm)
        if not same(mm, snap):
            return 'R3:input-modified:Projection.' + op, 'M changed (step %d)' % step
        fresh = getattr(proj.Projection(a.copy()), op)(mm.copy())
        if not same(r, fresh):
            return 'R7:history-dependent:Projection.' + op, 'step %d differs from a fresh object by %.3e' % (
                step, float(np.abs(r - fresh).max()))
        if isinstance(r, np.ndarray) and r.size and (np.shares_memory(r, mm) or np.shares_memory(r, obj.Q)
                                                       or np.shares_memory(r, obj.oQ)):
            return 'R3:output-aliases-internal:Projection.' + op, 'result shares memory with M / Q / oQ'
        handed.append((r, r.copy()))
        if step == len(case['ops']) // 2:
            a_shared[...] = 0                  # the caller reuses its buffer
            getattr(other, op)(mm)
    if not (same(obj.Q, q0) and same(obj.oQ, oq0)):
        return 'R7:projection-matrices-changed', 'Q / oQ changed during the history'
    if not (same(other.Q, q0) and same(other.oQ, oq0)):
        return 'R7:shared-array-object-changed', 'the second object built from the same array changed'
    for r, c in handed:
        if not same(r, c):
            return 'R3:earlier-result-changed', 'a result handed out earlier changed after later calls'
    return None


def o_independence(case):
    """R3: results are fresh values: calling again (with other or the same arguments) never changes a result
    handed out before, and the same arguments give the same result (no hidden state)"""
    proj, met, misc, conv = _impl()
    a, b = dec(case['A']), dec(case['B'])
    hm = a @ H(a) + np.eye(a.shape[0])
    inv_h = np.linalg.inv(hm)
    dg = np.linspace(0.5, 1.5, a.shape[0])
    u, s, vh = np.linalg.svd(a)
    routines = [
        ('calcProjectionMatrix', lambda x, y: proj.calcProjectionMatrix(x)),
        ('calcOrthogonalProjectionMatrix', lambda x, y: proj.calcOrthogonalProjectionMatrix(x)),
        ('calc_principal_angles', lambda x, y: met.calc_principal_angles(x, y)),
        ('least_right_singular_vectors', lambda x, y: misc.least_right_singular_vectors(x, 1)),
        ('get_principal_component_matrix', lambda x, y: misc.get_principal_component_matrix(x, 1)),
        ('peig', lambda x, y: misc.peig(x @ H(x), 1)),
        ('leig', lambda x, y: misc.leig(x @ H(x), 1)),
        ('calc_whitening_matrix', lambda x, y: misc.calc_whitening_matrix(H(x) @ x + np.eye(x.shape[1]))),
        ('update_inv_sum_diag', lambda x, y: misc.update_inv_sum_diag(inv_h if x is a else inv_h.T.copy(), dg)),
        ('gmd', lambda x, y: misc.gmd(*np.linalg.svd(x))),
        ('dB2Linear', lambda x, y: conv.dB2Linear(np.abs(x))),
        ('linear2dB', lambda x, y: conv.linear2dB(np.abs(x) + 1)),
    ]
    flat = lambda r: list(r) if isinstance(r, tuple) else [r]
    for nm, f in routines:
        r1 = flat(f(a, b))
        c1 = [np.array(x, copy=True) for x in r1]
        f(b, a)
        for x in r1:                       # R13: the caller reuses / overwrites what it was handed
            if isinstance(x, np.ndarray) and x.size and x.flags.writeable:
                x[...] = 7
        r3 = flat(f(a, b))
        r1 = c1
        for x, c, y in zip(r1, c1, r3):
            if not same(x, c):
                return 'R3:earlier-result-changed:' + nm, 'a result changed after a later call'
            if not same(np.asarray(y), c):
                return 'R3/R13:hidden-state:' + nm, ('the same arguments gave a different result the second time '
                                                      '(after the caller overwrote the first result)')
            for z in (a, b):
                if isinstance(x, np.ndarray) and x.size and np.shares_memory(x, z):
                    return 'R3:output-aliases-input:' + nm, 'a result shares memory with an argument'
    return None


# ------------------------------------------------ R8 - R14 (argument forms, index types, mixed types, ...)
def genrec(seed, shape, cplx, form='gauss'):
    """compact replayable recipe of a large matrix (R14): regenerated by dec()"""
    return {'kind': 'gen', 'seed': int(seed), 'shape': list(shape), 'cplx': bool(cplx), 'form': form}


def gen_from_recipe(d):
    rs = np.random.RandomState(d['seed'])
    m, k = d['shape']
    x = rs.randn(m, k) + (1j * rs.randn(m, k) if d['cplx'] else 0)
    if d['form'] == 'herm':           # Hermitian, well separated eigenvalues
        q = np.linalg.qr(x)[0]
        return (q * np.arange(1.0, m + 1)) @ H(q)
    if d['form'] == 'cov':            # white noise + one interferer (eigenvalue 1 with multiplicity m-1)
        v = x[:, :1]
        return np.eye(m) + v @ H(v)
    return x


INDEX_TYPES = ['int', 'int8', 'int16', 'int32', 'int64', 'uint8', 'uint16', 'uint32', 'uint64', 'intp', '0-d', 'bool']


def mk_index(n, t):
    """the count / index n in the given Python or numpy form (None when the type cannot hold it)"""
    n = int(n)
    if t == 'int':
        return n
    if t == 'bool':
        return bool(n) if n in (0, 1) else None
    if t == '0-d':
        return np.array(n)
    info = np.iinfo(getattr(np, t))
    if not (info.min <= n <= info.max):
        return None
    return getattr(np, t)(n)


def flat_out(r):
    return list(r) if isinstance(r, tuple) else [r]


def same_out(r1, r2):
    a, b = flat_out(r1), flat_out(r2)
    return len(a) == len(b) and all(same(np.asarray(x), np.asarray(y)) for x, y in zip(a, b))


def o_argument_forms(case):
    """R8: positional = keyword = default-given-explicitly; documented equivalent entry points agree"""
    proj, met, misc, conv = _impl()
    a, b, mm = dec(case['A']), dec(case['B']), dec(case['M'])
    hm = a @ H(a)
    cov = H(a) @ a + np.eye(a.shape[1])
    inv_c = np.linalg.inv(cov)
    dg = np.linspace(0.5, 1.5, a.shape[1])
    n = int(case['n'])
    x, y, bits = float(case['x']), float(case['y']), int(case['bits'])
    u, s, vh = np.linalg.svd(a)
    ang = met.calc_principal_angles(a, b)
    forms = [
        ('calcProjectionMatrix', lambda: proj.calcProjectionMatrix(a), [lambda: proj.calcProjectionMatrix(A=a)]),
        ('calcOrthogonalProjectionMatrix', lambda: proj.calcOrthogonalProjectionMatrix(a),
         [lambda: proj.calcOrthogonalProjectionMatrix(A=a)]),
        ('Projection', lambda: proj.Projection(a).Q, [lambda: proj.Projection(A=a).Q]),
        ('Projection.project', lambda: proj.Projection(a).project(mm), [lambda: proj.Projection(a).project(M=mm)]),
        ('Projection.oProject', lambda: proj.Projection(a).oProject(mm), [lambda: proj.Projection(a).oProject(M=mm)]),
        ('Projection.reflect', lambda: proj.Projection(a).reflect(mm), [lambda: proj.Projection(a).reflect(M=mm)]),
        ('calc_principal_angles', lambda: met.calc_principal_angles(a, b),
         [lambda: met.calc_principal_angles(matrix1=a, matrix2=b), lambda: met.calc_principal_angles(a, matrix2=b),
          lambda: met.calc_principal_angles(matrix2=b, matrix1=a)]),
        ('calc_chordal_distance', lambda: met.calc_chordal_distance(a, b),
         [lambda: met.calc_chordal_distance(matrix1=a, matrix2=b), lambda: met.calc_chordal_distance(matrix2=b, matrix1=a)]),
        ('calc_chordal_distance_2', lambda: met.calc_chordal_distance_2(a, b),
         [lambda: met.calc_chordal_distance_2(matrix1=a, matrix2=b), lambda: met.calc_chordal_distance_2(a, matrix2=b)]),
        ('calc_chordal_distance_from_principal_angles', lambda: met.calc_chordal_distance_from_principal_angles(ang),
         [lambda: met.calc_chordal_distance_from_principal_angles(principalAngles=ang)]),
        ('gmd', lambda: misc.gmd(u, s, vh),
         [lambda: misc.gmd(u, s, vh, 0.0), lambda: misc.gmd(u, s, vh, tol=0.0), lambda: misc.gmd(U=u, S=s, V_H=vh),
          lambda: misc.gmd(V_H=vh, S=s, U=u, tol=0.0)]),
        ('peig', lambda: misc.peig(hm, n), [lambda: misc.peig(A=hm, n=n), lambda: misc.peig(n=n, A=hm)]),
        ('leig', lambda: misc.leig(hm, n), [lambda: misc.leig(A=hm, n=n), lambda: misc.leig(hm, n=n)]),
        ('least_right_singular_vectors', lambda: misc.least_right_singular_vectors(a, min(n, a.shape[1])),
         [lambda: misc.least_right_singular_vectors(A=a, n=min(n, a.shape[1])),
          lambda: misc.least_right_singular_vectors(n=min(n, a.shape[1]), A=a)]),
        ('get_principal_component_matrix', lambda: misc.get_principal_component_matrix(a, 1),
         [lambda: misc.get_principal_component_matrix(A=a, num_components=1),
          lambda: misc.get_principal_component_matrix(a, num_components=1)]),
        ('calc_whitening_matrix', lambda: misc.calc_whitening_matrix(cov), [lambda: misc.calc_whitening_matrix(cov_matrix=cov)]),
        ('update_inv_sum_diag', lambda: misc.update_inv_sum_diag(inv_c, dg),
         [lambda: misc.update_inv_sum_diag(invA=inv_c, diagonal=dg), lambda: misc.update_inv_sum_diag(diagonal=dg, invA=inv_c)]),
        ('dB2Linear', lambda: conv.dB2Linear(y), [lambda: conv.dB2Linear(valueIndB=y)]),
        ('linear2dB', lambda: conv.linear2dB(x), [lambda: conv.linear2dB(valueInLinear=x)]),
        ('dBm2Linear', lambda: conv.dBm2Linear(y), [lambda: conv.dBm2Linear(valueIndBm=y)]),
        ('linear2dBm', lambda: conv.linear2dBm(x), [lambda: conv.linear2dBm(valueInLinear=x)]),
        ('SNR_dB_to_EbN0_dB', lambda: conv.SNR_dB_to_EbN0_dB(y, bits),
         [lambda: conv.SNR_dB_to_EbN0_dB(SNR=y, bits_per_symb=bits), lambda: conv.SNR_dB_to_EbN0_dB(bits_per_symb=bits, SNR=y)]),
        ('EbN0_dB_to_SNR_dB', lambda: conv.EbN0_dB_to_SNR_dB(y, bits),
         [lambda: conv.EbN0_dB_to_SNR_dB(EbN0=y, bits_per_symb=bits), lambda: conv.EbN0_dB_to_SNR_dB(y, bits_per_symb=bits)]),
    ]
    for nm, pos, alts in forms:
        r0 = pos()
        for j, alt in enumerate(alts):
            try:
                r = alt()
            except TypeError as e:
                return 'R8:keyword-form-rejected:' + nm, 'form %d: %r' % (j, e)
            if not same_out(r0, r):
                return 'R8:keyword-form-differs:' + nm, 'alternative form %d gives a different result' % j
    # equivalent entry points
    p = proj.calcProjectionMatrix(a)
    op = proj.calcOrthogonalProjectionMatrix(a)
    obj = proj.Projection(a)
    eq = [
        ('module alias = static method', p, proj.Projection.calcProjectionMatrix(a)),
        ('static method through an instance', p, obj.calcProjectionMatrix(a)),
        ('Projection(A).Q', p, obj.Q),
        ('Projection(A).oQ', op, obj.oQ),
        ('orthogonal alias = static method', op, proj.Projection.calcOrthogonalProjectionMatrix(a)),
        ('project = Q.dot(M)', p.dot(mm), obj.project(mm)),
        ('oProject = oQ.dot(M)', op.dot(mm), obj.oProject(mm)),
        ('linear2dBm(x) = linear2dB(1000 x)', conv.linear2dB(x * 1000.), conv.linear2dBm(x)),
        ('dBm2Linear(y) = dB2Linear(y) / 1000', conv.dB2Linear(y) / 1000., conv.dBm2Linear(y)),
    ]
    for nm, r1, r2 in eq:
        if not same(np.asarray(r1), np.asarray(r2)):
            return 'R8:equivalent-entry-points-differ:' + nm.split(' ')[0], nm
    sc = nz(np.abs(mm).max() if mm.size else 0)
    if mm.size and not np.abs(obj.reflect(mm) - (mm - 2 * p.dot(mm))).max() <= 1e-12 * sc * max(1.0, cond2(a) ** 2):
        return 'R8:equivalent-entry-points-differ:reflect', 'reflect(M) != M - 2 P M'
    ncols = hm.shape[1]
    vp, dp = misc.peig(hm, n)
    vl, dl = misc.leig(hm, ncols)
    if not (same(dp, dl[::-1][:n]) and same(vp, vl[:, ::-1][:, :n])):
        return 'R8:equivalent-entry-points-differ:peig/leig', 'peig(A, n) is not leig(A, ncols) reversed and cut to n'
    e1 = conv.SNR_dB_to_EbN0_dB(y, bits)
    if not abs(e1 - (y - conv.linear2dB(bits))) <= 1e-12 * max(1.0, abs(y)):
        return 'R8:equivalent-entry-points-differ:EbN0', 'SNR_dB_to_EbN0_dB(y, b) != y - linear2dB(b)'
    # scalar = 0-d array = length-1 array
    for nm, fn, v in (('dB2Linear', conv.dB2Linear, y), ('linear2dB', conv.linear2dB, x),
                      ('dBm2Linear', conv.dBm2Linear, y), ('linear2dBm', conv.linear2dBm, x),
                      ('SNR_dB_to_EbN0_dB', lambda t: conv.SNR_dB_to_EbN0_dB(t, bits), y),
                      ('EbN0_dB_to_SNR_dB', lambda t: conv.EbN0_dB_to_SNR_dB(t, bits), y)):
        r0 = float(fn(v))
        for form, val, get in (('0-d', np.array(v), lambda r: float(r)), ('length-1', np.array([v]), lambda r: float(r[0])),
                               ('1x1', np.array([[v]]), lambda r: float(r[0, 0]))):
            r = fn(val)
            if np.shape(r) != np.shape(val) or not abs(get(r) - r0) <= 1e-15 * max(1.0, abs(r0)):
                return 'R8:scalar-vs-array-form:%s:%s' % (nm, form), '%s(%r)=%r, scalar result %r' % (nm, val, r, r0)
    return None


def o_index_forms(case):
    """R9: counts / indexes as Python int, numpy integers of every width, unsigned, intp, 0-d array, bool"""
    _, _, misc, conv = _impl()
    a = dec(case['A'])                  # m x c
    hm = dec(case['Hm'])                # Hermitian
    n, k, bits = int(case['n']), int(case['k']), int(case['bits'])
    y = float(case['y'])
    big = ':n>256' if max(n, k) > 256 else ''
    ref = {
        'peig': misc.peig(hm, min(n, hm.shape[1])), 'leig': misc.leig(hm, min(n, hm.shape[1])),
        'least_right_singular_vectors': misc.least_right_singular_vectors(a, min(n, a.shape[1])),
        'get_principal_component_matrix': misc.get_principal_component_matrix(a, k),
        'SNR_dB_to_EbN0_dB': conv.SNR_dB_to_EbN0_dB(y, bits), 'EbN0_dB_to_SNR_dB': conv.EbN0_dB_to_SNR_dB(y, bits),
    }
    for t in case['types']:
        calls = [
            ('peig', lambda v: misc.peig(hm, v), min(n, hm.shape[1])),
            ('leig', lambda v: misc.leig(hm, v), min(n, hm.shape[1])),
            ('least_right_singular_vectors', lambda v: misc.least_right_singular_vectors(a, v), min(n, a.shape[1])),
            ('get_principal_component_matrix', lambda v: misc.get_principal_component_matrix(a, v), k),
            ('SNR_dB_to_EbN0_dB', lambda v: conv.SNR_dB_to_EbN0_dB(y, v), bits),
            ('EbN0_dB_to_SNR_dB', lambda v: conv.EbN0_dB_to_SNR_dB(y, v), bits),
        ]
        for nm, fn, val in calls:
            v = mk_index(val, t)
            if v is None:
                continue
            try:
                r = fn(v)
            except Exception as e:
                return 'R9:index-type-rejected:%s:%s%s' % (nm, t, big), '%s with a %s count %r: %r' % (nm, t, v, e)
            if nm.endswith('_dB'):
                ok = abs(float(r) - float(ref[nm])) <= 1e-12 * max(1.0, abs(float(ref[nm])))
            else:
                ok = same_out(ref[nm], r)
            if not ok:
                return 'R9:index-type-changes-result:%s:%s%s' % (nm, t, big), \
                    '%s with the count %d given as %s differs from the Python int result' % (nm, val, t)
        # the guard n > ncols must also work for every type
        v = mk_index(hm.shape[1] + 1, t)
        if v is not None and t != 'bool':
            for nm, fn in (('peig', misc.peig), ('leig', misc.leig)):
                try:
                    fn(hm, v)
                    return 'R9:guard-not-applied:%s:%s%s' % (nm, t, big), 'n = ncols + 1 as %s accepted' % t
                except ValueError:
                    pass
    return None


MIXES = [('f64', 'c128'), ('c128', 'f64'), ('f32', 'c128'), ('c64', 'f64'), ('i16', 'f64'), ('i32', 'c128'),
         ('f32', 'f64'), ('i8', 'c64')]


def cast_as(x, code):
    x = np.asarray(x)
    if code == 'f64':
        return np.array(x.real, dtype=np.float64)
    if code == 'f32':
        return np.array(x.real, dtype=np.float32)
    if code == 'c128':
        return np.array(x, dtype=np.complex128)
    if code == 'c64':
        return np.array(x, dtype=np.complex64)
    return np.array(np.rint(x.real), dtype={'i8': np.int8, 'i16': np.int16, 'i32': np.int32}[code])


def o_mixed_types(case):
    """R10: arguments of one call whose element types differ (real next to complex, float32 next to
    complex128, integer next to float) give the result of the uniformly promoted twins; nothing is truncated to
    the type of the first argument"""
    proj, met, misc, conv = _impl()
    ca, cb = case['mix']
    a, b = cast_as(dec(case['A']), ca), cast_as(dec(case['B']), cb)
    common = np.result_type(a.dtype, b.dtype, np.float32)
    ta, tb = a.astype(common), b.astype(common)
    tag = ':%s+%s' % (ca, cb)
    e = eps_of(a, b)
    tol = max(200 * e, 400 * e * max(cond2(a), cond2(b)) ** 2 * a.shape[0])
    d = three_distances(a, b)
    dt = three_distances(ta, tb)
    dr = math.sqrt(ref_chordal_sq(a, b))
    for nm, x, yv in zip(('calc_chordal_distance', 'calc_chordal_distance_2', 'principal-angles'), d, dt):
        if not (abs(x * x - yv * yv) <= tol and abs(x * x - dr * dr) <= tol):
            return 'R10:mixed-dtype-differs:' + nm + tag, 'mixed %r, promoted twin %r, reference %r' % (x, yv, dr)
    # projection of a matrix of another element type
    mm = cast_as(dec(case['M']), cb)
    obj = proj.Projection(a)
    for op in ('project', 'oProject', 'reflect'):
        r = call('Projection.' + op, getattr(obj, op), mm)
        rt_ = getattr(proj.Projection(ta), op)(mm.astype(common))
        if np.iscomplexobj(mm) and not np.iscomplexobj(r):
            return 'R10:truncated-to-first-type:Projection.' + op + tag, 'complex M, result dtype %s' % r.dtype
        if np.asarray(r).dtype.kind not in 'fc':
            return 'R10:integer-result:Projection.' + op + tag, 'result dtype %s' % np.asarray(r).dtype
        if not np.abs(r - rt_).max() <= tol * nz(np.abs(mm).max()):
            return 'R10:mixed-dtype-differs:Projection.' + op + tag, 'max difference %.3e' % np.abs(r - rt_).max()
    # inverse of one type, diagonal of another
    n = a.shape[1]
    base = twin(H(a) @ a.astype(common)) + np.eye(n)
    inv_b = np.linalg.inv(base)
    if ca.startswith('i'):
        inv_x, target0 = np.eye(n, dtype=a.dtype), np.eye(n)
    else:
        inv_x, target0 = cast_as(inv_b, ca), base
    dg = cast_as(np.linspace(0.5, 1.5, n) + 0.25j * np.arange(n), cb)
    out = call('update_inv_sum_diag', misc.update_inv_sum_diag, inv_x, dg)
    if np.iscomplexobj(dg) and not np.iscomplexobj(out):
        return 'R10:truncated-to-first-type:update_inv_sum_diag' + tag, 'complex diagonal, result dtype %s' % out.dtype
    if np.asarray(out).dtype.kind not in 'fc':
        return 'R10:integer-result:update_inv_sum_diag' + tag, 'result dtype %s' % np.asarray(out).dtype
    tgt = target0 + np.diag(twin(dg))
    err = np.abs(twin(out) @ tgt - np.eye(n)).max()
    if not err <= max(200 * e, 500 * e * cond2(tgt) ** 2 * n):
        return 'R10:mixed-dtype-differs:update_inv_sum_diag' + tag, '|out (A+D) - I| = %.3e' % err
    # conversions: a list whose elements have different Python / numpy types, typed value next to typed bits
    xs = [1, 2.5, np.float32(4.0), np.int8(8), np.float64(16.5), np.uint16(33)]
    want = np.array([float(v) for v in xs])
    for nm, fn in (('linear2dB', conv.linear2dB),):
        r = np.asarray(fn(xs), dtype=float)
        w = np.array([conv_refs(float(v), 0.0, 1.0)['linear2dB'] for v in want])
        if r.shape != w.shape or not np.all(np.abs(r - w) <= 1e-12 * np.maximum(1.0, np.abs(w))):
            return 'R10:heterogeneous-list:' + nm, '%s(%r) = %r, expected %r' % (nm, xs, r.tolist(), w.tolist())
    yv = cast_as(np.array([3.0, -7.0, 12.0]), 'f32' if ca in ('f32', 'c64') else 'f64')
    for bt in ('int', 'int8', 'uint8', 'int64', '0-d'):
        r = conv.SNR_dB_to_EbN0_dB(yv, mk_index(4, bt))
        w = np.array([conv_refs(1.0, float(v), 4.0)['SNR_dB_to_EbN0_dB'] for v in yv])
        if not np.all(np.abs(np.asarray(r, dtype=float) - w) <= (1e-12 if yv.dtype == np.float64 else 2e-6) * np.maximum(1.0, np.abs(w))):
            return 'R10:mixed-dtype-differs:SNR_dB_to_EbN0_dB:%s+%s' % (yv.dtype, bt), 'got %r expected %r' % (np.asarray(r).tolist(), w.tolist())
    return None


def o_projection_derived(case):
    """R11 / R13: queries (project / oProject / reflect, repr, static methods called through the instance, copies,
    pickling) leave Q, oQ and later results unchanged; deep copies and pickle round trips are equal to and
    independent of the original; results the caller modifies in place do not leak into later results"""
    import copy
    import pickle
    proj, _, _, _ = _impl()
    a, mm, other = dec(case['A']), dec(case['M']), dec(case['B'])
    obj = proj.Projection(a.copy())
    fresh = proj.Projection(a.copy())
    q0, oq0, a0 = obj.Q.copy(), obj.oQ.copy(), np.array(obj._A, copy=True)

    def unchanged(where):
        if not (same(obj.Q, q0) and same(obj.oQ, oq0) and same(obj._A, a0)):
            raise Violation('R11:query-modified-object:' + where, 'Q / oQ / _A changed by %s' % where)
        for op in ('project', 'oProject', 'reflect'):
            if not same(getattr(obj, op)(mm), getattr(fresh, op)(mm)):
                raise Violation('R11:later-result-changed:' + where, '%s differs from a fresh object after %s' % (op, where))

    for step in case['ops']:
        if step in ('project', 'oProject', 'reflect'):
            r = getattr(obj, step)(mm)
            if r.size:
                r[...] = 7.0                                 # the caller reuses the returned buffer
            unchanged('caller-writes-into-result-of-' + step)
        elif step == 'repr':
            repr(obj), str(obj)
            unchanged('repr')
        elif step == 'static':
            obj.calcProjectionMatrix(other)
            obj.calcOrthogonalProjectionMatrix(other)
            unchanged('static-method-through-instance')
        elif step in ('deepcopy', 'pickle'):
            child = copy.deepcopy(obj) if step == 'deepcopy' else pickle.loads(pickle.dumps(obj))
            if not (same(child.Q, q0) and same(child.oQ, oq0) and same(child.project(mm), fresh.project(mm))):
                return 'R13:%s-is-not-equal' % step, 'the %s child differs from its parent' % step
            child.Q[...] = 0.0
            child.oQ[...] = 0.0
            child._A[...] = 0.0
            unchanged(step + '-child-modified')
        elif step == 'copy':
            child = copy.copy(obj)
            if not same(child.reflect(mm), fresh.reflect(mm)):
                return 'R13:copy-is-not-equal', 'the shallow copy behaves differently'
            child.Q = np.zeros_like(child.Q)                 # rebinding an attribute of the copy
            unchanged('copy-child-rebound')
    return None


def o_column_order(case):
    """R12: a subspace does not depend on the ORDER in which its basis vectors are listed; a covariance /
    Hermitian matrix with users renumbered is the same matrix up to the same renumbering"""
    proj, met, misc, _ = _impl()
    a, b = dec(case['A']), dec(case['B'])
    pa, pb = list(case['permA']), list(case['permB'])
    tol = max(1e-9, 400 * EPS * max(cond2(a), cond2(b)) ** 2 * a.shape[0])
    p0, p1 = proj.calcProjectionMatrix(a), proj.calcProjectionMatrix(a[:, pa])
    if not np.abs(p0 - p1).max() <= tol:
        return 'R12:column-order-changes-projector', 'max difference %.3e' % np.abs(p0 - p1).max()
    d0, d1 = three_distances(a, b), three_distances(a[:, pa], b[:, pb])
    for nm, x, y in zip(('calc_chordal_distance', 'calc_chordal_distance_2', 'principal-angles'), d0, d1):
        if not abs(x * x - y * y) <= tol:
            return 'R12:column-order-changes-distance:' + nm, 'd=%r, with permuted columns %r' % (x, y)
    c = H(a) @ a + np.eye(a.shape[1])
    cp = c[np.ix_(pa, pa)]
    w = misc.calc_whitening_matrix(cp)
    e = np.abs(H(w) @ cp @ w - np.eye(len(pa))).max()
    if not e <= max(1e-9, 200 * EPS * cond2(c) * len(pa)):
        return 'R12:renumbering-breaks-whitening', 'max |W^H C W - I| = %.3e' % e
    n = int(case['n'])
    for nm, fn in (('peig', misc.peig), ('leig', misc.leig)):
        d_0, d_1 = fn(c, n)[1], fn(cp, n)[1]
        if not np.all(np.abs(np.asarray(d_0) - np.asarray(d_1)) <= 1e-9 * nz(np.abs(c).max())):
            return 'R12:renumbering-changes-eigenvalues:' + nm, '%r vs %r' % (np.asarray(d_0).tolist(), np.asarray(d_1).tolist())
    rows = list(case['permR'])
    s0 = misc.least_right_singular_vectors(a, 0)[2]
    s1 = misc.least_right_singular_vectors(a[rows, :], 0)[2]
    if not np.all(np.abs(s0 - s1) <= 1e-9 * nz(np.abs(a).max())):
        return 'R12:row-order-changes-singular-values', '%r vs %r' % (s0.tolist(), s1.tolist())
    return None



ORACLES = {
    'argument-forms': o_argument_forms,
    'index-forms': o_index_forms,
    'mixed-types': o_mixed_types,
    'Projection.derived': o_projection_derived,
    'column-order': o_column_order,
    'Projection': o_projection,
    'calcProjectionMatrix.invariance': o_projection_invariance,
    'calc_chordal_distance': o_chordal,
    'calc_chordal_distance.invariance': o_chordal_invariance,
    'gmd': o_gmd,
    'gmd.typed-S': o_gmd_typed_s,
    'calc_whitening_matrix': o_whitening,
    'update_inv_sum_diag': o_update_inv,
    'peig/leig': o_eig_select,
    'least_right_singular_vectors': o_lrsv,
    'get_principal_component_matrix': o_gpcm,
    'conversion': o_conversion,
    'conversion.types': o_conversion_types,
    'rejected-calls': o_rejected_calls,
    'Projection.history': o_projection_history,
    'independence': o_independence,
}
from harness.props import c20_robust  # noqa: E402  (R15 / R16 classes)

ORACLES.update(c20_robust.ORACLES)


def run_oracle(ctx, call_name, case, key=None, nontrivial=True):
    ctx.count((call_name, key if key is not None else core.hashlib.sha1(repr(case).encode()).hexdigest()), nontrivial)
    for br in vbranches(case.get('var') if isinstance(case, dict) else None):
        ctx.branch('oracle-' + br)
    try:
        r = ORACLES[call_name](case)
    except Violation as v:
        r = (v.cls + vtag(case.get('var')), v.detail)
    except Exception as e:  # an exception where the property promises a value
        r = ('exception:' + type(e).__name__ + vtag(case.get('var')), repr(e)[:300])
    if r is not None:
        ctx.fail(call_name, r[0], case, r[1])
        ctx.branch('oracle-fail:' + call_name)
    else:
        ctx.branch('oracle-ok:' + call_name)
    return r


def replay(ctx, rep):
    try:
        r = ORACLES[rep['call']](rep['case'])
    except Exception:
        return True
    return r is not None



# ------------------------------------------------------------ case streams
def shapes(rng, tier):
    m = rng.randint(1, 8)
    k = rng.randint(1, m)
    return m, k


PROJ_KINDS = ['gauss', 'gint', 'cond', 'neardep', 'gauss']


def gen_proj_case(g, t=None):
    rng = g.rng
    m, k = shapes(rng, None)
    if t is not None and t % 10 == 3:
        m = max(m, 2)
        k = rng.randint(2, m)          # nearly dependent columns need two columns
    cplx = rng.chance(0.6) if t is None else (t % 2 == 0)
    a, kind = g.full_rank(m, k, cplx, kind=None if t is None else PROJ_KINDS[t % 5])
    c = rng.randint(1, 4)
    mm = g.raw(m, c, cplx or rng.chance(0.3))
    return a, mm, kind


def gen_pair(g, equal_dims=True):
    rng = g.rng
    m = rng.randint(1, 8) if equal_dims else rng.randint(2, 8)
    p = rng.randint(1, m)
    q = p if equal_dims else rng.choice([x for x in range(1, m + 1) if x != p])
    cplx = rng.chance(0.6)
    a, ka = g.full_rank(m, p, cplx, max_cond=1e4)
    b, kb = g.full_rank(m, q, cplx, max_cond=1e4)
    if rng.chance(0.15) and p == q:      # share part of the span
        j = rng.randint(1, p)
        b = b.copy()
        b[:, :j] = a[:, :j]
        if np.linalg.matrix_rank(b) < q or cond2(b) > 1e4:
            b, kb = g.full_rank(m, q, cplx, max_cond=1e4)
    return a, b, cplx


def gen_uisd_case(g, short=None):
    rng = g.rng
    n = rng.randint(1, 8)
    cplx = rng.chance(0.6)
    for _ in range(100):
        if rng.chance(0.6):
            c, _ = g.hpd(n, cplx, 'wishart')
            a = c
            d = np.array([10.0 ** rng.uniform(-2, 1) for _ in range(n)])
        else:
            a, _ = g.full_rank(n, n, cplx, max_cond=1e3)
            d = g.rs.randn(n) * 10.0 ** rng.uniform(-1, 1)
        if short is None:
            ln = n if rng.chance(0.8) else rng.randint(0, n)
        else:
            ln = rng.randint(0, n - 1) if short else n
        d = d[:ln]
        if cplx and rng.chance(0.3):
            d = d + 1j * g.rs.randn(ln)
        full = np.zeros(n, dtype=complex)
        full[:ln] = d
        ok = cond2(a) <= 1e3
        for i in range(ln):
            part = full.copy()
            part[i + 1:] = 0
            ok = ok and cond2(a + np.diag(part)) <= 1e3
        if ok:
            return a, d
    return np.eye(n, dtype=complex if cplx else float), np.ones(n)


def gen_herm(g, margin=True):
    """Hermitian matrix with eigenvalue gaps >= 1e-3 relative (no near-ties for the argsort decision)"""
    rng = g.rng
    n = rng.randint(1, 8)
    cplx = rng.chance(0.6)
    for _ in range(100):
        kind = rng.choice(['wishart', 'indef', 'gint'])
        if kind == 'wishart':
            x = g.raw(n, n + 1, cplx)
            a = x @ H(x)
        elif kind == 'indef':
            x = g.raw(n, n, cplx)
            a = x + H(x)
        else:
            x = g.rs.randint(-3, 4, size=(n, n)).astype(float)
            if cplx:
                x = x + 1j * g.rs.randint(-3, 4, size=(n, n))
            a = x + H(x)
        a = (a + H(a)) / 2
        w = np.linalg.eigvalsh(a)
        if not margin or n < 2 or np.min(np.diff(w)) >= 1e-3 * max(1.0, np.abs(w).max()):
            return a
    return np.diag(np.arange(1.0, n + 1))


def gen_rect(g, gap_at=None):
    """any shape 1..8 x 1..8, bounded condition"""
    rng = g.rng
    m = rng.randint(1, 8)
    c = rng.randint(1, 8)
    cplx = rng.chance(0.6)
    if m >= c:
        a, _ = g.full_rank(m, c, cplx, kind=rng.choice(['gauss', 'gint', 'cond']), max_cond=1e4)
    else:
        a, _ = g.full_rank(c, m, cplx, kind=rng.choice(['gauss', 'gint', 'cond']), max_cond=1e4)
        a = a.T.copy()
    return a


# ------------------------------------------------- variant streams (R1-R7)
def pick_var(rng, t):
    """stratified input variants: every residue class of t is one R-class combination"""
    cyc = t % 10
    tiny = 10.0 ** rng.uniform(-15, -11)
    huge = 10.0 ** rng.uniform(11, 15)
    return [None, {'dtype': 'f32'}, {'layout': 'F'}, {'scale': tiny}, {'scale': huge}, {'layout': 'rev'},
            {'dtype': INT_DTYPES[(t // 10) % len(INT_DTYPES)]}, {'layout': 'strided'},
            {'dtype': 'f32', 'layout': 'T'}, {'scale': tiny if (t // 10) % 2 else huge, 'layout': 'F'}][cyc]


def var_base(g, m, k, cplx, var, max_cond=30.0):
    """well conditioned m x k basis suited to the variant (integer valued for integer dtypes)"""
    dt = (var or {}).get('dtype')
    if dt in INT_DTYPES:
        cplx = False
    for _ in range(400):
        if dt in INT_DTYPES or g.rng.chance(0.5):
            a = g.rs.randint(-3, 4, size=(m, k)).astype(float)
            if dt == 'uint8':
                a = np.abs(a)
            if cplx:
                a = a + 1j * g.rs.randint(-3, 4, size=(m, k))
        else:
            a = g.raw(m, k, cplx)
        if min(m, k) == 0 or (np.linalg.matrix_rank(a) == min(m, k) and np.linalg.cond(a) <= max_cond):
            return a
    a = np.eye(m, k)
    return a.astype(complex) if cplx else a


def var_rect(g, var, cplx=None):
    m, c = g.rng.randint(1, 8), g.rng.randint(1, 8)
    cplx = g.rng.chance(0.5) if cplx is None else cplx
    if m >= c:
        return var_base(g, m, c, cplx, var)
    return var_base(g, c, m, cplx, var).T.copy()


def var_cov(g, n, cplx, var, t):
    dt = (var or {}).get('dtype')
    if dt in INT_DTYPES:
        x = g.rs.randint(-2, 3, size=(n, n + 1)).astype(float)
        c = x @ x.T + np.eye(n)
        if dt == 'uint8':          # non-negative entries, diagonally dominant, inside 0..255
            c = np.abs(c)
            c = c - np.diag(np.diag(c)) + np.diag(np.abs(c - np.diag(np.diag(c))).sum(axis=1) + 1.0)
        return c if np.abs(c).max() <= 120 else 3.0 * np.eye(n)
    c, _ = g.hpd(n, cplx, ['wishart', 'rank1', 'spectrum', 'ident'][t % 4])
    return c


def var_uisd(g, var):
    dt = (var or {}).get('dtype')
    if dt in INT_DTYPES:
        n = g.rng.randint(1, 6)
        perm = list(range(n))
        g.rng.shuffle(perm)
        a = np.eye(n)[perm]                     # its inverse is the integer matrix a.T
        d = np.array([float(g.rng.randint(1, 3)) for _ in range(n)])
        full_ok = all(cond2(a + np.diag(np.concatenate([d[:i + 1], np.zeros(n - i - 1)]))) <= 1e3 for i in range(n))
        if full_ok:
            return a, d
        return np.eye(n), d
    a, d = gen_uisd_case(g, short=False)
    return a, d


def conversion_forms(t):
    forms = [{'kind': 'scalar', 'type': ty} for ty in SCALAR_TYPES]
    for i, shp in enumerate(ARRAY_SHAPES):
        for j, dt in enumerate(ARRAY_DTYPES):
            if (i + j) % 3 == t % 3:
                forms.append({'kind': 'array', 'shape': shp, 'dtype': dt,
                              'layout': [None, 'F', 'rev', 'strided', 'T'][(i + j + t) % 5]})
    forms.append({'kind': 'array', 'shape': [2, 3], 'dtype': 'float64', 'broadcast': True})
    forms.append({'kind': 'array', 'shape': [4], 'dtype': 'int16', 'broadcast': True})
    return forms


def variant_oracles(ctx, n):
    """the first-principles oracles on every routine under every input variant"""
    g = Gen(ctx.rng.fork('variants'))
    rng = g.rng
    for t in range(n):
        var = pick_var(rng, t)
        cplx = (t // 10) % 2 == 0
        m = rng.randint(1, 8)
        k = rng.randint(1, m)
        a = var_base(g, m, k, cplx, var)
        run_oracle(ctx, 'Projection', {'A': enc(a), 'M': enc(g.raw(m, rng.randint(1, 3), cplx)), 'var': var})
        tm, _ = g.full_rank(k, k, np.iscomplexobj(a), max_cond=1e1)
        run_oracle(ctx, 'calcProjectionMatrix.invariance',
                   {'A': enc(a), 'T': enc(tm), 'U': enc(g.unitary(m, np.iscomplexobj(a))), 'var': var})
        b = var_base(g, m, k, cplx, var)
        case = {'A': enc(a), 'B': enc(b), 'var': var}
        if var and var.get('scale') is not None:
            case['scaleB'] = 10.0 ** rng.uniform(-15, 15)      # the two bases on unrelated scales
        run_oracle(ctx, 'calc_chordal_distance', case)
        if var is None or var.get('scale') is not None:
            run_oracle(ctx, 'calc_chordal_distance.invariance',
                       {'A': enc(a), 'B': enc(b), 'TA': enc(tm), 'TB': enc(tm.T.copy()),
                        'U': enc(g.unitary(m, np.iscomplexobj(a))), 'var': var})
        r = var_rect(g, var)
        run_oracle(ctx, 'gmd', {'A': enc(r), 'var': var})
        run_oracle(ctx, 'least_right_singular_vectors', {'A': enc(r), 'n': rng.randint(0, r.shape[1]), 'var': var})
        s = np.linalg.svd(r.astype(complex), compute_uv=False)
        ks = [kk for kk in range(1, s.size + 1) if (s[kk - 1] - (s[kk] if kk < s.size else 0.0)) >= 1e-2 * s[0]]
        if ks:
            run_oracle(ctx, 'get_principal_component_matrix', {'A': enc(r), 'k': rng.choice(ks), 'var': var})
        n_ = rng.randint(1, 6)
        run_oracle(ctx, 'calc_whitening_matrix', {'C': enc(var_cov(g, n_, cplx, var, t)), 'var': var})
        ua, ud = var_uisd(g, var)
        run_oracle(ctx, 'update_inv_sum_diag', {'A': enc(ua), 'd': enc(ud), 'var': var})
        for _ in range(50):
            x = g.rs.randint(-3, 4, size=(n_, n_)).astype(float)
            if cplx and not (var and var.get('dtype') in INT_DTYPES):
                x = x + 1j * g.rs.randint(-3, 4, size=(n_, n_))
            hm = x + H(x)
            if var and var.get('dtype') == 'uint8':
                hm = np.abs(hm)
            w = np.linalg.eigvalsh(hm)
            if n_ < 2 or np.min(np.diff(w)) >= 1e-2 * max(1.0, np.abs(w).max()):
                break
        else:
            hm = np.diag(np.arange(1.0, n_ + 1))
        run_oracle(ctx, 'peig/leig', {'A': enc(hm), 'n': rng.randint(0, n_ + 1), 'which': ['peig', 'leig'][t % 2],
                                      'var': var})
        # conversions: integer-valued, in the range of every scalar type
        forms = conversion_forms(t)
        f = forms[t % len(forms)]
        run_oracle(ctx, 'conversion.types', {'x': float(rng.randint(1, 60)), 'y': float(rng.randint(-30, 30)),
                                             'bits': float(rng.randint(1, 10)), 'form': f},
                   key=('conv-form', t, repr(f)))
        ctx.branch('oracle-R1:scalar-' + f['type'] if f['kind'] == 'scalar' else
                   'oracle-R2:array-shape-%s' % 'x'.join(map(str, f['shape'])))
        # R3 / R4 / R7
        run_oracle(ctx, 'independence', {'A': enc(var_base(g, 4, 2, cplx, None)), 'B': enc(var_base(g, 4, 2, cplx, None))})
        hh = g.raw(n_, n_, cplx)
        run_oracle(ctx, 'rejected-calls', {'A': enc(hh + H(hh)), 'n': rng.randint(0, n_), 'excess': rng.randint(1, 3),
                                           'R': enc(var_base(g, n_ + 1, max(1, n_ - 1), cplx, None))})
        ms = [g.raw(m, rng.randint(1, 3), cplx), g.raw(m, 1, cplx)[:, 0], g.raw(m, 2, False)]
        ops = [(rng.choice(['project', 'oProject', 'reflect']), rng.randint(0, 2)) for _ in range(rng.randint(3, 8))]
        run_oracle(ctx, 'Projection.history', {'A': enc(a), 'Ms': [enc(x) for x in ms], 'ops': [list(o) for o in ops]})
        ctx.branch('oracle-R3:independence')
        ctx.branch('oracle-R4:rejected-calls')
        ctx.branch('oracle-R7:object-history')


def mixed_bases(g, m, k):
    """integer valued complex bases whose real parts alone are also well conditioned (so that every cast of
    MIXES keeps full column rank)"""
    for _ in range(400):
        x = g.rs.randint(-3, 4, size=(m, k)) + 1j * g.rs.randint(-3, 4, size=(m, k))
        if (np.linalg.matrix_rank(x.real) == k and np.linalg.cond(x.real) <= 30 and np.linalg.cond(x) <= 30):
            return x
    return np.eye(m, k) * (1 + 0j)


def big_cases(seed, size, cplx):
    """R14: one case per routine with `size` (257, 258, 300, ...) columns / users / eigenvalues"""
    m = size + 43
    a, b = genrec(seed, (m, size), cplx), genrec(seed + 1, (m, size), cplx)
    hm = genrec(seed + 2, (size + 1, size + 1), cplx, 'herm')
    return [
        ('Projection', {'A': a, 'M': genrec(seed + 3, (m, 2), cplx)}),
        ('calc_chordal_distance', {'A': a, 'B': b}),
        ('gmd', {'A': genrec(seed + 4, (size, size + 1), cplx)}),
        ('calc_whitening_matrix', {'C': genrec(seed + 5, (size, size), cplx, 'cov')}),
        ('update_inv_sum_diag', {'A': genrec(seed + 6, (size, size), cplx, 'cov'),
                                 'd': enc(np.linspace(0.5, 2.0, size))}),
        ('peig/leig', {'A': hm, 'n': size, 'which': 'peig'}),
        ('peig/leig', {'A': hm, 'n': size, 'which': 'leig'}),
        ('peig/leig', {'A': hm, 'n': size + 2, 'which': 'peig'}),
        ('least_right_singular_vectors', {'A': genrec(seed + 7, (size + 1, m), cplx), 'n': size}),
        ('least_right_singular_vectors', {'A': genrec(seed + 7, (size + 1, m), cplx), 'n': 10}),
        ('get_principal_component_matrix', {'A': a, 'k': size}),
        ('get_principal_component_matrix', {'A': genrec(seed + 8, (size, m), cplx), 'k': size}),
        ('index-forms', {'A': genrec(seed + 7, (size + 1, m), cplx), 'Hm': hm, 'n': size, 'k': size, 'bits': 4, 'y': 3.0,
                         'types': [t for t in INDEX_TYPES if t not in ('int8', 'uint8', 'bool')]}),
        ('conversion.types', {'x': 2.0, 'y': -30.0, 'bits': 4.0,
                              'form': {'kind': 'array', 'shape': [size], 'dtype': 'float64', 'layout': None}}),
    ]


def r8_oracles(ctx, n):
    """argument forms, index types, mixed element types, derived objects, order of listing, large counts"""
    g = Gen(ctx.rng.fork('r8'))
    rng = g.rng
    for t in range(n):
        cplx = t % 2 == 0
        m = rng.randint(2, 8)
        k = rng.randint(1, m - 1)
        a, b = var_base(g, m, k, cplx, None), var_base(g, m, k, cplx, None)
        run_oracle(ctx, 'argument-forms', {'A': enc(a), 'B': enc(b), 'M': enc(g.raw(m, rng.randint(1, 3), cplx)),
                                           'n': rng.randint(0, m), 'x': 10.0 ** rng.uniform(-3, 3),
                                           'y': rng.uniform(-40, 40), 'bits': rng.randint(1, 8)})
        ctx.branch('oracle-R8:argument-forms')
        x = g.raw(m, m, cplx)
        hm = x + H(x)
        r = var_rect(g, None, cplx)
        run_oracle(ctx, 'index-forms', {'A': enc(r), 'Hm': enc(hm), 'n': [0, 1, rng.randint(0, m)][t % 3],
                                        'k': [1, min(r.shape)][t % 2], 'bits': [1, rng.randint(1, 10)][t % 2],
                                        'y': rng.uniform(-30, 30), 'types': INDEX_TYPES})
        ctx.branch('oracle-R9:index-types')
        mix = MIXES[t % len(MIXES)]
        ma, mb = mixed_bases(g, m, k), mixed_bases(g, m, k)
        run_oracle(ctx, 'mixed-types', {'A': enc(ma), 'B': enc(mb), 'M': enc(mixed_bases(g, m, 2 if m > 2 else 1)),
                                        'mix': list(mix)})
        ctx.branch('oracle-R10:mixed-' + '+'.join(mix))
        ops = [rng.choice(['project', 'oProject', 'reflect', 'repr', 'static', 'deepcopy', 'pickle', 'copy'])
               for _ in range(rng.randint(4, 9))] + ['deepcopy', 'pickle', 'static', 'reflect'][t % 4:][:2]
        run_oracle(ctx, 'Projection.derived', {'A': enc(a), 'B': enc(b), 'M': enc(g.raw(m, 2, cplx)), 'ops': ops})
        ctx.branch('oracle-R11:queries-do-not-mutate')
        ctx.branch('oracle-R13:derived-objects')
        pa, pb, pr = list(range(k)), list(range(k)), list(range(m))
        rng.shuffle(pa)
        rng.shuffle(pb)
        rng.shuffle(pr)
        run_oracle(ctx, 'column-order', {'A': enc(a), 'B': enc(b), 'permA': pa, 'permB': pb, 'permR': pr,
                                         'n': rng.randint(0, k)})
        ctx.branch('oracle-R12:order-of-listing')
    # R14: one large count per quick run, all of them in thorough
    sizes = [[257, 258, 300][ctx.seed % 3]] if ctx.tier == 'quick' else [257, 258, 300, 513]
    for i, size in enumerate(sizes):
        for call_name, case in big_cases(1000 * ctx.seed + 17 * i + size, size, cplx=(i + ctx.seed) % 2 == 0):
            run_oracle(ctx, call_name, case, key=('big', size, call_name, repr(case.get('n')), repr(case.get('k'))))
        ctx.branch('oracle-R14:count>256')
    # many singular values in extreme units: the geometric mean must not overflow / underflow (R6 x R14)
    for sc in (1e12, 1e-12):
        run_oracle(ctx, 'gmd', {'A': genrec(7 + ctx.seed, (40, 41), ctx.seed % 2 == 0), 'var': {'scale': sc}},
                   key=('gmd-scale', sc))
    if ctx.tier != 'quick':
        run_oracle(ctx, 'conversion.types', {'x': 2.0, 'y': -30.0, 'bits': 4.0,
                                             'form': {'kind': 'array', 'shape': [2 ** 16 + 1], 'dtype': 'float32',
                                                      'layout': 'rev'}}, key=('big', 65537))


def boundary_oracles(ctx):
    """R5: boundary and degenerate values of every parameter (deterministic list)"""
    g = Gen(ctx.rng.fork('boundary'))
    e = np.eye(8)
    cases = []
    for cplx in (False, True):
        one = np.array([[2.0 - 1.0j if cplx else -3.0]])
        cases += [
            ('Projection', {'A': enc(one), 'M': enc(np.array([[5.0]]))}),                      # 1 x 1
            ('Projection', {'A': enc(g.raw(6, 6, cplx)), 'M': enc(g.raw(6, 1, cplx))}),       # square: P = 1, P_orth = 0
            ('Projection', {'A': enc(e[:, :1] * (1j if cplx else 1.0)), 'M': enc(np.zeros((8, 2)))}),   # unit vector, zero M
            ('Projection', {'A': enc(g.raw(3, 0, cplx)), 'M': enc(g.raw(3, 2, cplx))}),       # empty basis: P = 0
            ('Projection', {'A': enc(g.raw(4, 2, cplx)), 'M': enc(g.raw(4, 1, cplx)[:, 0])}),  # 1-D vector M
            ('Projection', {'A': enc(g.raw(4, 2, cplx)), 'M': enc(g.raw(4, 0, cplx))}),        # M without columns
            ('calc_chordal_distance', {'A': enc(e[:, :3] + 0j if cplx else e[:, :3]), 'B': enc(e[:, 3:6])}),  # orthogonal: sqrt(3)
            ('calc_chordal_distance', {'A': enc(g.raw(5, 5, cplx)), 'B': enc(g.raw(5, 5, cplx))}),           # whole space: 0
            ('calc_chordal_distance', {'A': enc(one), 'B': enc(one * 7)}),
            ('gmd', {'A': enc(one)}), ('gmd', {'A': enc(g.raw(1, 5, cplx))}), ('gmd', {'A': enc(g.raw(5, 1, cplx))}),
            ('calc_whitening_matrix', {'C': enc(np.array([[4.0]]) + 0j if cplx else np.array([[4.0]]))}),
            ('calc_whitening_matrix', {'C': enc(np.eye(5))}),
            ('calc_whitening_matrix', {'C': enc(np.eye(3) * 1e-13)}),                             # -100 dBm noise floor
            ('update_inv_sum_diag', {'A': enc(g.hpd(4, cplx, 'wishart')[0]), 'd': enc(np.zeros(4))}),   # D = 0
            ('update_inv_sum_diag', {'A': enc(g.hpd(4, cplx, 'wishart')[0]), 'd': enc(np.zeros(0))}),   # empty diagonal
            ('update_inv_sum_diag', {'A': enc(one), 'd': enc(np.array([1.0]))}),
            ('least_right_singular_vectors', {'A': enc(one), 'n': 0}),
            ('least_right_singular_vectors', {'A': enc(one), 'n': 1}),
            ('get_principal_component_matrix', {'A': enc(one), 'k': 1}),
        ]
        hm = g.raw(5, 5, cplx)
        hm = hm + H(hm)
        for n in (0, 1, 5, 6):
            for which in ('peig', 'leig'):
                cases.append(('peig/leig', {'A': enc(hm), 'n': n, 'which': which}))
        r = g.raw(4, 7, cplx)
        for n in (0, 3, 4, 7):
            cases.append(('least_right_singular_vectors', {'A': enc(r), 'n': n}))
            cases.append(('least_right_singular_vectors', {'A': enc(r.T.copy()), 'n': min(n, 4)}))
        for k in (1, 4):
            cases.append(('get_principal_component_matrix', {'A': enc(r), 'k': k}))
            cases.append(('get_principal_component_matrix', {'A': enc(r.T.copy()), 'k': k}))
        for size in (9, 15, 16, 17):          # sizes around a power of two, beyond the usual range
            cases.append(('Projection', {'A': enc(g.raw(size, size // 2, cplx)), 'M': enc(g.raw(size, 1, cplx))}))
            cases.append(('gmd', {'A': enc(g.raw(size, size - 1, cplx))}))
    for x, y, b in ((1.0, 0.0, 1), (1.0, 30.0, 2), (1e-15, -150.0, 1), (1e15, 150.0, 10), (1000.0, -0.0, 1)):
        cases.append(('conversion', {'x': x, 'y': y, 'bits': b}))
    for i, (call_name, case) in enumerate(cases):
        run_oracle(ctx, call_name, case, key=('boundary', i))
    ctx.branch('oracle-R5:boundary', len(cases))


# ------------------------------------------------------------ correspondence
def corr_projection(ctx, g, drv, n_cases):
    proj, _, _, _ = _impl()
    cases = []
    lines = []
    inputs = [gen_proj_case(g, t) + (None, None) for t in range(n_cases)]
    for var, cplx, t in corr_variants(ctx, g, max(10, n_cases // 2)):
        m = g.rng.randint(1, 8)
        base = var_base(g, m, g.rng.randint(1, m), cplx, var)
        a = realize(enc(base), var)
        inputs.append((a, relayout(g.raw(m, g.rng.randint(1, 3), np.iscomplexobj(a)), (var or {}).get('layout')),
                       'variant', var, base))
    for cplx in (False, True):          # R5: 1 x 1, square, a single unit vector
        one = np.array([[2.0 - 1.0j if cplx else -3.0]])
        inputs += [(one, np.array([[5.0]]), 'boundary', None, None),
                   (g.raw(5, 5, cplx), g.raw(5, 2, cplx), 'boundary', None, None),
                   (np.eye(8)[:, :1] * (1j if cplx else 1.0), np.zeros((8, 2)), 'boundary', None, None)]
        ctx.branch('corr-R5:boundary', 3)
    for i_mix, (ca, cb) in enumerate(MIXES):       # R10: basis and projected matrix of different element types
        m = g.rng.randint(2, 8)
        xa = mixed_bases(g, m, g.rng.randint(1, m - 1))
        inputs.append((cast_as(xa, ca), cast_as(mixed_bases(g, m, 2), cb), 'mixed', None, None))
        ctx.branch('corr-R10:mixed-element-types')
    for i_in, (a, mm, kind, var, base) in enumerate(inputs):
        m, k = a.shape
        kw = i_in % 3 == 1                          # R8: every third case by keyword
        if kw:
            ctx.branch('corr-R8:keyword')
        with Tap() as tap:
            p = proj.calcProjectionMatrix(A=a) if kw else proj.calcProjectionMatrix(a)
        invs = tap.calls('inv')
        with Tap() as tap2:
            op = proj.calcOrthogonalProjectionMatrix(A=a) if kw else proj.calcOrthogonalProjectionMatrix(a)
        obj = proj.Projection(A=a) if kw else proj.Projection(a)
        pm, om, rm = (obj.project(M=mm), obj.oProject(M=mm), obj.reflect(M=mm)) if kw else \
            (obj.project(mm), obj.oProject(mm), obj.reflect(mm))
        ok_calls = len(invs) == 1 and len(tap.log) == 1 and len(tap2.calls('inv')) == 1 and len(tap2.log) == 1
        if not ok_calls:
            ctx.corr('calcProjectionMatrix.kernel-calls', enc(a), 'calls=%s' % [c[0] for c in tap.log], 'calls=[inv]')
            continue
        arg, gmat = invs[0][1][0], invs[0][3]
        cases.append((a, mm, kind, p, op, pm, om, rm, arg, gmat, obj,
                      {'A': enc(base if base is not None else a), 'M': enc(mm), 'var': var}))
        lines.append('proj %d %d %s %s' % (m, k, cline(a), cline(gmat)))
        lines.append('apply %d %d %s %s' % (m, mm.shape[1], cline(obj.Q), cline(mm)))
        lines.append('apply %d %d %s %s' % (m, mm.shape[1], cline(obj.oQ), cline(mm)))
    out = drv.ask(lines)
    for i, (a, mm, kind, p, op, pm, om, rm, arg, gmat, obj, case) in enumerate(cases):
        m, k = a.shape
        cplx = np.iscomplexobj(a)
        key = ('proj', m, k, cplx, kind)
        a64, rt_ = twin(a), rt(1e-9, a, mm)
        ctx.branch('proj:' + kind)
        ctx.branch('complex' if cplx else 'real')
        ctx.branch('square' if m == k else 'tall')
        g_s, p_s, o_s = out[3 * i].split('|')
        # (1) what the code hands to the kernel is what the model says
        ok, why = within(arg, parse_c(g_s, (k, k)), np.abs(H(a64)) @ np.abs(a64), rtol=rt_)
        ctx.corr('calcProjectionMatrix.inv-argument', case, 'agree' if ok else 'differs: ' + why, 'agree',
                 key=key + ('arg', i))
        # (2) contract of the kernel result assumed by the theorems: G (A^H A) = 1
        gram = H(a64) @ a64
        c2 = cond2(a) ** 2
        res = np.abs(twin(gmat) @ gram - np.eye(k)).max()
        if not res <= max(rt_, 100 * eps_of(a) * c2 * k):
            ctx.tie_broken('correspondence', 'contract:inv', 'G (A^H A) - I = %.3e (cond^2 %.2e)' % (res, c2), case)
        # (3) outputs
        bound = abs3(a, gmat, H(a))
        ok, why = within(p, parse_c(p_s, (m, m)), bound, rtol=rt_)
        ctx.corr('calcProjectionMatrix', case, 'agree' if ok else 'differs: ' + why, 'agree', key=key + ('P', i))
        ok, why = within(op, parse_c(o_s, (m, m)), bound + np.eye(m), rtol=rt_)
        ctx.corr('calcOrthogonalProjectionMatrix', case, 'agree' if ok else 'differs: ' + why, 'agree',
                 key=key + ('oP', i))
        ok1 = np.array_equal(obj.Q, p) and np.array_equal(obj.oQ, op)
        ctx.corr('Projection.__init__', case, 'Q,oQ=static results' if ok1 else 'differs', 'Q,oQ=static results',
                 key=key + ('init', i))
        c = mm.shape[1]
        pr_s, rf_s = out[3 * i + 1].split('|')
        bnd = np.abs(obj.Q) @ np.abs(mm)
        ok, why = within(pm, parse_c(pr_s, (m, c)), bnd, rtol=rt_)
        ctx.corr('Projection.project', case, 'agree' if ok else 'differs: ' + why, 'agree', key=key + ('pm', i))
        ok, why = within(rm, parse_c(rf_s, (m, c)), (np.eye(m) + 2 * np.abs(obj.Q)) @ np.abs(mm), rtol=rt_)
        ctx.corr('Projection.reflect', case, 'agree' if ok else 'differs: ' + why, 'agree', key=key + ('rm', i))
        opr_s, _ = out[3 * i + 2].split('|')
        ok, why = within(om, parse_c(opr_s, (m, c)), np.abs(obj.oQ) @ np.abs(mm), rtol=rt_)
        ctx.corr('Projection.oProject', case, 'agree' if ok else 'differs: ' + why, 'agree', key=key + ('om', i))
        if i < 2:
            ctx.sample({'call': 'calcProjectionMatrix', 'A': enc(a), 'impl_P00': complex(p[0, 0]),
                        'model_P00': complex(parse_c(p_s, (m, m))[0, 0])})


def corr_chordal(ctx, g, drv, n_cases):
    _, met, _, _ = _impl()
    cases, lines = [], []
    inputs = [gen_pair(g, equal_dims=(t % 5 != 4)) + (None, None) for t in range(n_cases)]
    for var, cplx, t in corr_variants(ctx, g, max(10, n_cases // 2)):
        m = g.rng.randint(1, 8)
        p = g.rng.randint(1, m)
        ba, bb = var_base(g, m, p, cplx, var), var_base(g, m, p, cplx, var)
        vb = dict(var, scale=10.0 ** g.rng.uniform(-15, 15)) if (var and var.get('scale') is not None) else var
        a, b = realize(enc(ba), var), realize(enc(bb), vb)
        inputs.append((a, b, np.iscomplexobj(a), var, (ba, bb)))
    e8 = np.eye(8)
    inputs += [(e8[:, :3], e8[:, 3:6], False, None, None), (e8[:, :2] + 0j, e8[:, :2] * 1j, True, None, None),
               (g.raw(4, 4, True), g.raw(4, 4, True), True, None, None)]      # orthogonal, identical, whole space
    ctx.branch('corr-R5:boundary', 3)
    for (ca, cb) in MIXES:                         # R10: the two bases have different element types
        m = g.rng.randint(2, 8)
        p = g.rng.randint(1, m - 1)
        xa, xb = cast_as(mixed_bases(g, m, p), ca), cast_as(mixed_bases(g, m, p), cb)
        inputs.append((xa, xb, np.iscomplexobj(xa) or np.iscomplexobj(xb), None, None))
        ctx.branch('corr-R10:mixed-element-types')
    for i_in, (a, b, cplx, var, bases) in enumerate(inputs):
        m, p = a.shape
        q = b.shape[1]
        kw = i_in % 3 == 1
        if kw:
            ctx.branch('corr-R8:keyword')
        with Tap() as t2:
            d2 = float(met.calc_chordal_distance_2(matrix1=a, matrix2=b) if kw else met.calc_chordal_distance_2(a, b))
        with Tap() as t1:
            d1 = float(met.calc_chordal_distance(matrix2=b, matrix1=a) if kw else met.calc_chordal_distance(a, b))
        with Tap() as t3:
            ang = met.calc_principal_angles(matrix1=a, matrix2=b) if kw else met.calc_principal_angles(a, b)
        d3 = float(met.calc_chordal_distance_from_principal_angles(principalAngles=ang) if kw else
                   met.calc_chordal_distance_from_principal_angles(ang))
        names = ([c[0] for c in t2.log], [c[0] for c in t1.log], [c[0] for c in t3.log])
        if names != (['inv', 'inv'], ['qr', 'qr'], ['qr', 'qr', 'svd']):
            ctx.corr('chordal.kernel-calls', {'A': enc(twin(a)), 'B': enc(twin(b))}, repr(names),
                     "(['inv','inv'],['qr','qr'],['qr','qr','svd'])")
            continue
        ga, gb = t2.log[0][3], t2.log[1][3]
        q1, q2 = t1.log[0][3][0], t1.log[1][3][0]
        q1b, q2b = t3.log[0][3][0], t3.log[1][3][0]
        svd_arg, svals = t3.log[2][1][0], t3.log[2][3][1]
        cases.append((a, b, cplx, d1, d2, d3, ang, ga, gb, q1, q2, q1b, q2b, svd_arg, svals, t1, t3,
                      {'A': enc(bases[0] if bases else a), 'B': enc(bases[1] if bases else b), 'var': var}))
        lines.append('chord2 %d %d %d %s %s %s %s' % (m, p, q, cline(a), cline(b), cline(ga), cline(gb)))
        lines.append('chord %d %d %d %s %s' % (m, p, q, cline(q1), cline(q2)))
        lines.append('angles %s' % fline(svals))
    out = drv.ask(lines)
    for i, (a, b, cplx, d1, d2, d3, ang, ga, gb, q1, q2, q1b, q2b, svd_arg, svals, t1, t3, case) in enumerate(cases):
        m, p = a.shape
        q = b.shape[1]
        key = ('chord', m, p, q, cplx, i)
        rt9, rt12 = rt(1e-9, a, b), rt(1e-12, a, b)
        ctx.branch('chordal:dims-equal' if p == q else 'chordal:dims-differ')
        ctx.branch('complex' if cplx else 'real')
        bound = float(np.max(abs3(a, ga, H(a))) + np.max(abs3(b, gb, H(b)))) * m
        md2 = core.s2f(out[3 * i])
        ok = abs(md2 - d2) <= rt9 * max(bound, 1.0)
        ctx.corr('calc_chordal_distance_2', case, 'agree' if ok else 'differs: impl %r model %r' % (d2, md2), 'agree',
                 key=key + ('d2',))
        c_s, arg_s = out[3 * i + 1].split('|')
        md1 = core.s2f(c_s)
        ok = abs(md1 - d1) <= rt9 * max(1.0, m)
        ctx.corr('calc_chordal_distance', case, 'agree' if ok else 'differs: impl %r model %r' % (d1, md1), 'agree',
                 key=key + ('d1',))
        # kernel arguments: qr is called on the inputs themselves, svd on Q1^H Q2
        ok = (np.array_equal(t1.log[0][1][0], a) and np.array_equal(t1.log[1][1][0], b)
              and np.array_equal(t3.log[0][1][0], a) and np.array_equal(t3.log[1][1][0], b)
              and np.array_equal(q1, q1b) and np.array_equal(q2, q2b)
              and t3.log[2][2].get('full_matrices', True) is False)
        ctx.corr('chordal.qr-arguments', case, 'qr(matrix1),qr(matrix2)' if ok else 'differs',
                 'qr(matrix1),qr(matrix2)', key=key + ('qra',))
        ok, why = within(svd_arg, parse_c(arg_s, (p, q)), np.abs(H(q1)) @ np.abs(q2), rtol=rt9)
        ctx.corr('calc_principal_angles.svd-argument', case, 'agree' if ok else 'differs: ' + why, 'agree',
                 key=key + ('svda',))
        a_s, d_s = out[3 * i + 2].split('|')
        mang = parse_f(a_s)
        ok = mang.shape == np.asarray(ang).shape and bool(np.all(np.abs(mang - ang) <= (1e-12 if rt12 <= 1e-12 else 2e-3)))
        ctx.corr('calc_principal_angles', case, 'agree' if ok else 'differs: impl %r model %r' % (ang.tolist(), mang.tolist()),
                 'agree', key=key + ('ang',))
        md3 = core.s2f(d_s)
        ok = abs(md3 - d3) <= rt12 * max(1.0, d3)
        ctx.corr('calc_chordal_distance_from_principal_angles', case,
                 'agree' if ok else 'differs: impl %r model %r' % (d3, md3), 'agree', key=key + ('d3',))
        # contracts assumed by the theorems
        tolc = max(rt9, 100 * eps_of(a, b) * max(cond2(a), cond2(b)) ** 2 * m)
        for (nm, x, qq) in (('A', twin(a), twin(q1)), ('B', twin(b), twin(q2))):
            r = H(qq) @ x          # R = Q^H A ; contract: Q^H Q = 1 and A = Q R
            e1 = np.abs(H(qq) @ qq - np.eye(qq.shape[1])).max()
            e2 = np.abs(qq @ r - x).max() / nz(np.abs(x).max())
            if not (e1 <= rt9 and e2 <= rt9):
                ctx.tie_broken('correspondence', 'contract:qr', '%s: Q^HQ-I %.2e, QR-A %.2e' % (nm, e1, e2), case)
        sv64 = np.asarray(svals, dtype=float)
        if not (np.all(sv64 >= 0) and np.all(np.diff(sv64) <= rt12) and np.all(sv64 <= 1 + rt9)
                and abs(float(np.sum(sv64 ** 2)) - float(np.sum(np.abs(twin(svd_arg)) ** 2))) <= rt9 * max(1.0, p)):
            ctx.tie_broken('correspondence', 'contract:svd', 'singular values %r' % svals.tolist(), case)
        for (x, gg) in ((twin(a), twin(ga)), (twin(b), twin(gb))):
            res = np.abs(gg @ (H(x) @ x) - np.eye(x.shape[1])).max()
            if not res <= tolc:
                ctx.tie_broken('correspondence', 'contract:inv', 'G (A^H A) - I = %.3e' % res, case)
        if i < 1:
            ctx.sample({'call': 'calc_chordal_distance_2', 'impl': d2, 'model': md2, 'shape': [m, p, q]})


def corr_whiten(ctx, g, drv, n_cases):
    _, _, misc, _ = _impl()
    cases, lines = [], []
    inputs = []
    for t in range(n_cases):
        n = g.rng.randint(1, 8)
        c, kind = g.hpd(n, g.rng.chance(0.6), HPD_KINDS[t % len(HPD_KINDS)])
        inputs.append((c, kind, None, None))
    for var, cplx, t in corr_variants(ctx, g, max(10, n_cases // 2)):
        base = var_cov(g, g.rng.randint(1, 6), cplx, var, t)
        inputs.append((realize(enc(base), var), 'variant', var, base))
    inputs += [(np.array([[4.0]]), 'boundary', None, None), (np.eye(3) * 1e-13, 'boundary', None, None),
               (np.eye(4) + 0j, 'boundary', None, None)]
    ctx.branch('corr-R5:boundary', 3)
    for (c, kind, var, base) in inputs:
        n = c.shape[0]
        cplx = np.iscomplexobj(c)
        c64, rt9, rt12 = twin(c), rt(1e-9, c), rt(1e-12, c)
        with Tap() as tap:
            if len(cases) % 3 == 1:
                w = misc.calc_whitening_matrix(cov_matrix=c)
                ctx.branch('corr-R8:keyword')
            else:
                w = misc.calc_whitening_matrix(c)
        names = [x[0] for x in tap.log]
        if names != ['eig', 'qr']:
            ctx.corr('calc_whitening_matrix.kernel-calls', {'C': enc(c64)}, repr(names), "['eig', 'qr']")
            continue
        lam, v_eig = tap.log[0][3]
        ok_arg = np.array_equal(tap.log[0][1][0], c) and np.array_equal(tap.log[1][1][0], v_eig)
        v, rfac = tap.log[1][3]
        # contracts of the two kernel calls (hypotheses of eig_then_qr_contract)
        sc = nz(np.abs(c64).max())
        k1 = np.abs(c64 @ twin(v_eig) - twin(v_eig) * twin(lam)).max() / sc
        k2 = np.abs(twin(v) @ twin(rfac) - twin(v_eig)).max()
        k3 = np.abs(H(twin(v)) @ twin(v) - np.eye(n)).max()
        k4 = bool(np.all(np.tril(rfac, -1) == 0)) and bool(np.all(np.abs(np.diag(rfac)) > 1e-8))
        k5 = np.abs(c64 - H(c64)).max() / sc
        if not (k1 <= rt9 and k2 <= rt9 and k3 <= rt9 and k4 and k5 <= rt12):
            ctx.tie_broken('correspondence', 'contract:eig/qr',
                           'CV-VL %.2e, QR-V %.2e, Q^HQ-I %.2e, R upper triangular invertible %s, C-C^H %.2e'
                           % (k1, k2, k3, k4, k5), {'C': enc(base if base is not None else c64), 'var': var})
        cases.append((c, kind, w, lam, v, 'eig+qr', ok_arg, {'C': enc(base if base is not None else c64), 'var': var}))
        lines.append('whiten %d %s %s' % (n, cline(lam), cline(v)))
    out = drv.ask(lines)
    for i, (c, kind, w, lam, v, kname, ok_arg, case) in enumerate(cases):
        n = c.shape[0]
        c64, rt9, rt12 = twin(c), rt(1e-9, c), rt(1e-12, c)
        lam, v = twin(lam), twin(v)
        key = ('whiten', n, kind, np.iscomplexobj(c), i)
        ctx.branch('whiten:' + kind)
        ctx.corr('calc_whitening_matrix.kernel-arguments', case, 'eig(cov_matrix),qr(V)' if ok_arg else 'other',
                 'eig(cov_matrix),qr(V)', key=key + ('arg',))
        mw = parse_c(out[i], (n, n))
        ok, why = within(w, mw, np.abs(v) @ np.diag(1 / np.sqrt(np.abs(lam))), rtol=rt12)
        ctx.corr('calc_whitening_matrix', case, 'agree' if ok else 'differs: ' + why, 'agree', key=key + ('W',))
        # contract assumed by whitening_identity: V unitary, C V = V diag(L), L real positive
        sc = nz(np.abs(c64).max())
        e1 = np.abs(H(v) @ v - np.eye(n)).max()
        e2 = np.abs(c64 @ v - v * lam).max() / sc
        e3 = float(np.max(np.abs(np.imag(lam)))) / sc
        pos = bool(np.all(np.real(lam) > 0))
        if not (e1 <= rt9 and e2 <= rt9 and e3 <= rt12 and pos):
            ctx.tie_broken('correspondence', 'contract:' + kname,
                           'V^HV-I %.2e, CV-VL %.2e, imag(L) %.2e, positive %s' % (e1, e2, e3, pos), case)


def corr_uisd(ctx, g, drv, n_cases):
    _, _, misc, _ = _impl()
    cases, lines = [], []
    inputs = []
    for t in range(n_cases):
        a, d = gen_uisd_case(g, short=(t % 5 == 4))
        # a real inverse with a complex diagonal is passed as it is (every 2nd time) or as complex
        inputs.append((a, d, np.linalg.inv(a).astype(complex if (np.iscomplexobj(d) and t % 2) else a.dtype), None))
    for var, cplx, t in corr_variants(ctx, g, max(10, n_cases // 2)):
        a, d = var_uisd(g, var)
        sc = (var or {}).get('scale')
        if sc is not None:
            a, d = a * sc, d * sc
        inv_a = np.linalg.inv(a)
        dt = (var or {}).get('dtype')
        if dt == 'f32':
            inv_a = inv_a.astype(np.complex64 if np.iscomplexobj(inv_a) else np.float32)
            d = d.astype(np.complex64 if np.iscomplexobj(d) else np.float32)
        elif dt in INT_DTYPES:
            inv_a, d = np.rint(inv_a).astype('int16' if dt == 'uint8' else dt), np.rint(d).astype(dt)
        lay = (var or {}).get('layout')
        inputs.append((a, relayout(d, lay), relayout(inv_a, lay), var))
    h4 = g.hpd(4, True, 'wishart')[0]
    inputs += [(h4, np.zeros(4), np.linalg.inv(h4), None), (h4, np.zeros(0), np.linalg.inv(h4), None),
               (np.array([[2.0]]), np.array([1.0]), np.array([[0.5]]), None),
               (np.eye(3), np.array([1.0, 2.0, 3.0]), np.eye(3, dtype=int), None),
               (np.eye(2), np.array([1j, 2.0]), np.eye(2), None)]
    ctx.branch('corr-R5:boundary', 5)
    for (a, d, inv_a, var) in inputs:
        n = a.shape[0]
        if np.asarray(inv_a).dtype != np.asarray(d).dtype:
            ctx.branch('corr-R10:mixed-element-types')
        with Tap() as tap:
            if len(cases) % 3 == 1:
                out = misc.update_inv_sum_diag(diagonal=d, invA=inv_a)
                ctx.branch('corr-R8:keyword')
            else:
                out = misc.update_inv_sum_diag(inv_a, d)
        cases.append((a, d, inv_a, out, len(tap.log), var))
        lines.append('uisd %d %s %s' % (n, cline(inv_a), cline(d)))
    res = drv.ask(lines)
    for i, (a, d, inv_a, out, ncalls, var) in enumerate(cases):
        n = a.shape[0]
        case = {'A': enc(a), 'd': enc(twin(d)), 'var': var}
        key = ('uisd', n, d.size, np.iscomplexobj(a), i)
        ctx.branch('uisd:full-diagonal' if d.size == n else 'uisd:short-diagonal')
        m_s, p_s = res[i].split('|')
        if m_s.startswith('error'):
            ctx.corr('update_inv_sum_diag', case, 'value', m_s, key=key)
            continue
        mo = parse_c(m_s, (n, n))
        piv = parse_c(p_s, (d.size,)) if d.size else np.zeros(0)
        scale = nz(max(float(np.abs(inv_a).max()), float(np.abs(out).max()))) * max(1.0, float(np.max(1 / np.abs(piv))) if d.size else 1.0)
        ok, why = within(out, mo, scale * np.ones((n, n)), rtol=rt(1e-9, inv_a, d))
        if np.asarray(out).dtype.kind not in 'fc':
            ctx.corr('update_inv_sum_diag.result-dtype', case, str(np.asarray(out).dtype), 'floating', key=key + ('dt',))
        ctx.corr('update_inv_sum_diag', case, 'agree' if ok else 'differs: ' + why, 'agree', key=key)
        if d.size and not np.all(np.abs(piv) > 1e-6):
            ctx.tie_broken('correspondence', 'contract:pivot', 'pivot near zero %r' % piv.tolist(), case)
        if ncalls:
            ctx.corr('update_inv_sum_diag.kernel-calls', case, 'calls=%d' % ncalls, 'calls=0', key=key + ('k',))


def corr_select(ctx, g, drv, n_cases):
    _, _, misc, _ = _impl()
    cases, lines = [], []
    inputs = [(gen_herm(g), None) for _ in range(n_cases)]
    for var, cplx, t in corr_variants(ctx, g, max(10, n_cases // 2)):
        for _ in range(100):
            n_ = g.rng.randint(1, 6)
            x = g.rs.randint(-3, 4, size=(n_, n_)).astype(float)
            if cplx and not (var and var.get('dtype') in INT_DTYPES):
                x = x + 1j * g.rs.randint(-3, 4, size=(n_, n_))
            hm = np.abs(x + H(x)) if (var and var.get('dtype') == 'uint8') else x + H(x)
            w = np.linalg.eigvalsh(hm)
            if n_ < 2 or np.min(np.diff(w)) >= 1e-2 * max(1.0, np.abs(w).max()):
                break
        inputs.append((realize(enc(hm), var), var))
    size = big_size(ctx)                                 # R14: more than 256 eigenvalues, n > 256
    for cplx in (False, True):
        inputs.append((gen_from_recipe(genrec(ctx.seed + size, (size + 1, size + 1), cplx, 'herm')), 'big'))
    ctx.branch('corr-R14:count>256')
    for (a, var) in inputs:
        ncols = a.shape[1]
        which = ['peig', 'leig'][len(cases) % 2]
        n = g.rng.randint(0, ncols) if len(cases) % 6 != 5 else ncols + g.rng.randint(1, 2)
        if isinstance(var, str):
            n, var = ncols - 1, None
        fn = misc.peig if which == 'peig' else misc.leig
        nform = index_form(ctx, n, len(cases))
        with Tap() as tap:
            try:
                if len(cases) % 3 == 1:                  # R8: by keyword
                    r = fn(A=a, n=nform)
                    ctx.branch('corr-R8:keyword')
                else:
                    r = fn(a, nform)
                err = None
            except Exception as e:
                r, err = None, type(e).__name__
        cases.append((a, which, n, r, err, tap, var))
        if tap.calls('argsort'):
            perm = tap.calls('argsort')[0][3].tolist()
        elif tap.calls('eig'):
            # the sort was not made through np.argsort (e.g. the method form D.real.argsort()): the sorting
            # permutation of the tapped eigenvalues is unique (the generator keeps the eigenvalue gaps >= 1e-3)
            perm = np.argsort(tap.calls('eig')[0][3][0].real).tolist()
        else:
            perm = list(range(ncols))
        lines.append('%s %d %d %s' % (which, ncols, n, ','.join(map(str, perm)) if perm else '-'))
    out = drv.ask(lines)
    for i, (a, which, n, r, err, tap, var) in enumerate(cases):
        ncols = a.shape[1]
        case = {'A': enc(twin(a)), 'n': n, 'which': which, 'var': dict(var, scale=None) if var else None}
        key = (which, ncols, n, i)
        if err is not None:
            ctx.branch('select:error')
            ctx.corr(which + '.guard', case, 'error:' + err, out[i], key=key)
            continue
        ctx.branch('select:' + which)
        names = [c[0] for c in tap.log]
        if names not in (['eig', 'argsort'], ['eig']):
            ctx.corr(which + '.kernel-calls', case, repr(names), "['eig','argsort']", key=key)
            continue
        dvals, vmat = tap.log[0][3]
        if names == ['eig']:
            ctx.branch('select:sort-not-tapped')
            tap.log.append(('argsort', [dvals.real], {}, np.argsort(dvals.real)))
        ok_args = np.array_equal(tap.log[0][1][0], a) and np.array_equal(tap.log[1][1][0], dvals.real)
        ctx.corr(which + '.kernel-arguments', case, 'eig(A),argsort(D.real)' if ok_args else 'other',
                 'eig(A),argsort(D.real)', key=key + ('args',))
        if out[i].startswith('error'):
            ctx.corr(which + '.guard', case, 'value', out[i], key=key)
            continue
        idx = [int(t) for t in out[i].split(',')] if out[i] else []
        v, d = r
        ok = (v.shape == (a.shape[0], len(idx)) and np.array_equal(v, vmat[:, idx]) and np.array_equal(d, dvals[idx]))
        ctx.corr(which, case, 'V[:,idx],D[idx] idx=%s' % idx if ok else 'differs', 'V[:,idx],D[idx] idx=%s' % idx, key=key)
        # contracts: argsort result is a permutation sorting D.real; eig pairs are eigenpairs
        perm = tap.log[1][3].tolist()
        srt = dvals.real[perm]
        if sorted(perm) != list(range(ncols)) or np.any(np.diff(srt) < 0):
            ctx.tie_broken('correspondence', 'contract:argsort', 'perm %r values %r' % (perm, srt.tolist()), case)
        res = np.abs(twin(a) @ twin(vmat) - twin(vmat) * twin(dvals)).max() / nz(np.abs(twin(a)).max())
        if not res <= rt(1e-9, a):
            ctx.tie_broken('correspondence', 'contract:eig', 'A V - V D = %.3e' % res, case)


def corr_lrsv(ctx, g, drv, n_cases):
    _, _, misc, _ = _impl()
    cases, lines = [], []
    inputs = [(gen_rect(g), None) for _ in range(n_cases)]
    for var, cplx, t in corr_variants(ctx, g, max(10, n_cases // 2)):
        inputs.append((realize(enc(var_rect(g, var, cplx)), var), var))
    inputs += [(np.array([[3.0]]), None), (g.raw(1, 5, True), None), (g.raw(5, 1, False), None)]
    ctx.branch('corr-R5:boundary', 3)
    size = big_size(ctx)
    inputs.append((gen_from_recipe(genrec(ctx.seed + size + 5, (size + 1, size + 43), True)), 'big'))
    ctx.branch('corr-R14:count>256')
    for ii, (a, var) in enumerate(inputs):
        m, c = a.shape
        n = g.rng.randint(0, c) if ii % 7 else [0, c][ii % 2]
        if isinstance(var, str):
            n, var = size, None
        nform = index_form(ctx, n, ii)
        with Tap() as tap:
            try:
                if ii % 3 == 1:
                    r = misc.least_right_singular_vectors(A=a, n=nform)
                    ctx.branch('corr-R8:keyword')
                else:
                    r = misc.least_right_singular_vectors(a, nform)
                err = None
            except Exception as e:
                r, err = None, type(e).__name__
        cases.append((a, n, r, err, tap, var))
        s = tap.calls('svd')[0][3][1] if tap.calls('svd') else np.zeros(0)
        lines.append('lrsv %d %d %s' % (c, n, fline(s)))
    out = drv.ask(lines)
    for i, (a, n, r, err, tap, var) in enumerate(cases):
        m, c = a.shape
        case = {'A': enc(twin(a)), 'n': n, 'var': dict(var, scale=None) if var else None}
        key = ('lrsv', m, c, n, i)
        ctx.branch('lrsv:wide' if m < c else 'lrsv:tall-or-square')
        names = [x[0] for x in tap.log]
        if names != ['svd']:
            ctx.corr('least_right_singular_vectors.kernel-calls', case, repr(names), "['svd']", key=key)
            continue
        ok_arg = np.array_equal(tap.log[0][1][0], a) and tap.log[0][2].get('full_matrices', True) is True
        ctx.corr('least_right_singular_vectors.kernel-arguments', case, 'svd(A,full)' if ok_arg else 'other',
                 'svd(A,full)', key=key + ('args',))
        i0_s, i1_s, s_s = out[i].split('|')
        if err is not None or s_s.startswith('error'):
            ctx.branch('lrsv:error')
            ctx.corr('least_right_singular_vectors.error', case, 'error:%s' % err if err else 'value', s_s, key=key)
            continue
        i0 = [int(t) for t in i0_s.split(',')] if i0_s else []
        i1 = [int(t) for t in i1_s.split(',')] if i1_s else []
        vfull = H(tap.log[0][3][2])
        v0, v1, s1 = r
        ok = (np.array_equal(v0, vfull[:, i0]) and np.array_equal(v1, vfull[:, i1])
              and np.array_equal(np.asarray(s1), parse_f(s_s)))
        ctx.corr('least_right_singular_vectors', case, 'V[:,idx0],V[:,idx1],S[idx1]' if ok else 'differs',
                 'V[:,idx0],V[:,idx1],S[idx1]', key=key)
        u, s, vh = [twin(x) for x in tap.log[0][3]]
        sig = np.zeros((m, c))
        sig[:s.size, :s.size] = np.diag(s)
        e = np.abs(u @ sig @ vh - twin(a)).max() / nz(np.abs(twin(a)).max())
        e2 = max(np.abs(H(u) @ u - np.eye(m)).max(), np.abs(vh @ H(vh) - np.eye(c)).max())
        if not (e <= rt(1e-9, a) and e2 <= rt(1e-9, a) and np.all(s >= 0) and np.all(np.diff(s) <= 0)):
            ctx.tie_broken('correspondence', 'contract:svd', 'U S V^H - A = %.2e, unitarity %.2e' % (e, e2), case)


def corr_gpcm(ctx, g, drv, n_cases):
    _, _, misc, _ = _impl()
    cases, lines = [], []
    inputs = [(gen_rect(g), None) for _ in range(n_cases)]
    for var, cplx, t in corr_variants(ctx, g, max(10, n_cases // 2)):
        inputs.append((realize(enc(var_rect(g, var, cplx)), var), var))
    inputs += [(np.array([[3.0]]), None), (g.raw(1, 5, True), None), (g.raw(5, 1, False), None)]
    ctx.branch('corr-R5:boundary', 3)
    for ii, (a, var) in enumerate(inputs):
        m, c = a.shape
        k = g.rng.randint(1, min(m, c)) if ii % 5 else min(m, c)
        kform = index_form(ctx, k, ii)
        with Tap() as tap:
            try:
                if ii % 3 == 1:
                    r = misc.get_principal_component_matrix(A=a, num_components=kform)
                    ctx.branch('corr-R8:keyword')
                else:
                    r = misc.get_principal_component_matrix(a, kform)
                err = None
            except Exception as e:
                r, err = None, type(e).__name__
        names = [x[0] for x in tap.log]
        if names != ['svd']:
            ctx.corr('get_principal_component_matrix.kernel-calls', {'A': enc(twin(a))}, repr(names), "['svd']")
            continue
        u, s, vh = tap.log[0][3]
        cases.append((a, k, r, err, tap, var))
        lines.append('gpcm %d %d %d %s %s %s' % (m, c, k, cline(u), cline(s), cline(vh)))
    out = drv.ask(lines)
    for i, (a, k, r, err, tap, var) in enumerate(cases):
        m, c = a.shape
        case = {'A': enc(twin(a)), 'k': k, 'var': dict(var, scale=None) if var else None}
        key = ('gpcm', m, c, k, i)
        ctx.branch('gpcm:wide' if m < c else 'gpcm:tall-or-square')
        u, s, vh = tap.log[0][3]
        if err is not None or out[i].startswith('error'):
            ctx.branch('gpcm:error')
            ctx.corr('get_principal_component_matrix.error', case, 'error:%s' % err if err else 'value', out[i], key=key)
            continue
        mo = parse_c(out[i], (m, k))
        bound = (np.abs(u[:, :s.size]) * s) @ np.abs(vh[:s.size, :k])
        ok, why = within(r, mo, bound + 1e-300, rtol=rt(1e-9, a))
        if np.asarray(r).dtype.kind not in 'fc':
            ok, why = False, 'integer result dtype %s' % np.asarray(r).dtype
        ctx.corr('get_principal_component_matrix', case, 'agree' if ok else 'differs: ' + why, 'agree', key=key)


def corr_gmd(ctx, g, drv, n_cases):
    _, _, misc, _ = _impl()
    cases, lines = [], []
    variants = corr_variants(ctx, g, max(10, n_cases // 2))
    bnd = [np.array([[3.0]]), g.raw(1, 5, True), g.raw(5, 1, False)]
    ctx.branch('corr-R5:boundary', 3)
    for t in range(n_cases + len(variants) + len(bnd)):
        var = None
        if t >= n_cases + len(variants):
            a = bnd[t - n_cases - len(variants)]
        elif t >= n_cases:
            var, cplx, _ = variants[t - n_cases]
            a = var_rect(g, var, cplx) * ((var or {}).get('scale') or 1.0)
        elif t % 7 == 6:      # repeated singular values (no rotation branch)
            n = g.rng.randint(1, 6)
            a = g.unitary(n, g.rng.chance(0.5)) * float(g.rng.randint(1, 4))
        else:
            a = gen_rect(g)
        m, n = a.shape
        u, sv, vh = np.linalg.svd(a)
        if var and var.get('dtype') == 'f32':
            u = u.astype(np.complex64 if np.iscomplexobj(u) else np.float32)
            vh = vh.astype(np.complex64 if np.iscomplexobj(vh) else np.float32)
        u, vh = relayout(u, (var or {}).get('layout')), relayout(vh, (var or {}).get('layout'))
        tol = 0.0
        if t % 6 == 5 and sv.size < 2:
            a = g.raw(3, 2, True)
            m, n = a.shape
            u, sv, vh = np.linalg.svd(a)
        if t % 6 == 5:
            tol = float(np.sqrt(sv[-1] * sv[-2]))      # drops the smallest singular value
        with Tap() as tap:
            if tol == 0.0 and t % 4 == 0:
                q, r, pm = misc.gmd(u, sv, vh)                    # R8: tol left at its default
                ctx.branch('corr-R8:default-argument')
            elif t % 4 == 1:
                q, r, pm = misc.gmd(U=u, S=sv, V_H=vh, tol=tol)
                ctx.branch('corr-R8:keyword')
            else:
                q, r, pm = misc.gmd(u, sv, vh, tol)
        pcount = int(np.sum(sv >= tol))
        sb = float(math.exp(np.mean(np.log(sv[0:pcount])).item()))      # the expression of the code, same bits
        cases.append((a, u, sv, vh, tol, pcount, q, r, pm, len(tap.log)))
        lines.append('gmd %d %d %d %s %s %s %s' % (m, n, pcount, core.f2s(sb), cline(u), fline(sv), cline(H(vh))))
    out = drv.ask(lines)
    for i, (a, u, sv, vh, tol, pcount, q, r, pm, ncalls) in enumerate(cases):
        m, n = a.shape
        case = {'A': enc(a), 'tol': tol}
        key = ('gmd', m, n, pcount, np.iscomplexobj(a), i)
        ctx.branch('gmd:p<len(S)' if pcount < sv.size else 'gmd:p=len(S)')
        if out[i].startswith('error'):
            ctx.corr('gmd', case, 'value', out[i], key=key)
            continue
        q_s, r_s, p_s, mg_s = out[i].split('|')
        margin = core.s2f(mg_s)      # conditioning: min over rotations of min(c^2,1-c^2)*|d1^2-d2^2|/sb^2
        if not margin >= 1e-6:
            # a singular value (numerically) equal to the geometric mean: c or s is the root of a
            # cancelled difference, the factors are determined only up to that noise (the oracle
            # still checks the decomposition itself)
            ctx.branch('gmd:ill-conditioned-rotation-skipped')
            continue
        scale = max(1.0, float(sv[0] / sv[pcount - 1])) / margin     # relative: Q, P are O(1), R is O(s1)
        r11 = rt(1e-11, u, vh)
        ok1, w1 = within(q, parse_c(q_s, (m, m)), scale * np.ones((m, m)), rtol=r11)
        ok2, w2 = within(r, parse_c(r_s, (m, n)), scale * float(sv[0]) * np.ones((m, n)), rtol=r11)
        ok3, w3 = within(pm, parse_c(p_s, (n, n)), scale * np.ones((n, n)), rtol=r11)
        ok = ok1 and ok2 and ok3
        ctx.corr('gmd', case, 'agree' if ok else 'differs: Q %s R %s P %s' % (w1, w2, w3), 'agree', key=key)
        if ncalls:
            ctx.corr('gmd.kernel-calls', case, 'calls=%d' % ncalls, 'calls=0', key=key + ('k',))


def corr_conversion(ctx, g, drv, n_cases):
    _, _, _, conv = _impl()
    xs, ys, bs = [], [], []
    for _ in range(n_cases):
        xs.append(10.0 ** g.rng.uniform(-15, 15))
        ys.append(g.rng.uniform(-150, 150))
        bs.append(g.rng.randint(1, 10))
    xs += [1.0, 1000.0, 1e-3, 2.0]
    ys += [0.0, 30.0, -30.0, 3.0]
    bs += [1, 2, 4, 6]
    lines = []
    for x, y, b in zip(xs, ys, bs):
        lines += ['lin2db %s' % core.f2s(x), 'db2lin %s' % core.f2s(y), 'lin2dbm %s' % core.f2s(x),
                  'dbm2lin %s' % core.f2s(y), 'snr2ebn0 %s %s' % (core.f2s(y), core.f2s(float(b))),
                  'ebn02snr %s %s' % (core.f2s(y), core.f2s(float(b)))]
    out = drv.ask(lines)
    for i, (x, y, b) in enumerate(zip(xs, ys, bs)):
        impl = [conv.linear2dB(x), conv.dB2Linear(y), conv.linear2dBm(x), conv.dBm2Linear(y),
                conv.SNR_dB_to_EbN0_dB(y, b), conv.EbN0_dB_to_SNR_dB(y, b)]
        names = ['linear2dB', 'dB2Linear', 'linear2dBm', 'dBm2Linear', 'SNR_dB_to_EbN0_dB', 'EbN0_dB_to_SNR_dB']
        for j, (nm, v) in enumerate(zip(names, impl)):
            mv = core.s2f(out[6 * i + j])
            ok = core.close(float(v), mv, rtol=1e-12)
            ctx.corr(nm, {'x': x, 'y': y, 'bits': b}, 'agree' if ok else 'differs: impl %r model %r' % (float(v), mv),
                     'agree', key=(nm, i))
    ctx.branch('conversion', len(xs))
    # R8 / R9 / R14: keyword forms, bits_per_symb in every index type, one array with more than 256 entries
    size = big_size(ctx) if ctx.tier == 'quick' else 2 ** 16 + 1
    xv = 10.0 ** np.linspace(-15, 15, size)
    yv = np.linspace(-150, 150, size)
    bform = index_form(ctx, 6, ctx.seed)
    impl_v = [conv.linear2dB(valueInLinear=xv), conv.dB2Linear(valueIndB=yv), conv.linear2dBm(valueInLinear=xv),
              conv.dBm2Linear(valueIndBm=yv), conv.SNR_dB_to_EbN0_dB(SNR=yv, bits_per_symb=bform),
              conv.EbN0_dB_to_SNR_dB(EbN0=yv, bits_per_symb=bform)]
    ctx.branch('corr-R8:keyword')
    ctx.branch('corr-R14:count>256')
    vl = []
    for x, y in zip(xv, yv):
        vl += ['lin2db %s' % core.f2s(x), 'db2lin %s' % core.f2s(y), 'lin2dbm %s' % core.f2s(x),
               'dbm2lin %s' % core.f2s(y), 'snr2ebn0 %s %s' % (core.f2s(y), core.f2s(6.0)),
               'ebn02snr %s %s' % (core.f2s(y), core.f2s(6.0))]
    vo = drv.ask(vl)
    names6 = ['linear2dB', 'dB2Linear', 'linear2dBm', 'dBm2Linear', 'SNR_dB_to_EbN0_dB', 'EbN0_dB_to_SNR_dB']
    for j, nm in enumerate(names6):
        mv = np.array([core.s2f(vo[6 * i + j]) for i in range(size)])
        iv = np.asarray(impl_v[j], dtype=float)
        ok = iv.shape == mv.shape and bool(np.all(np.abs(iv - mv) <= 1e-12 * np.maximum(1.0, np.maximum(np.abs(iv), np.abs(mv)))))
        bad = int(np.argmax(np.abs(iv - mv))) if iv.shape == mv.shape else -1
        ctx.corr(nm + '.vector', {'size': size, 'index': bad, 'x': float(xv[bad]), 'y': float(yv[bad]), 'bits': 6},
                 'agree' if ok else 'differs at element %d: impl %r model %r' % (bad, iv[bad] if bad >= 0 else None, mv[bad] if bad >= 0 else None),
                 'agree', key=(nm, 'vector', size))
    # R1 / R5: the same values as Python and numpy scalars of every width (integer valued, in range)
    lines, items = [], []
    for ty in SCALAR_TYPES:
        for x, y, b in ((1, 0, 1), (50, 30, 4), (g.rng.randint(2, 60), g.rng.randint(-30, 30), g.rng.randint(1, 10))):
            xs_, ys_, bs_ = mk_scalar(x, ty), mk_scalar(y, ty), mk_scalar(b, ty)
            x, y, b = float(xs_), float(ys_), float(bs_)
            items.append((ty, x, y, b, [conv.linear2dB(xs_), conv.dB2Linear(ys_), conv.linear2dBm(xs_),
                                        conv.dBm2Linear(ys_), conv.SNR_dB_to_EbN0_dB(float(y), bs_),
                                        conv.EbN0_dB_to_SNR_dB(float(y), bs_)]))
            lines += ['lin2db %s' % core.f2s(x), 'db2lin %s' % core.f2s(y), 'lin2dbm %s' % core.f2s(x),
                      'dbm2lin %s' % core.f2s(y), 'snr2ebn0 %s %s' % (core.f2s(y), core.f2s(b)),
                      'ebn02snr %s %s' % (core.f2s(y), core.f2s(b))]
        ctx.branch('corr-R1:scalar-' + ty)
    out = drv.ask(lines)
    names = ['linear2dB', 'dB2Linear', 'linear2dBm', 'dBm2Linear', 'SNR_dB_to_EbN0_dB', 'EbN0_dB_to_SNR_dB']
    for i, (ty, x, y, b, impl) in enumerate(items):
        for j, (nm, v) in enumerate(zip(names, impl)):
            mv = core.s2f(out[6 * i + j])
            ok = np.asarray(v).dtype.kind == 'f' and core.close(float(v), mv, rtol=type_rtol(ty))
            ctx.corr(nm + '.scalar-type', {'x': x, 'y': y, 'bits': b, 'type': ty},
                     'agree' if ok else 'differs: impl %r (%s) model %r' % (float(v), np.asarray(v).dtype, mv), 'agree',
                     key=(nm, 'type', ty, i))


def correspondence(ctx, scale):
    g = Gen(ctx.rng.fork('corr'))
    drv = core.Driver(DRIVER)
    plan = [(corr_projection, 40), (corr_chordal, 30), (corr_whiten, 30), (corr_uisd, 30), (corr_select, 40),
            (corr_lrsv, 40), (corr_gpcm, 40), (corr_gmd, 40), (corr_conversion, 60)]
    for fn, n in plan:
        try:
            fn(ctx, g, drv, n * scale)
        except core.Infra:
            raise
        except Exception as e:
            # the implementation raised where the model has a value (or returned something the
            # comparison cannot even parse): the correspondence is broken, the oracles look for the input
            import traceback
            ctx.branch('disagree:' + fn.__name__)
            ctx.tie_broken('correspondence', fn.__name__,
                           'exception while running the implementation: %r\n%s' % (e, traceback.format_exc()[-1200:]))
            ctx.required_branches = []
    try:                                   # R15 / R16: histories on reused arrays, close-but-distinct values
        c20_robust.correspondence(ctx, scale == 1)
    except core.Infra:
        raise
    except Exception as e:
        import traceback
        ctx.branch('disagree:c20_robust.correspondence')
        ctx.tie_broken('correspondence', 'R15/R16 histories',
                       'exception while running the implementation: %r\n%s' % (e, traceback.format_exc()[-1200:]))
        ctx.required_branches = []


# ------------------------------------------------------------------ oracles
CORPUS = [
    ('calc_whitening_matrix', lambda: {'C': enc(np.eye(3) + np.outer([1, 2, 2], [1, 2, 2]).astype(float))}),
    ('calc_whitening_matrix', lambda: {'C': enc(np.eye(4) * 2.0 + np.outer([1, -1j, 2, 0], np.conj([1, -1j, 2, 0])))}),
    ('get_principal_component_matrix', lambda: {'A': enc(np.array([[1, 2], [3, 4], [5, 7]])), 'k': 1}),
    ('get_principal_component_matrix', lambda: {'A': enc(np.array([[1.0, 2, 0, 1], [0, 1.0, 3, 1]])), 'k': 1}),
    ('least_right_singular_vectors', lambda: {'A': enc(np.array([[1.0, 2, 0, 1], [0, 1.0, 3, 1]])), 'n': 1}),
    ('calc_chordal_distance', lambda: {'A': enc(np.array([[1.0], [0.0]])), 'B': enc(np.eye(2))}),
    ('Projection', lambda: {'A': enc(np.array([[1 + 1j, 2 - 2j], [3 - 2j, 0], [-1 - 1j, 2 - 3j]])),
                            'M': enc(np.array([[1.0], [2.0], [3.0]]))}),
    ('gmd', lambda: {'A': enc(np.array([[6.0, 8, 0, 4], [8, 6, 7, 6], [10, 9, 7, 3], [6, 2, 9, 2]]))}),
    ('gmd', lambda: {'A': enc(3.0 * np.eye(3))}),
]
# gmd, `flag` branch (no rotation): by theorem (gmd_partner_small) it is exact only when the pivot equals the
# geometric mean; these inputs have singular values equal to sigma_bar EXACTLY in binary64 (exp(mean(log S)) == S),
# so the branch is taken with d[k] == d[i] == sigma_bar -- a test made strict there divides 0 by 0.  The last one
# reaches the branch after a genuine rotation (S = 4, 2, 1, sigma_bar = 2).
GMD_EXACT_MEAN = [np.eye(2), np.eye(3), 2.0 * np.eye(2), 0.5 * np.eye(3), np.eye(3)[[1, 2, 0]],
                  np.diag([1.0, -1.0, 1.0]), np.eye(3)[:, :2], np.eye(2, 4), 1j * np.eye(2),
                  np.diag([4.0, 2.0, 1.0]), np.diag([1.0, 4.0, 2.0])[:, [2, 0, 1]]]
CORPUS += [('gmd', (lambda a: (lambda: {'A': enc(a)}))(a_)) for a_ in GMD_EXACT_MEAN]


def oracles(ctx, scale):
    g = Gen(ctx.rng.fork('oracle'))
    rng = g.rng
    for call, mk in CORPUS:
        run_oracle(ctx, call, mk(), key=('corpus', call, repr(mk())[:80]))
    for a in GMD_EXACT_MEAN:
        sv = np.linalg.svd(a, compute_uv=False)
        if np.any(sv == math.exp(np.mean(np.log(sv)).item())):
            ctx.branch('gmd:singular-value-equals-mean-exactly')
    for _ in range(40 * scale):
        a, mm, kind = gen_proj_case(g)
        run_oracle(ctx, 'Projection', {'A': enc(a), 'M': enc(mm)})
        ctx.branch('oracle:proj:' + kind)
    for _ in range(15 * scale):
        m, k = shapes(rng, None)
        cplx = rng.chance(0.6)
        a, _ = g.full_rank(m, k, cplx, max_cond=1e4)
        t, _ = g.full_rank(k, k, cplx, max_cond=1e2)
        run_oracle(ctx, 'calcProjectionMatrix.invariance', {'A': enc(a), 'T': enc(t), 'U': enc(g.unitary(m, cplx))})
    for _ in range(30 * scale):
        a, b, cplx = gen_pair(g, equal_dims=rng.chance(0.85))
        run_oracle(ctx, 'calc_chordal_distance', {'A': enc(a), 'B': enc(b)})
    for _ in range(15 * scale):
        a, b, cplx = gen_pair(g)
        p = a.shape[1]
        ta, _ = g.full_rank(p, p, cplx, max_cond=1e2)
        tb, _ = g.full_rank(p, p, cplx, max_cond=1e2)
        run_oracle(ctx, 'calc_chordal_distance.invariance',
                   {'A': enc(a), 'B': enc(b), 'TA': enc(ta), 'TB': enc(tb), 'U': enc(g.unitary(a.shape[0], cplx))})
    for _ in range(40 * scale):
        a = gen_rect(g)
        run_oracle(ctx, 'gmd', {'A': enc(a)})
        ctx.branch('gmd:' + ('square' if a.shape[0] == a.shape[1] else 'tall' if a.shape[0] > a.shape[1] else 'wide'))
    # R1: the singular values themselves in another element type / container (every form, both shapes)
    for i, form in enumerate(S_FORMS * scale):
        k = 2 + i % 3
        svals = sorted({rng.randint(1, 9) for _ in range(k + 3)}, reverse=True)[:k]
        if len(svals) < 2:
            svals = [5, 2]
        run_oracle(ctx, 'gmd.typed-S', {'seed': rng.randint(0, 1 << 30), 'm': len(svals) + i % 2, 'n': len(svals) + (i // 2) % 2,
                                        'cplx': i % 3 == 0, 'S': svals, 'form': form})
        ctx.branch('oracle-R1:gmd-singular-values-typed')
    for _ in range(6 * scale):     # repeated singular values: unitary and scaled-unitary matrices
        n = rng.randint(1, 6)
        run_oracle(ctx, 'gmd', {'A': enc(g.unitary(n, rng.chance(0.5)) * float(rng.randint(1, 4)))})
    for _ in range(10 * scale):    # tol > 0: only the p largest singular values are in use (rank-p truncation)
        a = gen_rect(g)
        sv = np.linalg.svd(a, compute_uv=False)
        if sv.size < 2:
            continue
        j = rng.randint(1, sv.size - 1)
        if not sv[j - 1] > 1.001 * sv[j]:
            continue
        run_oracle(ctx, 'gmd', {'A': enc(a), 'tol': float(np.sqrt(sv[j - 1] * sv[j]))})
        ctx.branch('gmd:oracle-tol>0')
    for _ in range(40 * scale):
        n = rng.randint(1, 8)
        c, kind = g.hpd(n, rng.chance(0.6))
        run_oracle(ctx, 'calc_whitening_matrix', {'C': enc(c)})
        ctx.branch('oracle:whiten:' + kind)
    for _ in range(30 * scale):
        a, d = gen_uisd_case(g)
        if np.iscomplexobj(d) and not np.iscomplexobj(a):
            a = a.astype(complex)
        run_oracle(ctx, 'update_inv_sum_diag', {'A': enc(a), 'd': enc(d)})
    for _ in range(40 * scale):
        a = gen_herm(g, margin=rng.chance(0.7))
        run_oracle(ctx, 'peig/leig', {'A': enc(a), 'n': rng.randint(0, a.shape[1] + 1),
                                      'which': rng.choice(['peig', 'leig'])})
    for _ in range(40 * scale):
        a = gen_rect(g)
        run_oracle(ctx, 'least_right_singular_vectors', {'A': enc(a), 'n': rng.randint(0, a.shape[1])})
    for _ in range(40 * scale):
        a = gen_rect(g)
        if rng.chance(0.2):
            a = np.round(a.real * 3).astype(np.int64)
            if np.linalg.matrix_rank(a) < min(a.shape):
                continue
        s = np.linalg.svd(a.astype(complex), compute_uv=False)
        ks = [k for k in range(1, s.size + 1) if (s[k - 1] - (s[k] if k < s.size else 0.0)) >= 1e-3 * s[0]]
        if not ks:
            continue
        run_oracle(ctx, 'get_principal_component_matrix', {'A': enc(a), 'k': rng.choice(ks)})
    for _ in range(60 * scale):
        run_oracle(ctx, 'conversion', {'x': 10.0 ** rng.uniform(-15, 15), 'y': rng.uniform(-150, 150),
                                       'bits': rng.randint(1, 10)})


def r_class_oracles(ctx, scale):
    variant_oracles(ctx, 30 * scale)
    boundary_oracles(ctx)
    r8_oracles(ctx, 16 * scale)


def exhaustive_shapes(ctx):
    """thorough tier: every shape of the quantifier's range once per field"""
    g = Gen(ctx.rng.fork('shapes'))
    for cplx in (False, True):
        for m in range(1, 9):
            for k in range(1, m + 1):
                a, _ = g.full_rank(m, k, cplx, kind='gauss')
                b, _ = g.full_rank(m, k, cplx, kind='gauss')
                run_oracle(ctx, 'Projection', {'A': enc(a), 'M': enc(g.raw(m, 2, cplx))}, key=('shape', m, k, cplx))
                run_oracle(ctx, 'calc_chordal_distance', {'A': enc(a), 'B': enc(b)}, key=('shape', m, k, cplx))
            for c in range(1, 9):
                a = g.raw(m, c, cplx)
                run_oracle(ctx, 'gmd', {'A': enc(a)}, key=('shape', m, c, cplx))
                for n in range(0, c + 1):
                    run_oracle(ctx, 'least_right_singular_vectors', {'A': enc(a), 'n': n}, key=('shape', m, c, n, cplx))
                for k in range(1, min(m, c) + 1):
                    run_oracle(ctx, 'get_principal_component_matrix', {'A': enc(a), 'k': k}, key=('shape', m, c, k, cplx))
            h = g.raw(m, m, cplx)
            h = h + H(h)
            for n in range(0, m + 2):
                for which in ('peig', 'leig'):
                    run_oracle(ctx, 'peig/leig', {'A': enc(h), 'n': n, 'which': which}, key=('shape', m, n, which, cplx))
            c, _ = g.hpd(m, cplx, 'rank1')
            run_oracle(ctx, 'calc_whitening_matrix', {'C': enc(c)}, key=('shape', m, cplx))
            a, d = gen_uisd_case(g)
            run_oracle(ctx, 'update_inv_sum_diag', {'A': enc(a.astype(complex) if np.iscomplexobj(d) else a), 'd': enc(d)})
    ctx.branch('exhaustive-shapes')


def check(ctx):
    ctx.rule = ('matrices m x k, 1 <= k <= m <= 8 (selectors/gmd: any 1..8 x 1..8), real or complex, drawn from '
                'gaussian / Gaussian-integer / prescribed condition number (<= 1e6) / nearly dependent columns; '
                'Hermitian positive definite covariances incl. repeated eigenvalues (identity + rank one, prescribed '
                'spectra); Hermitian matrices with eigenvalue margin for the selectors; positive reals 1e-15..1e15 '
                'and dB values -150..150 for the conversions; non-trivial = distinct (function, shape, field, '
                'generator kind, case index); R15: deterministic + seeded sets of close-but-distinct values (principal angles '
                '1.5e-8..1.4e-3, singular values / eigenvalues a relative 1e-6..one ulp apart or of magnitude 1e-9..1e-15, tol '
                'next to a singular value, conversion arguments next to 1 / 0 / each other), each in sequences of neighbours; '
                'R16: histories of 2-4 calls per entry point on ONE array per parameter refilled in place, the same array in '
                'two roles, Projection objects over a reused basis array')
    quick = ctx.tier == 'quick'
    scale = 1 if quick else 250
    core.prove(ctx, MODULE, generated=['C20Conversion'], drivers=[DRIVER], scratch=ctx.scratch)
    ctx.notes += [
        'numpy.linalg.inv / qr / svd / eig and numpy.argsort are tapped while the real code runs: their results are '
        'parameters of the model, their arguments are compared with the model, and the contracts the theorems assume '
        '(G (A^H A) = 1; Q^H Q = 1, A = Q R, R upper triangular invertible; M = U diag(s) V^H with unitary factors; '
        'A V = V diag(D); argsort = sorting permutation) are checked numerically on every case',
        'harness/gen/c20.py (float-expression fragment of util/conversion.py -> Generated/C20Conversion.lean)',
        'gmd: the whole sweep is proved correct on the executable array model (gmd_correct, gmd_correct_complex); '
        'the model is tied to the code by correspondence (hand-written model, not regenerated)',
    ]
    ctx.required_branches = ['complex', 'real', 'tall', 'square', 'proj:neardep', 'proj:cond', 'proj:gint',
                             'chordal:dims-equal', 'chordal:dims-differ', 'whiten:rank1', 'whiten:spectrum',
                             'uisd:full-diagonal', 'uisd:short-diagonal', 'select:peig', 'select:leig',
                             'select:error', 'lrsv:wide', 'lrsv:tall-or-square', 'gpcm:wide',
                             'gpcm:tall-or-square', 'gmd:p=len(S)', 'gmd:p<len(S)',
                             'gmd:singular-value-equals-mean-exactly', 'gmd:oracle-tol>0', 'conversion']
    for side in ('corr-', 'oracle-'):
        ctx.required_branches += [side + b for b in (
            'R1:float32/complex64', 'R1:integer-dtype', 'R1:scalar-int8', 'R1:scalar-uint8', 'R1:scalar-int16',
            'R1:scalar-pyint', 'R1:scalar-float32', 'R2:layout-F', 'R2:layout-T', 'R2:layout-rev',
            'R2:layout-strided', 'R5:boundary', 'R6:scale-tiny', 'R6:scale-huge')]
    ctx.required_branches += ['corr-R8:keyword', 'corr-R8:default-argument', 'corr-R9:index-int8', 'corr-R9:index-uint8',
                              'corr-R9:index-uint64', 'corr-R9:index-intp', 'corr-R9:index-0-d', 'corr-R9:index-bool',
                              'corr-R10:mixed-element-types', 'corr-R14:count>256',
                              'oracle-R8:argument-forms', 'oracle-R9:index-types', 'oracle-R10:mixed-f64+c128',
                              'oracle-R10:mixed-f32+c128', 'oracle-R10:mixed-i16+f64', 'oracle-R11:queries-do-not-mutate',
                              'oracle-R12:order-of-listing', 'oracle-R13:derived-objects', 'oracle-R14:count>256']
    ctx.required_branches += ['oracle-R2:array-shape-', 'oracle-R2:array-shape-0', 'oracle-R2:array-shape-2x1x3',
                              'oracle-R3:independence', 'oracle-R4:rejected-calls', 'oracle-R7:object-history']
    ctx.required_branches += c20_robust.CORR_BRANCHES + c20_robust.ORACLE_BRANCHES + ['oracle-R1:gmd-singular-values-typed']
    try:
        correspondence(ctx, scale)
    except core.Infra as e:
        if not ctx.broken:
            raise
        ctx.notes.append('correspondence skipped: %s' % e)
        ctx.required_branches = []
    oracles(ctx, scale)
    c20_robust.oracles(ctx, run_oracle, quick)
    r_class_oracles(ctx, scale if quick else max(1, scale // 5))
    if not quick:
        exhaustive_shapes(ctx)


def search(ctx):
    """deeper failing-input search, used when a proof / correspondence broke"""
    before = len(ctx.failures)
    c20_robust.oracles(ctx, run_oracle, False)      # R15 / R16 at thorough size
    if len(ctx.failures) > before:
        return
    for _ in range(4):
        oracles(ctx, 3)
        if len(ctx.failures) > before:
            return
