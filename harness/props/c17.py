"""C17 — saving and loading parameters and results loses nothing (DESIGN.md §5 C17).

Model: lean/PyPhysim/Model/C17.lean (values, JSON trees, encoder, decoder hook,
normal form) and Model/C17Classes.lean (SimulationParameters / Result /
SimulationResults dict forms, CHOICE update machine, file store, file-name
templates).  Theorems: Properties/C17.lean.

Tie to the source: exact correspondence.  Objects are built with the real
constructors / update methods from JSON-able *specs*; their observable state is
sent to the compiled model as prefix tokens (`tok`); the model predicts (a) the
JSON tree `to_json()` must produce and (b) the state of the object `from_json`
must return; both are compared token for token (types, widths, dtypes, shapes,
exact binary64 values as p/q).  CPython's json / pickle / repr(float) are
trusted (checked per case only through the comparison itself).

Oracles (independent of the model): the classes' own `==`, a first-principles
deep comparison (same tree, same numeric values, same dtype kind and shape),
idempotence of a second save/load, pickle and file paths, file names.

Robustness classes R15 (distinct values that are merely close) and R16 (argument
identity and buffer reuse) live in the helper module harness/props/c17_r1516.py
(generators, correspondence through the driver ops paramsops / fname / file2,
oracles `close-but-distinct-values` and `argument-identity-and-buffer-reuse`).
"""
import copy
import json
import os
import pickle

import numpy as np

from harness import core

MODULE = 'PyPhysim.Properties.C17'
DRIVER = 'drv_c17'
CLAIM = {
    'technique': 'Lean 4 structural-induction proofs of dec(enc v) = norm v lifted through the class and file layers '
                 '+ exact token-level correspondence of the model with the real to_json/from_json/save/load '
                 '+ field tables and encoder/hook ladders regenerated from the AST with bridge theorems',
    'text': 'Kernel-checked for all inputs: for every supported value tree (Python scalars, numpy scalars of widths '
            '8-64, strings, lists, sets, real numeric arrays of any shape incl. zero-sized and 0-d, dicts without the '
            'two hook-reserved keys) decoding the encoding returns the value with numpy scalars replaced by the Python '
            'scalar of the same value and nothing else changed (same tree, values, dtype, shape); this is lifted to '
            'SimulationParameters chains of any depth (unpacked marks, unpack index, original parameters of unpacked '
            'children), to every field state of SUM/RATIO/MISC results and every state the CHOICE update machine '
            'reaches from any update history (invariant total = num_updates = sum of counts proved by induction), to '
            'SimulationResults (all results, runned_reps, current_rep, original_filename) and to the '
            '.json/.pickle/no-extension file dispatch; a second save/load is the identity and re-encoding the loaded '
            'object gives the same JSON tree; two parameter sets that differ in one template field with different '
            'renderings get different file names for every template mentioning it, int/str/bool renderings are '
            'injective, and the name does not change when numpy scalars are replaced by Python scalars. The model is '
            'the repaired code, tied to it by exact comparison of the JSON tree and of the complete loaded state on '
            'seeded objects built through the real constructors, update() histories and files; independent oracles '
            '(the classes\' ==, a first-principles deep comparison, pickle, files, names) search for failing inputs. '
            'Second tie: Generated/C17Fields.lean is re-emitted from the current AST on every run with the '
            '(key, attribute) tables of Result / SimulationResults / SimulationParameters._to_dict and _from_dict '
            '(per path of Result._from_dict: field-by-field and CHOICETYPE replay), the d.get defaults, the decision '
            'ladder of NumpyOrSetEncoder.default (class accepted and JSON form per branch, in test order) and the '
            'marks / keys of json_numpy_or_set_obj_hook; theorems generated_field_tables_match_model, '
            'generated_reader_tables_match_model, generated_default_matches_model (the model\'s toDict / fromDict '
            'are these tables, for all objects), generated_fields_round_trip (writer and reader tables mutually '
            'consistent: a field dropped, renamed on one side or read into another attribute is refused), '
            'generated_encoder_ladder_matches_model (the ladder computes enc on every numpy scalar / array / set) '
            'and generated_hook_matches_model (hook = objHook; encoder and hook agree on marks and keys).',
    'note': 'Trusted: Lean kernel; the extractor harness/gen/c17.py (reads structure only: which attribute a '
            'dictionary value is made of behind value-preserving wrappers, which key an attribute is assigned from, '
            'which class an isinstance path accepts; values are covered by the correspondence); CPython json/pickle/repr(float)/str.format/os.path.splitext; numpy '
            'array<->tolist, dtype names and np.array(data, dtype).reshape; the correspondence harness. The value '
            'of an array, in the model and in every comparison, is its logical content (dtype, shape, index -> element, '
            'i.e. tolist()), independent of its memory layout: every generated array of ndim >= 2 is also exercised '
            'as Fortran-ordered, transposed, strided, reversed and broadcast view and must load equal to its '
            'C-contiguous twin. Partial: the '
            'binary64 arithmetic of update() is not modelled (the round-trip theorems hold for every field state, hence '
            'for every history; the CHOICE machine is modelled exactly); float renderings in file names are a '
            'parameter of the model (injectivity proved for int/str/bool fields, conditional on injectivity of '
            'repr(float) for float fields; numpy-float formatting = Python-float formatting is checked per generated '
            'value); container/array-valued template fields, np.longdouble beyond binary64 (known finding), NaN '
            '(== is not reflexive) and dict keys _is_set/_is_numpy_array (known finding with negative witness) are '
            'outside the supported set; pickle is modelled as storing the object itself. Robustness classes: R1 '
            '(element types) by theorem (enc_norm, dec_enc, filename_same_after_reload: functions of the value only, '
            'not of the numpy type) + twin oracle (same values as Python scalars give the same JSON and loaded object); '
            'R2 (layout/shape) by theorem over the logical array value for every shape incl. 0-d and zero-sized + '
            'layout twins in correspondence and oracles; R4 (rejected save leaves object and store unchanged) by '
            'theorem save_rejected_leaves_state + correspondence of the state after a rejected call + oracle '
            '(unknown extension, unserialisable complex value, unwritable path, existing file intact, no stray file); '
            'R5/R6 (falsy, single-element, denormal..1e300, beyond 2^53/2^63, inf) are instances of the all-values '
            'theorems and are enumerated deterministically through correspondence and oracles in every run; R3 '
            '(saving does not modify the object: theorem save_modifies_only_original_filename; no aliasing between '
            'saved and loaded objects, dict forms are snapshots) and R7 (file is a snapshot, shared parameters object, '
            'save/load chains, two loads independent) by oracle only - the functional model has no aliasing. '
            'Tuples (known finding) and complex values (rejected with TypeError, checked) are not supported values. '
            'R8 (argument forms: Result constructor positional/keyword, Result.create, update(value=,total=), '
            'add_new_result vs append_result, set_unpack_parameter forms, create() vs add(), save/load/from_json/'
            'get_filename/replace_dict_values by keyword) oracle + generators only (the model has one form); '
            'R9 (CHOICE indexes as int, every numpy integer width incl. intp and unsigned, bool, 0-d array, values '
            'above 256; numpy-typed current_rep) by theorem for the index conversion (itemOf/choice_roundtrip_exact) + '
            'correspondence; R10 (heterogeneous lists/sets of arrays, lists and scalars) instance of dec_enc, '
            'enumerated in correspondence and oracles; R11 (queries, ==, repr, copies between saves) oracle only; '
            'R12 (insertion order of parameters, marks, results, set elements) oracle + canonical comparison (the '
            'model decoder looks fields up by key); R13 (children changed after unpacking, originals changed after '
            'unpacking, copies, combine_simulation_results unions) by theorems params_roundtrip_after_mutation / '
            'child_keeps_own_value with the mutators in the model (driver op paramsops) + correspondence + oracles; '
            'R14 (257/258/300 parameters, results, choices, 2^16+1 elements and updates) instances of the theorems, '
            'one case of each per run. '
            'R15 (pairwise different values that are merely close: magnitudes 1e-9..5e-324, relative 1e-6, adjacent '
            'doubles / float32 / float16, differences beyond the 12th decimal, integers beyond 2^53; as scalar, in lists, '
            'sets, arrays, unpacked, in results, in file names, through setters of a long-lived object) by theorems '
            'json_text_exact / float_text_exact (the text determines the value), setter_takes_effect_for_every_new_value, '
            'filename_follows_setter + correspondence (values, setter histories applied by the model, file names, two '
            'saves of one object through one file store: driver op file2) + oracle (every member is written, read, named '
            'and saved as exactly itself; the classes\' == / != keep the members apart before and after a round trip; '
            'one file per value). R16 (one array / list / set / dict object refilled in place between 2-4 calls, the same '
            'object in two roles, a dict handed to from_dict / the decoder hook / replace_dict_values reused) by theorems '
            'refill_eq_fresh, same_value_in_two_roles, later_save_keeps_earlier_files, later_save_same_name_wins (the '
            'model has no identity: a refill in place is the assignment of the new contents) + correspondence (the model '
            'predicts from the state before the refill and the new contents what the real long-lived object writes after '
            'the real refill) + oracle (equals a fresh object built from a copy of the contents; nothing returned, loaded '
            'or written earlier changes later). No tolerance is used in either class (token-exact).',
}

RESERVED = ('_is_set', '_is_numpy_array')
INT_DTYPES = ['int8', 'int16', 'int32', 'int64', 'uint8', 'uint16', 'uint32', 'uint64']
FLOAT_DTYPES = ['float16', 'float32', 'float64']
TYPE_NAMES = {0: 'SUMTYPE', 1: 'RATIOTYPE', 2: 'MISCTYPE', 3: 'CHOICETYPE'}


def _impl():
    from pyphysim.simulations.parameters import SimulationParameters
    from pyphysim.simulations.results import Result, SimulationResults
    from pyphysim.util import misc, serialize
    return SimulationParameters, Result, SimulationResults, serialize, misc


# ------------------------------------------------------------------ specs
# A spec is a JSON-able description from which the Python object is rebuilt
# exactly (floats travel as float.hex()).
def fhex(x):
    return float(x).hex()


def build(spec):
    t = spec[0]
    if t == 'none':
        return None
    if t == 'bool':
        return bool(spec[1])
    if t == 'int':
        return int(spec[1])
    if t == 'float':
        return float.fromhex(spec[1])
    if t == 'str':
        return spec[1]
    if t == 'npint':
        return np.dtype(spec[1]).type(int(spec[2]))
    if t == 'npfloat':
        if spec[1] == 'longdouble':
            return np.longdouble(spec[2]) if not spec[2].startswith(('0x', '-0x')) else np.longdouble(float.fromhex(spec[2]))
        return np.dtype(spec[1]).type(float.fromhex(spec[2]))
    if t == 'npbool':
        return np.bool_(spec[1])
    if t == 'list':
        return [build(s) for s in spec[1]]
    if t == 'set':
        return set(build(s) for s in spec[1])
    if t == 'array':
        dt, shape, flat = spec[1], spec[2], spec[3]
        if dt in FLOAT_DTYPES:
            flat = [float.fromhex(x) for x in flat]
        return apply_layout(np.array(flat, dtype=dt).reshape(shape), spec[4] if len(spec) > 4 else 'C')
    raise ValueError('bad spec %r' % (spec,))


# Memory layouts of an array.  The value of an array -- in the model, in the
# property and in every comparison here -- is its LOGICAL content (index ->
# element, i.e. dtype, shape, tolist()); the layout must not matter.
LAYOUTS = ['C', 'F', 'T', 'strided', 'reversed', 'broadcast']


def apply_layout(a, layout):
    """the same logical array in another memory layout"""
    if layout in (None, 'C') or a.ndim == 0:
        return a
    if layout == 'F':
        return np.asfortranarray(a)
    if layout == 'T':                                   # transpose view of a C-contiguous array
        return np.ascontiguousarray(a.T).T
    if layout == 'strided':                             # every second element of a larger array, on every axis
        big = np.zeros(tuple(2 * n for n in a.shape), dtype=a.dtype)
        sl = tuple(slice(None, None, 2) for _ in a.shape)
        big[sl] = a
        return big[sl]
    if layout == 'reversed':                            # negative stride on the last axis
        return np.ascontiguousarray(a[..., ::-1])[..., ::-1]
    if layout == 'broadcast':                           # zero stride on the first axis (read-only view)
        if a.shape[0] > 0:
            b = np.broadcast_to(a[:1], a.shape)
            if deep_same(a.tolist(), b.tolist()) is None:
                return b
        return a
    raise ValueError('bad layout %r' % (layout,))


def strip_layout(spec):
    """the C-contiguous twin: same values, default layout"""
    if spec[0] in ('list', 'set'):
        return [spec[0], [strip_layout(x) for x in spec[1]]]
    if spec[0] == 'array':
        return spec[:4]
    return spec


def manifesting(spec):
    """array spec whose layout differs from C order in memory: >= 2 dimensions longer than 1, non-C layout"""
    return (spec[0] == 'array' and len(spec) > 4 and spec[4] != 'C'
            and sum(1 for n in spec[2] if n > 1) >= 2)


def layout_variants(spec):
    """the same value with every array of ndim >= 2 in each memory layout (one variant per layout)"""
    def has(sp):
        if sp[0] in ('list', 'set'):
            return any(has(x) for x in sp[1])
        return sp[0] == 'array' and len(sp[2]) >= 2

    def with_layout(sp, lay):
        if sp[0] in ('list', 'set'):
            return [sp[0], [with_layout(x, lay) for x in sp[1]]]
        if sp[0] == 'array' and len(sp[2]) >= 2:
            sp = sp[:4]
            if lay == 'broadcast':
                sp = tile_first(sp)
            return sp + [lay]
        return sp
    if not has(spec):
        return []
    return [with_layout(spec, lay) for lay in LAYOUTS[1:]]


def tile_first(sp):
    """array spec whose slices along axis 0 all equal the first one (what a broadcast view can hold)"""
    shape, flat = sp[2], sp[3]
    if not shape or shape[0] == 0:
        return sp
    inner = len(flat) // shape[0]
    return [sp[0], sp[1], shape, flat[:inner] * shape[0]]


def spec_features(spec, out=None):
    """feature names of a value spec (used to classify a failing input)"""
    out = set() if out is None else out
    t = spec[0]
    if t == 'npint':
        out.add('npint:' + spec[1])
    elif t == 'npfloat':
        out.add('npfloat:' + spec[1])
    elif t == 'npbool':
        out.add('npbool')
    elif t == 'float':
        x = float.fromhex(spec[1])
        if x in (float('inf'), float('-inf')):
            out.add('float:inf')
    elif t in ('list', 'set'):
        if t == 'set':
            out.add('set')
        for s in spec[1]:
            spec_features(s, out)
    elif t == 'array':
        shape = spec[2]
        out.add('array:ndim=%d' % len(shape))
        if 0 in shape and len(shape) >= 2:
            out.add('array:zero-size-ndim>=2')
        elif 0 in shape:
            out.add('array:empty-1d')
        if spec[1] in FLOAT_DTYPES and any(abs(float.fromhex(x)) == float('inf') for x in spec[3]):
            out.add('array:nonfinite')
        if len(spec) > 4 and spec[4] != 'C':
            out.add('array:layout=' + spec[4])
            if manifesting(spec):
                out.add('array:non-C-memory-order')
    return out


# ------------------------------------------------------------------ tokens
class NotSendable(Exception):
    pass


def tok_float(x):
    x = float(x)
    if x != x:
        return 'nan'
    if x == float('inf'):
        return '+inf'
    if x == float('-inf'):
        return '-inf'
    if x == 0.0 and str(x).startswith('-'):
        return 'z'
    p, q = x.as_integer_ratio()
    return '%d/%d' % (p, q)


import functools


@functools.lru_cache(maxsize=200000)
def tok_str(s):
    return 's' + '.'.join(str(ord(c)) for c in s)


def tok(v, sort_sets=False, strict=False):
    """prefix tokens of a Python value, type-exact (`strict`: for the model,
    which has no np.longdouble)"""
    if strict:
        check_sendable(v)
    if v is None:
        return 'N'
    if isinstance(v, np.generic):
        if isinstance(v, np.bool_):
            return 'nbT' if v else 'nbF'
        if isinstance(v, np.integer):
            return 'ni%d:%d:%d' % (1 if np.issubdtype(v.dtype, np.signedinteger) else 0, v.dtype.itemsize * 8, int(v))
        if isinstance(v, np.floating):
            if v.dtype.itemsize > 8:
                return 'nf128:%s' % (tok_float(v) if float(v) == v else 'ld' + str(v))
            return 'nf%d:%s' % (v.dtype.itemsize * 8, tok_float(v))
        raise NotSendable(type(v).__name__)
    if isinstance(v, bool):
        return 'T' if v else 'F'
    if isinstance(v, int):
        return 'i%d' % v
    if isinstance(v, float):
        return 'f' + tok_float(v)
    if isinstance(v, str):
        return tok_str(v)
    if isinstance(v, list):
        return ' '.join(['L%d' % len(v)] + [tok(x, sort_sets) for x in v])
    if isinstance(v, (set, frozenset)):
        items = [tok(x, sort_sets) for x in v]
        if sort_sets:
            items.sort()
        return ' '.join(['S%d' % len(items)] + items)
    if isinstance(v, np.ndarray):
        return 'A%s:%s %s' % (v.dtype, 'x'.join(str(n) for n in v.shape), tok(v.tolist(), sort_sets))
    if isinstance(v, dict):
        items = []
        for k, x in v.items():
            if not isinstance(k, str):
                raise NotSendable('non-str key')
            items.append(tok_str(k) + ' ' + tok(x, sort_sets))
        if sort_sets:      # canonical form: the key order of a dict is not part of what is compared
            items.sort()
        return ' '.join(['D%d' % len(v)] + items)
    raise NotSendable(type(v).__name__)


def check_sendable(v):
    if isinstance(v, np.floating) and v.dtype.itemsize > 8:
        raise NotSendable('longdouble is outside the model (its conversion to binary64 rounds)')
    if isinstance(v, (list, set, frozenset)):
        for x in v:
            check_sendable(x)
    elif isinstance(v, dict):
        for x in v.values():
            check_sendable(x)
    elif isinstance(v, np.ndarray) and v.dtype.kind == 'f' and v.dtype.itemsize > 8:
        raise NotSendable('longdouble array')


def exc_name(e):
    return 'error:' + type(e).__name__


# ------------------------------------------------- state of the real objects
def params_chain(p):
    """[object, its _original_sim_params, ...]"""
    out = []
    while p is not None:
        out.append(p)
        p = p._original_sim_params
    return out


def params_in(p):
    """model input: L m (L3 D.. L.. i..)"""
    chain = params_chain(p)
    parts = ['L%d' % len(chain)]
    for n in chain:
        names = list(n._unpacked_parameters_set)
        parts.append('L3 %s %s %s' % (tok(dict(n.parameters), strict=True), tok(names), tok(int(n._unpack_index))))
    return ' '.join(parts)


def params_state(p):
    """canonical state of a (loaded) object, laid out like `paramsToDict`"""
    if p is None:
        return 'N'
    if not isinstance(p._unpacked_parameters_set, set):
        raise NotSendable('unpacked set is a %s' % type(p._unpacked_parameters_set).__name__)
    return canon_dict([('parameters', tok(dict(p.parameters), True)),
                       ('unpacked_parameters_set', tok(p._unpacked_parameters_set, True)),
                       ('unpack_index', tok(p._unpack_index, True)),
                       ('original_sim_params', params_state(p._original_sim_params))])


def canon_dict(pairs):
    return ' '.join(['D%d' % len(pairs)] + sorted(tok_str(k) + ' ' + t for k, t in pairs))


RESULT_FIELDS = [('name', 'name'), ('update_type_code', '_update_type_code'), ('value', '_value'),
                 ('total', '_total'), ('result_sum', '_result_sum'), ('result_squared_sum', '_result_squared_sum'),
                 ('num_updates', 'num_updates'), ('accumulate_values_bool', '_accumulate_values_bool'),
                 ('value_list', '_value_list'), ('total_list', '_total_list')]


def result_in(r):
    return ' '.join(['L10'] + [tok(getattr(r, a), strict=True) for _, a in RESULT_FIELDS])


def result_state(r):
    return canon_dict([(k, tok(getattr(r, a), True)) for k, a in RESULT_FIELDS])


def sim_in(s):
    parts = ['L5', 'D%d' % len(s._results)]
    for n, rs in s._results.items():
        parts += [tok_str(n), 'L%d' % len(rs)] + [result_in(r) for r in rs]
    parts += [params_in(s._params), tok(s.runned_reps, strict=True), tok(s.original_filename), tok(s.current_rep, strict=True)]
    return ' '.join(parts)


def sim_state(s, fname=True):
    results = canon_dict([(n, ' '.join(['L%d' % len(rs)] + [result_state(r) for r in rs])) for n, rs in s._results.items()])
    return canon_dict([('params', params_state(s._params)), ('runned_reps', tok(s.runned_reps, True)),
                       ('original_filename', tok(s.original_filename, True) if fname else 'N'),
                       ('current_rep', tok(s.current_rep, True)), ('results', results)])


# ------------------------------------------------------- first-principles eq
def kind_of(x):
    if x is None:
        return 'none'
    if isinstance(x, (bool, np.bool_)):
        return 'bool'
    if isinstance(x, (int, np.integer)):
        return 'int'
    if isinstance(x, (float, np.floating)):
        return 'float'
    if isinstance(x, str):
        return 'str'
    if isinstance(x, list):
        return 'list'
    if isinstance(x, (set, frozenset)):
        return 'set'
    if isinstance(x, np.ndarray):
        return 'array'
    if isinstance(x, dict):
        return 'dict'
    return type(x).__name__


def scalar_key(x):
    k = kind_of(x)
    if k == 'bool':
        return ('bool', bool(x))
    if k == 'int':
        return ('int', int(x))
    if k == 'float':
        if isinstance(x, np.floating) and x.dtype.itemsize > 8 and not (float(x) == x or x != x):
            return ('float', 'ld', str(x))
        return ('float', tok_float(x))
    return (k, x)


def deep_same(a, b, path='$'):
    """None if `b` holds exactly what `a` holds (same tree, same kinds, same
    numeric values, same dtype kind and shape; widths are not compared), else a
    description of the first difference"""
    ka, kb = kind_of(a), kind_of(b)
    if ka != kb:
        return '%s: %s became %s' % (path, ka, kb)
    if ka in ('none',):
        return None
    if ka in ('bool', 'int', 'float', 'str'):
        if scalar_key(a) != scalar_key(b):
            return '%s: %r became %r' % (path, a, b)
        return None
    if ka == 'list':
        if len(a) != len(b):
            return '%s: list length %d became %d' % (path, len(a), len(b))
        for i, (x, y) in enumerate(zip(a, b)):
            d = deep_same(x, y, '%s[%d]' % (path, i))
            if d:
                return d
        return None
    if ka == 'set':
        sa = sorted(map(repr, map(scalar_key, a)))
        sb = sorted(map(repr, map(scalar_key, b)))
        if sa != sb:
            return '%s: set %r became %r' % (path, a, b)
        return None
    if ka == 'array':
        if a.shape != b.shape:
            return '%s: shape %s became %s' % (path, a.shape, b.shape)
        if a.dtype.kind != b.dtype.kind:
            return '%s: dtype %s became %s' % (path, a.dtype, b.dtype)
        return deep_same(a.tolist(), b.tolist(), path + '.tolist()')
    if ka == 'dict':
        if set(a.keys()) != set(b.keys()):
            return '%s: keys %r became %r' % (path, list(a), list(b))
        for k in a:
            d = deep_same(a[k], b[k], '%s[%r]' % (path, k))
            if d:
                return d
        return None
    return '%s: unsupported %s' % (path, ka)


def params_same(p, q, path='params'):
    if (p is None) != (q is None):
        return '%s: None-ness changed' % path
    if p is None:
        return None
    return (deep_same(dict(p.parameters), dict(q.parameters), path + '.parameters')
            or deep_same(p._unpacked_parameters_set, q._unpacked_parameters_set, path + '._unpacked_parameters_set')
            or deep_same(p._unpack_index, q._unpack_index, path + '._unpack_index')
            or params_same(p._original_sim_params, q._original_sim_params, path + '._original_sim_params'))


def result_same(r, q, path='result'):
    for _, a in RESULT_FIELDS:
        d = deep_same(getattr(r, a), getattr(q, a), '%s.%s' % (path, a))
        if d:
            return d
    return None


def sim_same(s, q, ignore_filename=False):
    d = params_same(s._params, q._params, 'sim._params')
    if d:
        return d
    for a in ('runned_reps', 'current_rep') + (() if ignore_filename else ('original_filename',)):
        d = deep_same(getattr(s, a), getattr(q, a), 'sim.' + a)
        if d:
            return d
    if set(s._results) != set(q._results):
        return 'sim._results: names %r became %r' % (list(s._results), list(q._results))
    for n in s._results:
        if len(s._results[n]) != len(q._results[n]):
            return 'sim._results[%r]: %d results became %d' % (n, len(s._results[n]), len(q._results[n]))
        for i, (x, y) in enumerate(zip(s._results[n], q._results[n])):
            d = result_same(x, y, 'sim._results[%r][%d]' % (n, i))
            if d:
                return d
    return None


# ------------------------------------------------------------ constructors
def build_params(ps, skip_post_ops=False):
    """ps = {'params': [[name, vspec]..], 'unpack': [names], 'child': None | index,
             'grandchild': optional [name, index]}"""
    P = _impl()[0]
    if ps.get('via_add'):
        p = P()
        for n, v in ps['params']:
            p.add(n, build(v))
    else:
        p = P.create({n: build(v) for n, v in ps['params']})
    for i, n in enumerate(ps.get('unpack', [])):
        form = (ps.get('mark_form', 0) + i) % 3          # R8: default / positional / keyword
        if form == 0:
            p.set_unpack_parameter(n)
        elif form == 1:
            p.set_unpack_parameter(n, True)
        else:
            p.set_unpack_parameter(name=n, unpack_bool=True)
    if ps.get('derive') == 'deepcopy':                   # R13: a copy is used instead of the object
        p = copy.deepcopy(p)
    elif ps.get('derive') == 'pickle':
        p = pickle.loads(pickle.dumps(p, protocol=2))
    if ps.get('child') is not None:
        lst = p.get_unpacked_params_list()
        p = lst[ps['child'] % len(lst)]
        if ps.get('grandchild'):
            n, j = ps['grandchild']
            p.set_unpack_parameter(n)
            lst = p.get_unpacked_params_list()
            p = lst[j % len(lst)]
    if not skip_post_ops:
        for op in ps.get('post_ops', []):
            apply_post_op(p, op)
    if ps.get('derive_child') == 'deepcopy':             # R13: a copy of the (changed) child, with its chain
        p = copy.deepcopy(p)
    elif ps.get('derive_child') == 'pickle':
        p = pickle.loads(pickle.dumps(p, protocol=2))
    return p


def apply_post_op(p, op):
    """one mutator call after unpacking: op = [level, kind, name, vspec|None];
    level 0 is the object itself, 1 its _original_sim_params, ..."""
    level, kind, name = op[0], op[1], op[2]
    target = params_chain(p)[level]
    if kind == 'set':
        target[name] = build(op[3])
    elif kind == 'add':
        target.add(name, build(op[3]))
    elif kind == 'remove':
        target.remove(name)
    elif kind == 'mark':
        target.set_unpack_parameter(name)
    elif kind == 'unmark':
        target.set_unpack_parameter(name, False)
    else:
        raise ValueError(kind)


def post_ops_tokens(ops):
    items = []
    for op in ops:
        kind = 'set' if op[1] == 'add' else op[1]
        if kind == 'set':
            items.append('L4 i%d %s %s %s' % (op[0], tok_str(kind), tok_str(op[2]), tok(build(op[3]), strict=True)))
        else:
            items.append('L3 i%d %s %s' % (op[0], tok_str(kind), tok_str(op[2])))
    return ' '.join(['L%d' % len(items)] + items)


def child_differs_from_parent(p):
    """the object is an unpacked variation whose value of some parameter that is
    fixed in its original differs from the original's value (or exists on one side only)"""
    o = p._original_sim_params
    if o is None:
        return False
    for n in set(p.parameters) | set(o.parameters):
        if n in o._unpacked_parameters_set:
            continue
        if (n in p.parameters) != (n in o.parameters):
            return True
        if deep_same(p.parameters[n], o.parameters[n]) is not None:
            return True
    return False


RESULT_FORMS = ['ctor-kw', 'ctor-pos', 'ctor-allkw', 'create', 'create-kw']


def build_result(rs, form=None):
    """rs = {'name', 'type', 'acc', 'choice_num', 'history': [[vspec, tspec|None]..], 'form': R8 argument form}
    All forms are documented as equivalent: constructor arguments positionally / by
    keyword, `Result.create` (= constructor + first update), `update` arguments by keyword."""
    R = _impl()[1]
    form = form or rs.get('form') or 'ctor-kw'
    hist = list(rs['history'])
    kw = form.endswith('kw')
    if form.startswith('create') and hist:
        v, t = hist.pop(0)
        if rs['type'] == 3:
            r = (R.create(name=rs['name'], update_type=3, value=build(v), total=rs['choice_num'],
                          accumulate_values=rs['acc']) if kw else
                 R.create(rs['name'], 3, build(v), rs['choice_num'], rs['acc']))
        elif t is None:
            r = (R.create(name=rs['name'], update_type=rs['type'], value=build(v), accumulate_values=rs['acc']) if kw
                 else R.create(rs['name'], rs['type'], build(v), 0, rs['acc']))
        else:
            r = (R.create(name=rs['name'], update_type=rs['type'], value=build(v), total=build(t),
                          accumulate_values=rs['acc']) if kw else
                 R.create(rs['name'], rs['type'], build(v), build(t), rs['acc']))
    elif form == 'ctor-pos':
        r = R(rs['name'], rs['type'], rs['acc'], rs['choice_num']) if rs['type'] == 3 else (
            R(rs['name'], rs['type'], rs['acc']) if rs['acc'] else R(rs['name'], rs['type']))
    elif form == 'ctor-allkw':
        r = R(name=rs['name'], update_type_code=rs['type'], accumulate_values=rs['acc'], choice_num=rs['choice_num'])
    elif rs['type'] == 3:
        r = R(rs['name'], 3, accumulate_values=rs['acc'], choice_num=rs['choice_num'])
    else:
        r = R(rs['name'], rs['type'], accumulate_values=rs['acc'])
    for v, t in hist:
        if t is None:
            if kw:
                r.update(value=build(v))
            else:
                r.update(build(v))
        elif kw:
            r.update(value=build(v), total=build(t))
        else:
            r.update(build(v), build(t))
    return r


def build_sim(ss):
    """ss = {'params': pspec, 'results': [[rspec, ...] per name], 'runned_reps': vspec, 'current_rep': int,
             'current_rep_dtype': optional numpy integer type of current_rep (R9), 'derive': optional R13 derivation,
             'add_new': use add_new_result for single-update non-accumulating results (R8)}"""
    SR = _impl()[2]
    s = SR()
    s.set_parameters(build_params(ss['params']))
    for group in ss['results']:
        for i, rs in enumerate(group):
            if (ss.get('add_new') and i == 0 and not rs['acc'] and len(rs['history']) == 1
                    and rs.get('form', 'ctor-kw').startswith('c')):
                v, t = rs['history'][0]
                if rs['type'] == 3:
                    s.add_new_result(rs['name'], 3, build(v), rs['choice_num'])
                elif t is None:
                    s.add_new_result(rs['name'], rs['type'], build(v))
                else:
                    s.add_new_result(name=rs['name'], update_type=rs['type'], value=build(v), total=build(t))
            else:
                s.append_result(build_result(rs))
    s.runned_reps = build(ss['runned_reps'])
    s.current_rep = ss['current_rep']
    if ss.get('current_rep_dtype'):
        s.current_rep = np.dtype(ss['current_rep_dtype']).type(ss['current_rep'])
    if ss.get('prev_filename') is not None:
        s.original_filename = ss['prev_filename']      # the object was saved before, under another template
    if ss.get('derive') == 'deepcopy':                 # R13: objects derived from other objects
        s = copy.deepcopy(s)
    elif ss.get('derive') == 'pickle':
        s = pickle.loads(pickle.dumps(s, protocol=2))
    elif ss.get('derive') == 'json':
        s = SR.from_json(s.to_json())
    return s


def result_features(rs):
    f = set()
    if not rs['history']:
        f.add('never-updated')
    if rs['acc']:
        f.add('accumulate')
    if rs['type'] == 3 and any(v[0] in ('bool', 'npbool') for v, _ in rs['history']):
        f.add('bool-index')
    if rs['type'] == 3 and rs['acc']:
        idx = [int(np.asarray(build(v))) % max(1, rs['choice_num']) for v, _ in rs['history']]
        if idx != sorted(idx):
            f.add('unsorted-history')
    for v, t in rs['history']:
        f |= {x for x in spec_features(v) if x.startswith('np') and not x.endswith(('int64', 'int32', 'float64'))}
        if t is not None:
            f |= {x for x in spec_features(t) if x.startswith('np') and not x.endswith(('int64', 'int32', 'float64'))}
    return f


# ------------------------------------------------------------------ oracles
def text_tree(text):
    """canonical token form of a JSON text; the element order of an encoded
    set (iteration order of a Python set) is not part of what is compared"""
    def canon(t):
        if isinstance(t, list):
            return [canon(x) for x in t]
        if isinstance(t, dict):
            d = {k: canon(x) for k, x in t.items()}
            if d.get('_is_set') is True and isinstance(d.get('data'), list):
                d['data'] = sorted(d['data'], key=lambda x: tok(x))
            return d
        return t
    return tok(canon(json.loads(text)), True)


def strip_ps(ps):
    return dict(ps, params=[[n, strip_layout(v)] for n, v in ps['params']])


def strip_rs(rs):
    return dict(rs, history=[[strip_layout(v), (None if t is None else strip_layout(t))] for v, t in rs['history']])


def strip_ss(ss):
    return dict(ss, params=strip_ps(ss['params']), results=[[strip_rs(r) for r in g] for g in ss['results']])


def has_layout(spec):
    if spec[0] in ('list', 'set'):
        return any(has_layout(x) for x in spec[1])
    return spec[0] == 'array' and len(spec) > 4 and spec[4] != 'C'


def variants_ps(ps):
    """the parameter set with its >= 2-d arrays in each memory layout (kept as given: add(), no copy)"""
    out = []
    for i, lay in enumerate(LAYOUTS[1:]):
        changed = False
        params = []
        for n, v in ps['params']:
            vs = layout_variants(v)
            if vs:
                changed = True
                params.append([n, vs[i]])
            else:
                params.append([n, v])
        if changed:
            # (the calls made after unpacking were chosen for the object as built from `ps`: with add() instead of
            #  create() a set can iterate in another order and another child is selected, so they are left out here)
            out.append(dict(ps, params=params, via_add=True, post_ops=[]))
    return out


def _shrink_value(spec, fails):
    """smallest failing sub-spec (children first)"""
    if spec[0] in ('list', 'set'):
        for s in spec[1]:
            if fails(s):
                return _shrink_value(s, fails)
    return spec


def _value_failure(spec):
    """None or description, for one value through the JSON layer"""
    S = _impl()[3]
    v = build(spec)
    try:
        text = json.dumps(v, cls=S.NumpyOrSetEncoder)
        w = json.loads(text, object_hook=S.json_numpy_or_set_obj_hook)
    except Exception as e:
        return '%s: %s' % (type(e).__name__, str(e)[:150])
    d = deep_same(v, w)
    if d:
        return d
    try:
        text2 = json.dumps(w, cls=S.NumpyOrSetEncoder)
        w2 = json.loads(text2, object_hook=S.json_numpy_or_set_obj_hook)
    except Exception as e:
        return 'second round: %s: %s' % (type(e).__name__, str(e)[:150])
    if tok(w, True) != tok(w2, True):
        return 'second save/load changed the value: %r -> %r' % (w, w2)
    if text_tree(text) != text_tree(text2):
        return 'second to_json text differs: %s -> %s' % (text[:100], text2[:100])
    if has_layout(spec):
        # same values in the default (C-contiguous) layout: same JSON, same loaded object
        t = build(strip_layout(spec))
        text_t = json.dumps(t, cls=S.NumpyOrSetEncoder)
        if text_tree(text_t) != text_tree(text):
            return 'JSON differs from the JSON of the C-contiguous array with the same values'
        if tok(json.loads(text_t, object_hook=S.json_numpy_or_set_obj_hook), True) != tok(w, True):
            return 'loaded value differs from the loaded C-contiguous twin'
    # R1: the same values as plain Python scalars give the same JSON and the same loaded object
    pt = plain_deep(v)
    text_p = json.dumps(pt, cls=S.NumpyOrSetEncoder)
    if text_tree(text_p) != text_tree(text):
        return 'JSON differs from the JSON of the same values given as Python scalars'
    if tok(json.loads(text_p, object_hook=S.json_numpy_or_set_obj_hook), True) != tok(w, True):
        return 'loaded value differs from the loaded Python-scalar twin'
    u = pickle.loads(pickle.dumps(v, protocol=2))
    if tok(u, True) != tok(v, True):
        return 'pickle changed the value: %r -> %r' % (v, u)
    return None


def value_class(spec):
    small = _shrink_value(spec, lambda s: _value_failure(s) is not None)
    f = sorted(spec_features(small))
    return 'value:' + (small[0] if not f else '+'.join(f))


def o_value(case):
    d = _value_failure(case['v'])
    if d is None:
        return None
    return value_class(case['v']), d


def _longdouble_is_wider():
    return np.finfo(np.longdouble).nmant > 52


def o_longdouble(case):
    """np.longdouble scalar that is not a binary64"""
    S = _impl()[3]
    v = build(case['v'])
    text = json.dumps([v], cls=S.NumpyOrSetEncoder)
    w = json.loads(text, object_hook=S.json_numpy_or_set_obj_hook)[0]
    if np.longdouble(w) != v:
        return 'value:npfloat:longdouble-beyond-binary64', '%r became %r' % (v, w)
    return None


def eq_usable(obj):
    """the classes' `==` is only an oracle where it works at all: comparing the
    object with an identical deep copy must give True (it raises, e.g., for a
    list that contains arrays or compares NaN unequal)"""
    try:
        return (obj == copy.deepcopy(obj)) is True
    except Exception:
        return False


def _params_failure(ps):
    P = _impl()[0]
    p = build_params(ps)
    try:
        q = P.from_json(p.to_json())
    except Exception as e:
        return 'json: %s: %s' % (type(e).__name__, str(e)[:150])
    if eq_usable(p):
        try:
            eq = (p == q)
            ne = (p != q)
        except Exception as e:
            return '== raised %s: %s' % (type(e).__name__, str(e)[:150])
        if eq is not True or ne is not False:
            return 'loaded object != original (== gave %r)' % (eq,)
    d = params_same(p, q)
    if d:
        return d
    q2 = P.from_json(q.to_json())
    if params_state(q2) != params_state(q):
        return 'second save/load changed the object'
    if text_tree(p.to_json()) != text_tree(q.to_json()):
        return 'to_json() of the loaded object differs from the original text'
    q3 = P._from_dict(p._to_dict())
    d = params_same(p, q3, 'from_dict')
    if d:
        return d
    q4 = pickle.loads(pickle.dumps(p, protocol=2))
    if params_state(q4) != params_state(p) or (eq_usable(p) and not (q4 == p)):
        return 'pickle round trip changed the object'
    # pickle and JSON agree, and a second save derives the same file name
    d = params_same(q4, q, 'pickle-vs-json')
    if d:
        return d
    SR = _impl()[2]
    fields = [n for n, v in p.parameters.items() if kind_of(v) in ('int', 'float', 'str', 'bool', 'none') and n.isidentifier()]
    tpl = 'res' + ''.join('_{%s}' % n for n in fields) + '.json'
    names = []
    for obj in (p, q, q4):
        w = SR()
        w.set_parameters(obj)
        names.append(w.get_filename_with_replaced_params(tpl))
    if len(set(names)) != 1:
        return 'file name derived from the loaded parameters differs: %r' % (names,)
    if any(has_layout(v) for _, v in ps['params']):
        t = build_params(strip_ps(ps))
        if params_state(t) != params_state(p):
            return 'harness: twin differs'          # cannot happen: same logical values
        qt = P.from_json(t.to_json())
        if params_state(qt) != params_state(q):
            return 'loaded object differs from the loaded twin whose arrays are C-contiguous'
        if text_tree(t.to_json()) != text_tree(p.to_json()):
            return 'to_json() differs from the twin whose arrays are C-contiguous'
    return None


def _params_features(ps):
    f = set()
    for _, v in ps['params']:
        f |= spec_features(v)
    return f


def params_class(ps):
    """classify by the smallest failing parameter"""
    for n, v in ps['params']:
        if n in RESERVED:
            return 'params:reserved-key'
    if ps.get('post_ops'):
        try:
            ok_without = _params_failure(dict(ps, post_ops=[])) is None
        except Exception:
            ok_without = False
        if ok_without:
            lv = sorted({('child' if op[0] == 0 else 'original') for op in ps['post_ops']})
            return 'params:changed-after-unpacking:' + '+'.join(lv)
    base = dict(ps)
    for n, v in ps['params']:
        one = {'params': [[n, v]], 'unpack': [n] if n in ps.get('unpack', []) else [], 'child': ps.get('child'),
               'via_add': ps.get('via_add')}
        try:
            bad = _params_failure(one) is not None
        except Exception:
            bad = True
        if bad:
            vc = _value_failure(v)
            if vc is not None:
                return 'params:' + value_class(v)
            f = sorted(spec_features(v))
            return 'params:%s%s' % ('child:' if ps.get('child') is not None else '', '+'.join(f) if f else v[0])
    return 'params:%s' % ('child' if base.get('child') is not None else 'combination')


def o_params(case):
    d = _params_failure(case)
    if d is None:
        return None
    return params_class(case), d


def _result_failure(rs):
    R = _impl()[1]
    r = build_result(rs)
    try:
        q = R.from_json(r.to_json())
    except Exception as e:
        return 'json: %s: %s' % (type(e).__name__, str(e)[:150])
    if eq_usable(r):
        try:
            eq = (r == q)
        except Exception as e:
            return '== raised %s: %s' % (type(e).__name__, str(e)[:150])
        if eq is not True or (r != q) is not False:
            return 'loaded result != original'
    d = result_same(r, q)
    if d:
        return d
    if r.num_updates > 0 and rs['type'] != 2 and not any('npfloat' in f for f in result_features(rs)):
        a = (r.get_result_mean(), r.get_result_var())
        b = (q.get_result_mean(), q.get_result_var())
        if [scalar_key(x) for x in a] != [scalar_key(x) for x in b]:
            return 'statistics changed: %r -> %r' % (a, b)
    q2 = R.from_json(q.to_json())
    if result_state(q2) != result_state(q):
        return 'second save/load changed the result'
    if text_tree(r.to_json()) != text_tree(q.to_json()):
        return 'to_json() of the loaded result differs from the original text'
    q3 = R.from_dict(r.to_dict())
    d = result_same(r, q3, 'from_dict')
    if d:
        return d
    q4 = pickle.loads(pickle.dumps(r, protocol=2))
    if result_state(q4) != result_state(r) or (eq_usable(r) and not (q4 == r)):
        return 'pickle round trip changed the result'
    if any(has_layout(v) for v, _ in rs['history']):
        qt = R.from_json(build_result(strip_rs(rs)).to_json())
        if result_state(qt) != result_state(q):
            return 'loaded result differs from the loaded twin whose arrays are C-contiguous'
    return None


def result_class(rs):
    """classify by the smallest failing history: a single update if one alone fails"""
    def fails(h):
        try:
            return _result_failure(dict(rs, history=h)) is not None
        except Exception:
            return True
    small = rs
    if rs['history'] and not fails([]):
        for u in rs['history']:
            if fails([u]):
                small = dict(rs, history=[u])
                break
    elif rs['history']:
        small = dict(rs, history=[])
    f = sorted(result_features(small))
    return 'result:%s%s' % (TYPE_NAMES[rs['type']], (':' + '+'.join(f)) if f else '')


def o_result(case):
    try:
        build_result(case)
    except Exception as e:    # the history itself cannot be applied
        if case['type'] != 3:
            return None       # numpy arithmetic of update() on narrow integers: not a serialisation matter
        return result_class(case) + ':update-raises', '%s: %s' % (type(e).__name__, str(e)[:150])
    d = _result_failure(case)
    if d is None:
        return None
    return result_class(case), d


def _tmpdir():
    """folder for the files written by save_to_file; a memory file system when
    there is one (the atomic writer fsyncs every file)"""
    import tempfile
    d = os.environ.get('VERIF_SCRATCH') or tempfile.gettempdir()
    if os.path.isdir('/dev/shm') and os.access('/dev/shm', os.W_OK):
        d = '/dev/shm'
    d = os.path.join(d, 'c17_files_%d' % os.getpid())
    if not os.path.isdir(d):
        os.makedirs(d, exist_ok=True)
        import atexit
        import shutil
        atexit.register(shutil.rmtree, d, True)
    return d


def _sim_failure(ss):
    SR = _impl()[2]
    s = build_sim(ss)
    try:
        q = SR.from_json(s.to_json())
    except Exception as e:
        return 'json: %s: %s' % (type(e).__name__, str(e)[:150])
    usable = eq_usable(s)
    if usable:
        try:
            eq = (s == q)
        except Exception as e:
            return '== raised %s: %s' % (type(e).__name__, str(e)[:150])
        if eq is not True or (s != q) is not False:
            return 'loaded SimulationResults != original'
    d = sim_same(s, q)
    if d:
        return d
    q2 = SR.from_json(q.to_json())
    if sim_state(q2) != sim_state(q):
        return 'second save/load changed the object'
    if text_tree(s.to_json()) != text_tree(q.to_json()):
        return 'to_json() of the loaded object differs from the original text'
    layouts = any(has_layout(v) for _, v in ss['params']['params']) or \
        any(has_layout(v) for g in ss['results'] for r in g for v, _ in r['history'])
    if layouts:
        qt = SR.from_json(build_sim(strip_ss(ss)).to_json())
        if sim_state(qt) != sim_state(q):
            return 'loaded object differs from the loaded twin whose arrays are C-contiguous'
    # files
    tpl = ss.get('template')
    if tpl is not None:
        for ext in ('.json', '.pickle', ''):
            s = build_sim(ss)
            name = os.path.join(_tmpdir(), tpl + ext)
            try:
                with time_limit(3.0):
                    actual = s.save_to_file(name)
                    q = SR.load_from_file(actual)
            except Exception as e:
                return 'file%s: %s: %s' % (ext or '(none)', type(e).__name__, str(e)[:150])
            finally:
                pass
            try:
                os.remove(actual)
            except OSError:
                pass
            if q.get_filename_with_replaced_params(q.original_filename) != actual:
                return 'file%s: a second save of the loaded object would go to %r, not %r' % (
                    ext, q.get_filename_with_replaced_params(q.original_filename), actual)
            if s.original_filename != name + ('.pickle' if ext == '' else ''):
                return 'original_filename is %r' % (s.original_filename,)
            if usable and not (s == q):
                return 'file%s: loaded object != original' % ext
            d = sim_same(s, q)
            if d:
                return 'file%s: %s' % (ext, d)
            if layouts:
                t = build_sim(strip_ss(ss))
                actual_t = t.save_to_file(name)
                qt = SR.load_from_file(actual_t)
                try:
                    os.remove(actual_t)
                except OSError:
                    pass
                if sim_state(qt) != sim_state(q):
                    return 'file%s: loaded object differs from the loaded twin whose arrays are C-contiguous' % ext
            if os.path.splitext(actual)[-1] != (ext or '.pickle'):
                return 'file%s: saved as %r' % (ext, actual)
    return None


def sim_class(ss):
    if ss['current_rep'] != -1:
        only = dict(ss, current_rep=-1, current_rep_dtype=None)
        try:
            if _sim_failure(only) is None:
                return 'sim:current_rep'
        except Exception:
            pass
    pf = None
    try:
        pf = _params_failure(ss['params'])
    except Exception:
        pf = 'raises'
    if pf is not None:
        return 'sim:' + params_class(ss['params'])
    for group in ss['results']:
        for rs in group:
            try:
                build_result(rs)
            except Exception:
                return 'sim:' + result_class(rs) + ':update-raises'
            try:
                bad = _result_failure(rs) is not None
            except Exception:
                bad = True
            if bad:
                return 'sim:' + result_class(rs)
    if ss.get('template') is not None:
        no_file = dict(ss, template=None)
        try:
            if _sim_failure(no_file) is None:
                d = _sim_failure(ss) or ''
                ext = d[4:d.index(':')] if d.startswith('file') and ':' in d else '?'
                return 'sim:file:' + (ext or 'no-extension')
        except Exception:
            pass
    return 'sim:combination'


def unbuildable(ss):
    """None if the object can be built; 'skip' if only numpy arithmetic of a
    non-CHOICE update() raised; else the exception text"""
    try:
        build_sim(ss)
        return None
    except Exception as e:
        for group in ss['results']:
            for rs in group:
                try:
                    build_result(rs)
                except Exception:
                    if rs['type'] != 3:
                        return 'skip'
        return '%s: %s' % (type(e).__name__, str(e)[:150])


def o_sim(case):
    u = unbuildable(case)
    if u == 'skip':
        return None
    if u is not None:
        return sim_class(case), 'building the object: ' + u
    try:
        d = _sim_failure(case)
    except Exception as e:
        return sim_class(case), '%s: %s' % (type(e).__name__, str(e)[:150])
    if d is None:
        return None
    return sim_class(case), d


def o_filename(case):
    """case = {'template': str, 'params': [[name, vspec]..], 'field': name, 'other': vspec}
    determinism + different scalar values of one field give different names"""
    SR = _impl()[2]
    P = _impl()[0]

    def name_of(params):
        s = SR()
        s.set_parameters(P.create({n: build(v) for n, v in params}))
        return s.get_filename_with_replaced_params(case['template'])
    try:
        with time_limit(3.0):
            a1, a2 = name_of(case['params']), name_of(case['params'])
    except Exception as e:
        f = set()
        for _, v in case['params']:
            f |= spec_features(v)
        return 'filename:raises:' + '+'.join(sorted(f)), '%s: %s' % (type(e).__name__, str(e)[:150])
    fld = case.get('field')
    vspec = dict((n, v) for n, v in case['params']).get(fld) if fld else None
    if a1 != a2:
        return 'filename:not-deterministic:' + (vspec[0] if vspec else 'plain'), '%r vs %r' % (a1, a2)
    # the same values after a JSON round trip / a rebuilt equal set give the same name
    p = P.create({n: build(v) for n, v in case['params']})
    try:
        q = P.from_json(p.to_json())
    except Exception:
        q = None      # reported by the round-trip oracles
    s = SR()
    s.set_parameters(q if q is not None else p)
    a3 = s.get_filename_with_replaced_params(case['template'])
    if a3 != a1 and params_same(p, q) is None:
        f = sorted(spec_features(vspec)) if vspec else []
        return 'filename:changes-after-reload:' + ('+'.join(f) if f else (vspec[0] if vspec else 'plain')), '%r vs %r' % (a1, a3)
    if fld and case.get('other') is not None:
        other = [[n, (case['other'] if n == fld else v)] for n, v in case['params']]
        b = name_of(other)
        va, vb = build(vspec), build(case['other'])
        if kind_of(va) == kind_of(vb) and scalar_key(va) != scalar_key(vb) and a1 == b \
                and ('{%s}' % fld) in case['template']:
            return 'filename:not-injective:' + kind_of(va), '%r and %r both give %r' % (va, vb, a1)
    return None


def o_filename_set(case):
    """equal sets built in different insertion orders must give the same name"""
    SR, P = _impl()[2], _impl()[0]
    items = [build(s) for s in case['items']]
    names = []
    for order in (items, list(reversed(items))):
        s = SR()
        st = set()
        for x in order:
            st.add(x)
        s.set_parameters(P.create({'p': st}))
        names.append(s.get_filename_with_replaced_params('res_{p}.json'))
    if names[0] != names[1]:
        return 'filename:set-valued-field', '%r vs %r for equal sets' % (names[0], names[1])
    return None


def o_reserved(case):
    """a parameter literally named like a key the decoder hook reserves"""
    P = _impl()[0]
    p = P.create({case['name']: build(case['v']), 'x': 1})
    try:
        q = P.from_json(p.to_json())
        bad = params_same(p, q)
    except Exception as e:
        bad = '%s: %s' % (type(e).__name__, str(e)[:100])
    if bad:
        return 'params:reserved-key', bad
    return None



# ------------------------------------------------ robustness (R3 / R4 / R7)
def mutate_sim(q):
    """change everything that can be changed in place in a SimulationResults
    object (used to detect sharing between a saved and a loaded object)"""
    def mut(v):
        if isinstance(v, list):
            for x in v:
                mut(x)
            v.append('mutated')
        elif isinstance(v, set):
            v.add('mutated')
        elif isinstance(v, np.ndarray) and v.flags.writeable and v.size > 0:
            if v.dtype.kind == 'b':
                np.logical_not(v, out=v)
            else:
                v += 1
    chain = params_chain(q._params)
    for p in chain:
        for v in list(p.parameters.values()):
            mut(v)
        p.parameters['mutated'] = 1
        p._unpacked_parameters_set.add('mutated')
    for rs in q._results.values():
        for r in rs:
            mut(r._value)
            mut(r._value_list)
            mut(r._total_list)
            r.num_updates += 1
        rs.append(rs[0])
    q._results['mutated'] = []
    mut(q.runned_reps)
    q.current_rep += 1


def _files_with_prefix(prefix):
    d = os.path.dirname(prefix)
    return sorted(f for f in os.listdir(d) if f.startswith(os.path.basename(prefix)))


def _cleanup(prefix):
    d = os.path.dirname(prefix)
    for f in _files_with_prefix(prefix):
        try:
            os.remove(os.path.join(d, f))
        except OSError:
            pass


def o_robust(case):
    """R3 input immutability / no aliasing, R4 rejected calls, R7 long-lived and
    shared objects, on one SimulationResults spec (`template` required).
    The class names the scenario and the format that failed."""
    P, R, SR = _impl()[0], _impl()[1], _impl()[2]
    ss = dict(case)
    u = unbuildable(ss)
    if u is not None:
        return None
    import zlib
    # file names start with a field-free prefix so that everything written can be found and removed
    base = os.path.join(_tmpdir(), 'rb%08x' % zlib.crc32(json.dumps(case, sort_keys=True).encode()))
    try:
        return _robust(ss, base, P, R, SR)
    finally:
        _cleanup(base)


def _robust(ss, base, P, R, SR):
    # ---------------- R3: encoding / saving does not modify the object
    s = build_sim(ss)
    before = sim_state(s)
    for what, fn in (('to_json', lambda: s.to_json()), ('to_dict', lambda: s.to_dict()),
                     ('pickle.dumps', lambda: pickle.dumps(s, protocol=2)),
                     ('params.to_json', lambda: s._params.to_json()),
                     ('get_filename', lambda: s.get_filename_with_replaced_params(base))):
        fn()
        if sim_state(s) != before:
            return 'R3:%s-modifies-object' % what, 'state changed by %s()' % what
    # ---------------- R11: queries, comparisons, representations and copies do not modify the object
    def q_results():
        for n in s.get_result_names():
            s.get_result_values_list(n)
            for r in s[n]:
                r.get_result(), repr(r), r.type_name, r.type_code, r.accumulate_values_bool
                if r.num_updates > 0 and r.type_code != 2:
                    r.get_result_mean(), r.get_result_var()
                    try:
                        r.get_confidence_interval()
                    except Exception:
                        pass

    def q_params():
        pr = s.params
        pr.get_num_unpacked_variations(), pr.fixed_parameters, pr.unpacked_parameters, pr.unpack_index
        len(pr), repr(pr), list(iter(pr))
        try:
            lst = pr.get_unpacked_params_list()
            lst[0].get_num_unpacked_variations()
        except Exception:
            pass
    for what, fn in (('result-queries', q_results), ('params-queries', q_params),
                     ('eq', lambda: (s == s, s != build_sim(ss), s == 3, s.params == s.params, s.params != 3)),
                     ('repr-len', lambda: (repr(s), len(s), str(s))),
                     ('copy', lambda: (copy.copy(s), copy.deepcopy(s), copy.deepcopy(s.params))),
                     ('from_json-of-own-text', lambda: SR.from_json(s.to_json()))):
        try:
            fn()
        except Exception as e:
            if eq_usable(s):
                return 'R11:%s-raises' % what, '%s: %s' % (type(e).__name__, str(e)[:100])
        if sim_state(s) != before:
            return 'R11:%s-modifies-object' % what, 'state changed by the %s calls' % what
    later = SR.from_json(s.to_json())
    if sim_state(later) != sim_state(SR.from_json(build_sim(ss).to_json())):
        return 'R11:queries-change-later-save', 'after the queries the object is saved differently from a fresh one'
    template = base + '_' + ss['template'] + '_{missing}'
    tpl_copy = ''.join(template)
    for ext in ('.json', '.pickle'):
        s = build_sim(ss)
        before = sim_state(s, fname=False)
        actual = s.save_to_file(template + ext)
        if sim_state(s, fname=False) != before:
            return 'R3:save-modifies-object:' + ext, 'a field other than original_filename changed'
        if s.original_filename != tpl_copy + ext or template != tpl_copy:
            return 'R3:save-modifies-object:' + ext, 'original_filename / template: %r' % (s.original_filename,)
        saved_state = sim_state(s)
        # ------------ R7: the file is a snapshot; R3: the loaded object shares nothing with the saved one
        q = SR.load_from_file(actual)
        at_save = sim_state(q)
        mutate_sim(q)
        if sim_state(s) != saved_state:
            return 'R3:loaded-aliases-saved:' + ext, 'changing the loaded object changed the saved one'
        mutate_sim(s)
        q1, q2 = SR.load_from_file(actual), SR.load_from_file(actual)
        if sim_state(q1) != at_save or sim_state(q2) != at_save:
            return 'R7:file-not-a-snapshot:' + ext, 'the file changed when the saved object was modified later'
        mutate_sim(q1)
        if sim_state(q2) != at_save:
            return 'R7:loaded-twice-not-independent:' + ext, 'two loads of one file share state'
        # ------------ R7: save / load / save / load
        x = q2
        for i in range(3):
            x = SR.load_from_file(x.save_to_file(template + '_chain%d' % i + ext))
            st = sim_state(x, fname=False)
            if st != sim_state(q2, fname=False):
                return 'R7:chain-drifts:' + ext, 'state after %d more save/load differs' % (i + 1)
    # ---------------- R3: the dict forms are snapshots too
    s = build_sim(ss)
    before = sim_state(s)
    for what, mk in (('SimulationResults.from_dict(to_dict)', lambda: SR.from_dict(s.to_dict())),
                     ('SimulationResults.from_json(to_json)', lambda: SR.from_json(s.to_json()))):
        q = mk()
        mutate_sim(q)
        if sim_state(s) != before:
            return 'R3:loaded-aliases-saved:' + what.split('(')[0].split('.')[-1], what + ' shares state with the original'
    p = s._params
    pb = params_state(p)
    qp = P.from_dict(p.to_dict())
    qp.parameters['mutated'] = 1
    qp._unpacked_parameters_set.add('mutated')
    for v in qp.parameters.values():
        if isinstance(v, list):
            v.append('mutated')
        elif isinstance(v, set):
            v.add('mutated')
    if params_state(p) != pb:
        return 'R3:loaded-aliases-saved:params.from_dict', 'SimulationParameters.from_dict(to_dict()) shares state'
    for rs in s._results.values():
        for r in rs:
            rb = result_state(r)
            qr = R.from_dict(r.to_dict())
            qr._value_list.append('mutated')
            qr._total_list.append('mutated')
            if isinstance(qr._value, list):
                qr._value.append('mutated')
            if result_state(r) != rb:
                return 'R3:loaded-aliases-saved:result.from_dict', 'Result.from_dict(to_dict()) shares state'
    # ---------------- R4: rejected calls
    s = build_sim(ss)
    good = s.save_to_file(base + '_r4.json')                 # an existing file that must survive
    with open(good, 'rb') as f:
        good_bytes = f.read()
    s.original_filename = ss.get('prev_filename')
    before = sim_state(s)
    rejected = [('unknown-extension', lambda: s.save_to_file(base + '_r4.txt'), False),
                ('unwritable-path', lambda: s.save_to_file(os.path.join(_tmpdir(), 'no_such_dir', 'x.json')), False),
                ('unserialisable-value', lambda: s.save_to_file(base + '_r4.json'), True)]
    for kind, call, poison in rejected:
        if poison:
            s._params.parameters['cplx'] = complex(1, 2)
            before = sim_state_tolerant(s)
        try:
            call()
            raised = False
        except Exception:
            raised = True
        if not raised:
            return 'R4:%s:accepted' % kind, 'the call did not raise'
        after = sim_state_tolerant(s) if poison else sim_state(s)
        if after != before:
            return 'R4:%s:object-modified' % kind, 'the rejected call changed the object (original_filename %r)' % (s.original_filename,)
        try:
            with open(good, 'rb') as f:
                now = f.read()
        except OSError:
            now = None
        if now != good_bytes:
            return 'R4:%s:existing-file-damaged' % kind, 'an existing results file %s' % (
                'was removed' if now is None else 'changed')
        if [f for f in _files_with_prefix(base + '_r4') if not f.endswith('_r4.json')]:
            return 'R4:%s:stray-file' % kind, 'files left behind: %r' % (_files_with_prefix(base + '_r4'),)
    # continue the history: the object behaves like one that never saw the rejected calls
    del s._params.parameters['cplx']
    fresh = build_sim(ss)
    a = SR.load_from_file(s.save_to_file(base + '_r4b.json'))
    b = SR.load_from_file(fresh.save_to_file(base + '_r4c.json'))
    if sim_state(a, fname=False) != sim_state(b, fname=False):
        return 'R4:later-save-differs', 'after rejected calls a save differs from the save of a fresh object'
    # ---------------- R7: one parameters object shared by two results objects
    p = build_params(ss['params'])
    s1, s2 = build_sim(ss), build_sim(dict(ss, current_rep=ss['current_rep'] + 1))
    s1.set_parameters(p)
    s2.set_parameters(p)
    pb, s2b = params_state(p), sim_state(s2)
    for ext in ('.json', '.pickle'):
        q = SR.load_from_file(s1.save_to_file(base + '_shared' + ext))
        s1.to_json()
        if params_state(p) != pb or sim_state(s2) != s2b:
            return 'R7:shared-params-modified:' + ext, 'saving one results object changed the shared parameters / the other object'
        mutate_sim(q)
        if params_state(p) != pb or sim_state(s2) != s2b:
            return 'R7:shared-params-modified:' + ext, 'the loaded object shares the parameters object'
    return None


def sim_state_tolerant(s):
    """state of an object that holds the unserialisable complex parameter"""
    keep = s._params.parameters.pop('cplx')
    try:
        return sim_state(s)
    finally:
        s._params.parameters['cplx'] = keep


def o_forms(case):
    """R8: argument forms documented as equivalent give the same object and the same saved form"""
    R, SR = _impl()[1], _impl()[2]
    if 'results' in case:                       # SimulationResults: add_new_result vs append_result(Result(...))
        ss = case
        if unbuildable(ss) is not None:
            return None
        a, b2 = build_sim(dict(ss, add_new=True)), build_sim(dict(ss, add_new=False))
        if sim_state(a) != sim_state(b2) or text_tree(a.to_json()) != text_tree(b2.to_json()):
            return 'R8:add_new_result-differs', 'add_new_result(...) and append_result(Result(...)) give different objects'
        name = os.path.join(_tmpdir(), 'forms_%d_' % os.getpid() + ss.get('template', 'x'))
        out = []
        for ext in ('.json', '.pickle'):
            f1 = a.save_to_file(name + ext)
            f2 = b2.save_to_file(filename=name + ext)
            q1, q2 = SR.load_from_file(f1), SR.load_from_file(filename=f2)
            for f in {f1, f2}:
                try:
                    os.remove(f)
                except OSError:
                    pass
            if f1 != f2 or sim_state(q1) != sim_state(q2):
                return 'R8:save-load-keyword-form:' + ext, 'positional and keyword calls differ'
            out.append(q1)
        if sim_state(SR.from_json(data=a.to_json())) != sim_state(SR.from_json(a.to_json())):
            return 'R8:from_json-keyword-form', 'from_json(data=...) differs'
        if a.get_filename_with_replaced_params(filename=name) != a.get_filename_with_replaced_params(name):
            return 'R8:get_filename-keyword-form', 'keyword call differs'
        misc = _impl()[4]
        d = dict(a.params.parameters)
        try:
            n1, n2 = misc.replace_dict_values(name, d, True), misc.replace_dict_values(name=name, dictionary=d, filename_mode=True)
        except KeyError:
            n1 = n2 = name
        if n1 != n2 or n1 != a.get_filename_with_replaced_params(name):
            return 'R8:replace_dict_values-form', '%r / %r' % (n1, n2)
        return None
    rs = case
    try:
        ref = build_result(rs, 'ctor-kw')
    except Exception:
        return None if rs['type'] != 3 else ('R8:result-form:ctor-kw', 'valid CHOICE history raises')
    st, tx = result_state(ref), text_tree(ref.to_json())
    for form in RESULT_FORMS[1:]:
        try:
            r = build_result(rs, form)
        except Exception as e:
            return 'R8:result-form:' + form, 'raises %s: %s' % (type(e).__name__, str(e)[:100])
        if result_state(r) != st or text_tree(r.to_json()) != tx:
            return 'R8:result-form:' + form, 'object built as %s differs from the keyword constructor form' % form
        if result_state(R.from_json(r.to_json())) != result_state(R.from_json(ref.to_json())):
            return 'R8:result-form:' + form, 'loaded object differs'
    return None


def permute_ps(ps):
    def rev(v):
        if v[0] == 'set':
            return ['set', list(reversed(v[1]))]
        if v[0] == 'list':
            return ['list', [rev(x) for x in v[1]]]
        return v
    un = set(ps.get('unpack', []))          # the iteration order of an unpacked set decides which child is which
    return dict(ps, params=[[n, (v if n in un else rev(v))] for n, v in reversed(ps['params'])],
                unpack=list(reversed(ps.get('unpack', []))),
                post_ops=[])


def o_order(case):
    """R12: the order in which parameters, unpack marks, results and set elements
    were added is not part of the value"""
    SR = _impl()[2]
    ss = dict(case, derive=None)
    ss['params'] = dict(ss['params'], post_ops=[])
    tw = dict(ss, params=permute_ps(ss['params']), results=list(reversed(ss['results'])))
    if unbuildable(ss) is not None or unbuildable(tw) is not None:
        return None
    a, b2 = build_sim(ss), build_sim(tw)
    if sim_state(a) != sim_state(b2):
        return None      # (a set unpacked further down the chain: its iteration order decides which child this is)
    for what, la, lb in (('json', SR.from_json(a.to_json()), SR.from_json(b2.to_json())),
                         ('dict', SR.from_dict(a.to_dict()), SR.from_dict(b2.to_dict())),
                         ('pickle', pickle.loads(pickle.dumps(a, protocol=2)), pickle.loads(pickle.dumps(b2, protocol=2)))):
        if sim_state(la) != sim_state(lb):
            return 'R12:order-dependent:' + what, 'the loaded object depends on the insertion order'
        if eq_usable(a) and not (la == lb and lb == la and la == b2):
            return 'R12:order-dependent:' + what + ':==', 'objects with the same content in another order compare unequal'
    if text_tree(a.to_json()) != text_tree(b2.to_json()):
        return 'R12:order-dependent:json-text', 'JSON differs beyond the order of keys / set elements'
    tpl = ss.get('template') or 'x'
    # a template field whose value contains a SET (at any depth) is rendered in the set's iteration order, which
    # Python does not define (it depends on the hash seed of the process for strings): such fields are outside the
    # supported set of file-name templates (CLAIM note), so the name is compared only when no field is of that kind
    import string

    def has_set(v):
        return isinstance(v, list) and len(v) == 2 and (v[0] == 'set' or (v[0] == 'list' and any(has_set(x) for x in v[1])))
    fields = {f for _, f, _, _ in string.Formatter().parse(tpl) if f}
    vals = {n: v for n, v in ss['params']['params']}
    if any(has_set(vals[f]) for f in fields if f in vals):
        return None
    if a.get_filename_with_replaced_params(tpl) != b2.get_filename_with_replaced_params(tpl):
        return 'R12:order-dependent:filename', 'file name depends on the insertion order'
    return None


def o_combine(case):
    """R13: the union built by combine_simulation_results (an object derived from
    two others) survives every route, and its sources are not modified"""
    P, R, SR = _impl()[0], _impl()[1], _impl()[2]
    from pyphysim.simulations.results import combine_simulation_results
    srcs = []
    for vals in (case['a'], case['b']):
        p = P.create({'snr': np.array(vals, dtype=case['dtype']), 'M': case['M']})
        p.set_unpack_parameter('snr')
        s = SR()
        s.set_parameters(p)
        for i, v in enumerate(vals):
            s.append_result(R.create('ber', 1, int(v) + i, 100 + i))
            s.append_result(R.create('n', 0, i + 1))
        srcs.append(s)
    before = [sim_state(x) for x in srcs]
    u = combine_simulation_results(srcs[0], srcs[1])
    st = sim_state(u)
    for what, q in (('json', SR.from_json(u.to_json())), ('dict', SR.from_dict(u.to_dict())),
                    ('pickle', pickle.loads(pickle.dumps(u, protocol=2)))):
        d = sim_same(u, q)
        if d:
            return 'R13:combined-object:' + what, d
        if not (u == q):
            return 'R13:combined-object:' + what, 'loaded union != union'
        mutate_sim(q)
        if sim_state(u) != st:
            return 'R13:combined-object:' + what + ':aliased', 'loaded union shares state with the union'
    if [sim_state(x) for x in srcs] != before:
        return 'R13:combined-object:sources-modified', 'saving / loading the union changed a source object'
    return None


def o_tuple(case):
    """a tuple-valued parameter (JSON has no tuples)"""
    P = _impl()[0]
    p = P.create({'t': tuple(build(x) for x in case['items']), 'x': 1})
    q = P.from_json(p.to_json())
    if not isinstance(q.parameters['t'], tuple) or not (p == q):
        return 'value:tuple', 'tuple %r became %r (== gives %r)' % (p.parameters['t'], q.parameters['t'], p == q)
    return None


def o_complex_rejected(case):
    """complex values are not supported: they must be rejected cleanly (TypeError), never stored wrongly"""
    S = _impl()[3]
    v = {'scalar': complex(1, 2), 'npscalar': np.complex64(1 + 2j), 'array': np.array([1 + 2j, 3])}[case['kind']]
    try:
        text = json.dumps({'v': v}, cls=S.NumpyOrSetEncoder)
    except TypeError:
        return None
    except Exception as e:
        return 'complex:%s:wrong-exception' % case['kind'], repr(e)[:100]
    w = json.loads(text, object_hook=S.json_numpy_or_set_obj_hook)['v']
    if not np.array_equal(np.asarray(w), np.asarray(v)):
        return 'complex:%s:stored-wrongly' % case['kind'], '%r became %r' % (v, w)
    return None


ORACLES = {
    'json.roundtrip': o_value,
    'json.roundtrip.longdouble': o_longdouble,
    'SimulationParameters.roundtrip': o_params,
    'SimulationParameters.roundtrip.reserved-name': o_reserved,
    'Result.roundtrip': o_result,
    'SimulationResults.roundtrip': o_sim,
    'SimulationResults.filename': o_filename,
    'SimulationResults.filename.set': o_filename_set,
    'SimulationResults.robustness': o_robust,
    'SimulationParameters.roundtrip.tuple': o_tuple,
    'equivalent-argument-forms': o_forms,
    'SimulationResults.insertion-order': o_order,
    'SimulationResults.combined': o_combine,
    'json.rejects-complex': o_complex_rejected,
}


def r1516():
    """robustness classes R15 / R16 (helper module; its oracles are replayable like the ones above)"""
    from harness.props import c17_r1516
    for k_, v_ in c17_r1516.ORACLES.items():
        ORACLES.setdefault(k_, v_)
    return c17_r1516


def run_value_oracles(ctx, spec, nontrivial=True):
    """the value and, for arrays of ndim >= 2, the same value in every memory layout"""
    run_oracle(ctx, 'json.roundtrip', {'v': spec}, nontrivial=nontrivial)
    for vs in layout_variants(strip_layout(spec)):
        run_oracle(ctx, 'json.roundtrip', {'v': vs})


def run_params_oracles(ctx, ps, nontrivial=True):
    run_oracle(ctx, 'SimulationParameters.roundtrip', ps, nontrivial=nontrivial)
    for vp in variants_ps(strip_ps(ps)):
        run_oracle(ctx, 'SimulationParameters.roundtrip', vp)


def run_oracle(ctx, call, case, key=None, nontrivial=True):
    ctx.count((call, key if key is not None else json.dumps(case, sort_keys=True)), nontrivial)
    try:
        with time_limit(20.0):
            r = ORACLES[call](case)
    except Exception as e:
        r = ('exception:' + type(e).__name__, repr(e)[:300])
    if r is not None:
        ctx.fail(call, r[0], case, r[1])
        ctx.branch('oracle-fail:' + call)
    else:
        ctx.branch('oracle-ok:' + call)
    return r


def replay(ctx, rep):
    r1516()
    try:
        with time_limit(20.0):
            r = ORACLES[rep['call']](rep['case'])
    except Exception:
        return True
    return r is not None


# --------------------------------------------------------------- generators
STR_POOL = ['', 'a', 'snr', 'x y', 'é', '日本', '\U0001F600', '"quoted"', 'back\\slash', 'new\nline', '{brace}',
            'data', 'shape', 'dtype', 'None', 'true', '1', '1.0', '_is_se', 'tab\t', "'"]


def gen_str(rng):
    if rng.chance(0.5):
        return rng.choice(STR_POOL)
    n = rng.randint(1, 8)
    return ''.join(chr(rng.choice([rng.randint(32, 126), rng.randint(0xA0, 0x2FF), rng.randint(0x4E00, 0x4E40)]))
                   for _ in range(n))


def gen_name(rng, used):
    while True:
        n = rng.choice(['snr', 'Nt', 'p%d' % rng.randint(0, 99), 'alpha', 'M', 'rep_max', 'data', 'shape',
                        'dtype', 'x_%d' % rng.randint(0, 9), 'é%d' % rng.randint(0, 9)])
        if n not in used:
            used.add(n)
            return n


def gen_double(rng):
    c = rng.below(10)
    if c == 0:
        return rng.choice([0.0, -0.0, 1.0, -1.0, 0.5, 0.1, 1e22, 1e-300, 5e-324, 1.7976931348623157e308,
                           float('inf'), float('-inf'), 2.0 ** 53, 1 / 3])
    if c <= 3:
        return rng.randint(-1000, 1000) / float(1 << rng.randint(0, 10))
    if c <= 5:
        return float(rng.randint(-50, 50))
    if c <= 7:
        return rng.gauss() * 10.0 ** rng.randint(-5, 5)
    import struct
    while True:
        x = struct.unpack('<d', struct.pack('<Q', rng.u64()))[0]
        if x == x:
            return x


def gen_int(rng):
    c = rng.below(6)
    if c == 0:
        return rng.choice([0, 1, -1, 2 ** 31, 2 ** 63, -2 ** 63, 2 ** 64, 10 ** 30, -10 ** 30, 2 ** 53 + 1])
    if c <= 3:
        return rng.randint(0, 40) - 10
    return rng.randint(0, 1 << rng.randint(1, 70)) - (1 << rng.randint(0, 69))


def gen_npint(rng, dt=None):
    dt = dt or rng.choice(INT_DTYPES)
    info = np.iinfo(dt)
    c = rng.below(4)
    if c == 0:
        v = rng.choice([int(info.min), int(info.max), 0, 1])
    elif c == 1:
        v = rng.randint(0, min(int(info.max), 100))
    else:
        v = int(info.min) + rng.below(int(info.max) - int(info.min) + 1)
    return ['npint', dt, v]


def gen_npfloat(rng, dt=None):
    dt = dt or rng.choice(FLOAT_DTYPES + ['longdouble'])
    x = gen_double(rng)
    if dt == 'longdouble':
        return ['npfloat', dt, fhex(x)]
    with np.errstate(all='ignore'):
        y = np.dtype(dt).type(x)
    return ['npfloat', dt, fhex(float(y))]


def gen_scalar(rng, hashable_only=False):
    c = rng.below(12)
    if c == 0:
        return ['none']
    if c == 1:
        return ['bool', rng.chance(0.5)]
    if c <= 3:
        return ['int', gen_int(rng)]
    if c <= 5:
        return ['float', fhex(gen_double(rng))]
    if c <= 7:
        return ['str', gen_str(rng)]
    if c <= 9:
        return gen_npint(rng)
    if c == 10:
        return gen_npfloat(rng)
    return ['npbool', rng.chance(0.5)]


def plain(v):
    """Python scalar of the same value (numpy comparisons overflow on big ints)"""
    if isinstance(v, np.bool_):
        return bool(v)
    if isinstance(v, np.integer):
        return int(v)
    if isinstance(v, np.floating):
        return float(v)
    return v


def plain_deep(v):
    """the value with every numpy scalar replaced by the Python scalar of the same value"""
    if isinstance(v, list):
        return [plain_deep(x) for x in v]
    if isinstance(v, (set, frozenset)):
        return set(plain_deep(x) for x in v)
    if isinstance(v, np.generic):
        return plain(v)
    return v


def gen_set(rng):
    items, keys = [], set()
    for _ in range(rng.randint(0, 5)):
        s = gen_scalar(rng)
        v = build(s)
        if v != v:
            continue
        try:
            k = hash(v)
        except TypeError:
            continue
        if any(plain(v) == plain(build(t)) for t in items):
            continue
        items.append(s)
    if any(t[0].startswith('np') for t in items):
        # hashing/comparing a numpy scalar with a Python int beyond 64 bits raises OverflowError in numpy itself
        items = [t for t in items if not (t[0] == 'int' and abs(t[1]) >= 2 ** 63)]
    return ['set', items]


def gen_progression(rng):
    """1-D arrays around an arithmetic progression: exact, slightly perturbed
    (steps only 'close'), crossing zero, decreasing unsigned"""
    n = rng.randint(4, 9)
    c = rng.below(4)
    if c == 0:
        dt = rng.choice(['uint8', 'uint16', 'uint32', 'uint64'])
        top = int(np.iinfo(dt).max)
        vals = [rng.choice([top, top - 1, 0, 1, 2, 75, rng.below(top + 1)]) for _ in range(n)]
        return ['array', dt, [n], vals]
    if c == 1:
        dt = rng.choice(['int8', 'int16', 'int32', 'int64'])
        start, step = rng.randint(-20, 20), rng.randint(-5, 5)
        return ['array', dt, [n], [start + i * step for i in range(n)]]
    start = rng.randint(-4, 1) * rng.choice([1.0, 0.5, 1000.0])
    step = rng.choice([1.0, 0.5, 1000.0, 2.5])
    eps = rng.choice([0.0, 1e-5, 1e-6, 9e-6, 1e-9, 1e-3])
    vals = [start + i * step * (1.0 + (eps if i >= rng.randint(1, n - 1) else 0.0)) for i in range(n)]
    return ['array', 'float64', [n], [fhex(x) for x in vals]]


def gen_array(rng):
    if rng.chance(0.12):
        return gen_progression(rng)
    dt = rng.choice(INT_DTYPES + FLOAT_DTYPES + ['bool', 'float64', 'int64'])
    nd = rng.choice([0, 1, 1, 1, 2, 2, 3])
    shape = [rng.choice([0, 1, 2, 3, 4]) if rng.chance(0.9) else 0 for _ in range(nd)]
    if rng.chance(0.75):
        shape = [max(1, s) for s in shape]
    size = 1
    for s in shape:
        size *= s
    flat = []
    for _ in range(size):
        if dt == 'bool':
            flat.append(rng.chance(0.5))
        elif dt in FLOAT_DTYPES:
            flat.append(gen_npfloat(rng, dt)[2])
        else:
            flat.append(gen_npint(rng, dt)[2])
    spec = ['array', dt, shape, flat]
    if nd >= 1 and rng.chance(0.7 if nd >= 2 else 0.3):
        lay = rng.choice(LAYOUTS[1:])
        if lay == 'broadcast':
            spec = tile_first(spec)
        spec = spec + [lay]
    return spec


def gen_value(rng, depth=2, allow_array=True):
    c = rng.below(10)
    if depth <= 0 or c <= 4:
        return gen_scalar(rng)
    if c <= 6:
        return ['list', [gen_value(rng, depth - 1, allow_array) for _ in range(rng.choice([0, 0, 1, 2, 3, 4]))]]
    if c == 7:
        return gen_set(rng)
    return gen_array(rng) if allow_array else gen_set(rng)


def gen_unpackable(rng):
    """an iterable whose elements are supported values"""
    c = rng.below(6)
    if c == 0:
        a = gen_array(rng)
        while len(a[2]) == 0:
            a = gen_array(rng)
        return a
    if c == 1:
        dt = rng.choice(INT_DTYPES + FLOAT_DTYPES)
        n = rng.randint(1, 4)
        flat = [(gen_npfloat(rng, dt)[2] if dt in FLOAT_DTYPES else gen_npint(rng, dt)[2]) for _ in range(n)]
        return ['array', dt, [n], flat]
    if c == 2:
        return gen_set(rng)
    if c == 3:
        return ['str', gen_str(rng)]
    return ['list', [gen_value(rng, 1) for _ in range(rng.randint(0, 3))]]


def gen_params(rng, allow_child=True):
    used = set()
    params, unpack = [], []
    for _ in range(rng.choice([0, 1, 2, 2, 3, 4])):
        n = gen_name(rng, used)
        if rng.chance(0.35):
            v = gen_unpackable(rng)
            if rng.chance(0.7):
                unpack.append(n)
        else:
            v = gen_value(rng, 2)
        params.append([n, v])
    ps = {'params': params, 'unpack': unpack, 'child': None, 'via_add': rng.chance(0.6), 'mark_form': rng.below(3),
          'derive': rng.choice([None, None, None, 'deepcopy', 'pickle'])}
    if allow_child and unpack and rng.chance(0.5):
        # a child exists only if every unpacked parameter is non-empty
        if all(len_of(dict((n, v) for n, v in params)[n]) > 0 for n in unpack):
            ps['child'] = rng.randint(0, 50)
            cands = [n for n, v in params if n not in unpack and v[0] in ('list', 'str', 'array', 'set') and len_of(v) > 0]
            if cands and rng.chance(0.3):
                ps['grandchild'] = [rng.choice(cands), rng.randint(0, 20)]
    if ps['child'] is not None and rng.chance(0.65):
        add_post_ops(rng, ps)
    if ps['child'] is not None:
        ps['derive_child'] = rng.choice([None, None, 'deepcopy', 'pickle'])
    return ps


def add_post_ops(rng, ps):
    """mutator calls applied after unpacking, to the child and to its originals"""
    p = build_params(ps, skip_post_ops=True)
    ops = []
    for _ in range(rng.choice([1, 1, 2, 3, 4])):
        chain = params_chain(p)
        level = rng.below(len(chain)) if rng.chance(0.45) else 0
        target = chain[level]
        names = list(target.parameters)
        c = rng.below(10)
        if c <= 3 and names:                                      # overwrite an existing parameter
            n = rng.choice(names)
            # a parameter that is marked to be unpacked must stay iterable (the library requires it when marking)
            v = gen_unpackable(rng) if n in target._unpacked_parameters_set else gen_value(rng, 2)
            op = [level, rng.choice(['set', 'add']), n, v]
        elif c <= 5:                                              # a parameter only this object has
            op = [level, rng.choice(['set', 'add']), gen_name(rng, set(names)), gen_value(rng, 2)]
        elif c <= 7 and names:
            op = [level, 'remove', rng.choice(names), None]
        else:
            it = [n for n in names if isinstance(target.parameters[n], (list, set, str, np.ndarray))]
            marked = [n for n in it if n in target._unpacked_parameters_set]
            if marked and rng.chance(0.5):
                op = [level, 'unmark', rng.choice(marked), None]
            elif it:
                op = [level, 'mark', rng.choice(it), None]
            else:
                continue
        if op[1] in ('set', 'add') and 'npfloat:longdouble' in spec_features(op[3]):
            continue
        try:
            apply_post_op(p, op)
        except Exception:
            continue
        ops.append(op)
    ps['post_ops'] = ops
    return ps


def len_of(vspec):
    if vspec[0] == 'array':
        return vspec[2][0] if vspec[2] else 0
    if vspec[0] in ('list', 'set', 'str'):
        return len(vspec[1])
    return 0


def gen_number(rng, numpy_ok=True):
    c = rng.below(8)
    if c <= 2:
        return ['int', rng.randint(0, 200) - 20]
    if c <= 4:
        return ['float', fhex(rng.randint(-400, 400) / float(1 << rng.randint(0, 6)))]
    if not numpy_ok or c == 5:
        return ['float', fhex(gen_double(rng) if rng.chance(0.3) else rng.randint(1, 99) / 8.0)]
    if c == 6:
        return gen_npint(rng, rng.choice(['int8', 'int16', 'int32', 'int64', 'uint8', 'uint16']))[:2] + [rng.randint(0, 100)]
    s = gen_npfloat(rng, rng.choice(FLOAT_DTYPES))
    s[2] = fhex(rng.randint(-200, 200) / float(1 << rng.randint(0, 4)))
    return s


def finite(spec):
    if spec[0] in ('float', 'npfloat'):
        x = float.fromhex(spec[2] if spec[0] == 'npfloat' else spec[1])
        return abs(x) < 1e150
    return True


def n_choices_bool(n, i):
    """True/False can stand for the index i"""
    return i in (0, 1) and n > i


def gen_result(rng, name=None, rtype=None):
    t = rng.below(4) if rtype is None else rtype
    rs = {'name': name if name is not None else gen_str(rng), 'type': t, 'acc': rng.chance(0.4),
          'choice_num': None, 'history': [], 'form': rng.choice(RESULT_FORMS)}
    k = rng.choice([0, 1, 1, 2, 3, 5, 8])
    if t == 3:
        rs['choice_num'] = rng.randint(1, 5) if rng.chance(0.85) else rng.choice([257, 258, 300])
        for _ in range(k):
            i = rng.randint(-rs['choice_num'], rs['choice_num'] - 1) if rng.chance(0.2) else rng.randint(0, rs['choice_num'] - 1)
            c = rng.below(4)
            if n_choices_bool(rs['choice_num'], i) and rng.chance(0.1):
                spec = rng.choice([['npbool', bool(i)], ['bool', bool(i)]])
            elif rng.chance(0.08):
                spec = ['array', rng.choice(['int64', 'int16', 'uint8'] if 0 <= i < 256 else ['int64', 'int16']), [], [i]]   # 0-d array
            else:
                dts = ['int16', 'int32', 'int64', 'intp'] + (['int8'] if -128 <= i < 128 else [])
                if i >= 0:
                    dts += ['uint16', 'uint32', 'uint64'] + (['uint8'] if i < 256 else [])
                spec = ['int', i] if c <= 1 else ['npint', rng.choice(dts), i]
            rs['history'].append([spec, None])
    elif t == 2:
        for _ in range(k):
            rs['history'].append([gen_value(rng, 2, allow_array=rng.chance(0.35)), None])
    elif t == 0:
        for _ in range(k):
            v = gen_number(rng)
            while not finite(v):
                v = gen_number(rng)
            rs['history'].append([v, None])
    else:
        for _ in range(k):
            v = gen_number(rng)
            while not finite(v):
                v = gen_number(rng)
            tot = ['int', rng.randint(1, 500)] if rng.chance(0.7) else ['float', fhex(rng.randint(1, 64) / 4.0)]
            if rng.chance(0.15):
                tot = ['npint', rng.choice(['int16', 'int32', 'int64']), rng.randint(1, 100)]
            rs['history'].append([v, tot])
    return rs


TEMPLATE_SCALARS = ('int', 'float', 'str', 'bool', 'none', 'npint', 'npfloat', 'npbool')


def safe_for_path(vspec):
    v = build(vspec)
    s = format(v, '')
    return '/' not in s and '\x00' not in s and len(s.encode('utf8')) < 60 and '\n' not in s


def gen_sim(rng, with_template=True):
    ps = gen_params(rng)
    groups = []
    used = set()
    for _ in range(rng.choice([0, 1, 1, 2, 3])):
        name = gen_str(rng)
        if name in used:
            continue
        used.add(name)
        t = rng.below(4)
        first = gen_result(rng, name, t)
        group = [first]
        for _ in range(rng.choice([0, 0, 1, 2])):
            group.append(gen_result(rng, name, t))
        groups.append(group)
    rr = rng.choice([['none'], ['int', rng.randint(0, 1000)], ['int', 0], ['list', [['int', 0]]],
                     ['list', [['int', rng.choice([0, rng.randint(0, 1000)])] for _ in range(rng.randint(0, 4))]]])
    ss = {'params': ps, 'results': groups, 'runned_reps': rr,
          'current_rep': rng.choice([-1, -1, 0, 0, 3, rng.randint(0, 10 ** 6)]), 'template': None,
          'prev_filename': rng.choice([None, None, '', 'old_{snr}.pickle', 'previous.json']),
          'current_rep_dtype': rng.choice([None, None, None, 'int8', 'int64', 'uint16', 'intp']),
          'add_new': rng.chance(0.5), 'derive': rng.choice([None, None, None, 'deepcopy', 'pickle', 'json'])}
    if ss['current_rep_dtype'] in ('int8',):
        ss['current_rep'] = ss['current_rep'] % 100
    if ss['current_rep_dtype'] in ('uint16',):
        ss['current_rep'] = abs(ss['current_rep']) % 60000
    if with_template:
        # final parameter dictionary of the object that is saved
        fields = []
        try:
            p = build_params(ps)
            for n, v in p.parameters.items():
                if kind_of(v) in ('int', 'float', 'str', 'bool', 'none') and n.isidentifier() \
                        and '/' not in format(v, '') and '\n' not in format(v, '') and '\x00' not in format(v, '') \
                        and len(format(v, '').encode('utf8')) < 50:
                    fields.append(n)
        except Exception:
            fields = []
        tpl = 'res'
        for n in fields[:3]:
            if rng.chance(0.7):
                tpl += '_{%s}' % n
        if rng.chance(0.1):
            tpl += '_{missing_parameter}'
        ss['template'] = tpl + '_%d' % rng.randint(0, 10 ** 9)
    return ss


# ------------------------------------------------------------ correspondence
class Hang(Exception):
    """the implementation did not return within the time limit"""


class time_limit:
    """SIGALRM guard around calls into the implementation (an endless Python
    loop there must become a reported failure, not a stuck check)"""

    def __init__(self, seconds=10.0):
        self.seconds = seconds

    def _raise(self, *_):
        raise Hang('no answer within %.0f s' % self.seconds)

    def __enter__(self):
        import signal
        self.outer_left = signal.getitimer(signal.ITIMER_REAL)[0]   # nested use: re-armed on exit
        self.old = signal.signal(signal.SIGALRM, self._raise)
        signal.setitimer(signal.ITIMER_REAL, self.seconds)

    def __exit__(self, *exc):
        import signal
        signal.setitimer(signal.ITIMER_REAL, 0)
        signal.signal(signal.SIGALRM, self.old)
        if self.outer_left > 0:
            signal.setitimer(signal.ITIMER_REAL, max(self.outer_left, 0.01))
        return False


def safe(fn):
    try:
        with time_limit(5.0):
            return fn()
    except NotSendable:
        raise
    except Exception as e:
        return exc_name(e)


class Batch:
    """collects driver requests; answers are compared after one `ask`"""

    def __init__(self, ctx):
        self.ctx = ctx
        self.lines = []
        self.todo = []

    def add(self, name, case, line, impl, prefix='', nontrivial=True, key=None):
        self.lines.append(line)
        self.todo.append((name, case, impl, prefix, nontrivial, key))

    def flush(self):
        if not self.lines:
            return
        out = core.Driver(DRIVER).ask(self.lines)
        for (name, case, impl, prefix, nontrivial, key), reply in zip(self.todo, out):
            if reply == 'bad-op':
                self.ctx.tie_broken('correspondence', name, 'driver could not parse the request', case)
                continue
            if prefix:
                if not reply.startswith(prefix + ' '):
                    self.ctx.branch('hypothesis-false:' + name)
                    self.ctx.tie_broken('correspondence', name + ':hypothesis',
                                        'model hypothesis %s false on a real object: %s' % (prefix, reply[:200]), case)
                    continue
                reply = reply[len(prefix) + 1:]
            self.ctx.corr(name, case, impl, reply, nontrivial=nontrivial, key=key)
            self.ctx.branch('model:' + ('ok' if reply.startswith('ok') or not reply.startswith(('error', 'unmod')) else reply.split()[0]))
        self.lines, self.todo = [], []


def iter_arrays(ps):
    def walk(sp):
        if sp[0] in ('list', 'set'):
            for x in sp[1]:
                yield from walk(x)
        elif sp[0] == 'array':
            yield sp
    for _, v in ps['params']:
        yield from walk(v)


def corr_value(ctx, b, spec, variants=True):
    if variants:
        for vs in layout_variants(strip_layout(spec)):
            corr_value(ctx, b, vs, variants=False)
    S = _impl()[3]
    v = build(spec)
    try:
        line = tok(v, strict=True)
    except NotSendable:
        ctx.branch('not-sendable')
        return
    key = json.dumps(spec)
    nontriv = spec[0] in ('list', 'set', 'array') or spec[0].startswith('np')

    def enc():
        return text_tree(json.dumps(v, cls=S.NumpyOrSetEncoder))

    def rt():
        return 'ok ' + tok(json.loads(json.dumps(v, cls=S.NumpyOrSetEncoder), object_hook=S.json_numpy_or_set_obj_hook), True)
    b.add('NumpyOrSetEncoder(tree)', spec, 'enc ' + line, safe(enc), nontrivial=nontriv, key=('enc', key))
    b.add('json_numpy_or_set_obj_hook∘encoder', spec, 'json ' + line, safe(rt), prefix='wf=1', nontrivial=nontriv,
          key=('json', key))
    for f in spec_features(spec):
        ctx.branch('feature:' + f)


def corr_params(ctx, b, ps, variants=True):
    if variants:
        for vp in variants_ps(strip_ps(ps)):
            corr_params(ctx, b, vp, variants=False)
    P = _impl()[0]
    p = build_params(ps)
    try:
        line = params_in(p)
    except NotSendable:
        ctx.branch('not-sendable')
        return
    depth = len(params_chain(p))
    key = json.dumps(ps, sort_keys=True)
    nontriv = len(ps['params']) > 0
    b.add('SimulationParameters.to_json(tree)', ps, 'paramsenc ' + line,
          safe(lambda: text_tree(p.to_json())), nontrivial=nontriv, key=('penc', key))
    b.add('SimulationParameters.from_json∘to_json', ps, 'params %d %s' % (depth + 1, line),
          safe(lambda: 'ok ' + params_state(P.from_json(p.to_json()))), prefix='wf=1', nontrivial=nontriv,
          key=('params', key))
    ctx.branch('params:depth=%d' % depth)
    if variants:
        corr_params_ops(ctx, b, ps)
    if child_differs_from_parent(p):
        ctx.branch('params:child-own-values-differ-from-original')
    if any(manifesting(x) for x in iter_arrays(ps)):
        ctx.branch('params:array-non-C-memory-order')
    if ps['unpack']:
        ctx.branch('params:unpacked-marks')
    if ps.get('child') is not None:
        ctx.branch('params:child')


def corr_params_ops(ctx, b, ps):
    """the model applies the mutator calls itself (`applyOps`) to the state before
    them and predicts the JSON tree and the loaded object of the result"""
    P = _impl()[0]
    ops = ps.get('post_ops') or []
    if not ops:
        return
    base = build_params(ps, skip_post_ops=True)
    try:
        line = 'paramsops %d L2 %s %s' % (len(params_chain(base)) + 1, params_in(base), post_ops_tokens(ops))
    except NotSendable:
        ctx.branch('not-sendable')
        return

    def run():
        for op in ops:
            try:
                apply_post_op(base, op)
            except Exception as e:
                return 'ops ' + exc_name(e)
        return 'wf=1 tree=%s loaded=ok %s' % (text_tree(base.to_json()), params_state(P.from_json(base.to_json())))
    impl = safe(run)
    b.add('mutators after unpacking; from_json∘to_json', ps, line, impl, key=('pops', json.dumps(ps, sort_keys=True)))
    for op in ops:
        ctx.branch('params:post-op:%s:%s' % ('set' if op[1] == 'add' else op[1], 'child' if op[0] == 0 else 'original'))
    if not impl.startswith('ops ') and child_differs_from_parent(base):
        ctx.branch('params:child-own-values-differ-from-original')


def corr_params_bad_ops(ctx, b, rng):
    """mutator calls that must be rejected (missing name, not iterable, not marked)"""
    ps = {'params': [['a', ['list', [['int', 1], ['int', 2]]]], ['b', ['int', 3]], ['c', ['str', 'xy']]],
          'unpack': ['a'], 'child': rng.below(2), 'via_add': False}
    level = rng.below(2)
    bad = rng.choice([[level, 'remove', 'zz', None], [level, 'mark', 'b', None], [level, 'mark', 'zz', None],
                      [level, 'unmark', 'c', None], [level, 'unmark', 'b', None], [level, 'unmark', 'zz', None]])
    good = rng.choice([[], [[0, 'set', 'b', ['int', 9]]], [[1, 'remove', 'c', None]]])
    corr_params_ops(ctx, b, dict(ps, post_ops=good + [bad]))
    ctx.branch('params:post-op:rejected')


def corr_result(ctx, b, rs):
    R = _impl()[1]
    try:
        r = build_result(rs)
    except Exception as e:
        if rs['type'] != 3:
            # numpy arithmetic of update() (e.g. Python int 355 + np.uint8): not a serialisation matter
            ctx.branch('update-arithmetic-raises')
            return
        ctx.tie_broken('correspondence', 'Result.update', 'history of valid CHOICE updates raised %s: %s'
                       % (type(e).__name__, str(e)[:200]), rs)
        return
    try:
        line = result_in(r)
    except NotSendable:
        ctx.branch('not-sendable')
        return
    key = json.dumps(rs, sort_keys=True)
    nontriv = len(rs['history']) > 0
    b.add('Result.to_json(tree)', rs, 'resultenc ' + line, safe(lambda: text_tree(r.to_json())),
          nontrivial=nontriv, key=('renc', key))
    b.add('Result.from_json∘to_json', rs, 'result ' + line, safe(lambda: 'ok ' + result_state(R.from_json(r.to_json()))),
          prefix='good=1', nontrivial=nontriv, key=('result', key))
    ctx.branch('result:' + TYPE_NAMES[rs['type']])
    for f in result_features(rs):
        ctx.branch('result:' + f)
    if rs['type'] == 3:
        # the CHOICE update machine itself
        ops = [build(v) for v, _ in rs['history']]
        line = 'choice L4 %s %s i%d %s' % (tok_str(rs['name']), 'T' if rs['acc'] else 'F', rs['choice_num'], tok(ops))
        b.add('Result.update(CHOICETYPE)', rs, line, 'ok ' + result_state(r), nontrivial=nontriv, key=('choice', key))


def corr_choice_errors(ctx, b, rng):
    """updates the machine must reject"""
    R = _impl()[1]
    n = rng.randint(1, 4)
    good = [rng.randint(0, n - 1) for _ in range(rng.randint(0, 3))]
    bad = rng.choice([n, n + 3, -n - 1, 0.5, 'a', None, np.float32(0.0), np.int8(n), np.array(n + 1), np.array(0.0)])
    r = R('c', 3, accumulate_values=True, choice_num=n)
    res = None
    try:
        for i in good + [bad]:
            r.update(i)
        res = 'ok'
    except Exception as e:
        res = exc_name(e)
    case = {'choice_num': n, 'history': good + [repr(bad)]}
    line = 'choice L4 %s T i%d %s' % (tok_str('c'), n, tok(good + [bad]))
    b.add('Result.update(CHOICETYPE).rejects', case, line, res, key=('choice-bad', json.dumps(case)))


def corr_sim(ctx, b, ss):
    SR = _impl()[2]
    u = unbuildable(ss)
    if u == 'skip':
        ctx.branch('update-arithmetic-raises')
        return
    if u is not None:
        ctx.tie_broken('correspondence', 'SimulationResults.build', u, ss)
        return
    s = build_sim(ss)
    try:
        line = sim_in(s)
    except NotSendable:
        ctx.branch('not-sendable')
        return
    depth = len(params_chain(s._params))
    key = json.dumps(ss, sort_keys=True)
    nontriv = len(ss['results']) > 0 or len(ss['params']['params']) > 0
    b.add('SimulationResults.to_json(tree)', ss, 'simenc ' + line, safe(lambda: text_tree(s.to_json())),
          nontrivial=nontriv, key=('senc', key))
    b.add('SimulationResults.from_json∘to_json', ss, 'sim %d %s' % (depth + 1, line),
          safe(lambda: 'ok ' + sim_state(SR.from_json(s.to_json()))), prefix='wf=1', nontrivial=nontriv, key=('sim', key))
    if ss['current_rep'] != -1:
        ctx.branch('sim:current_rep-set')
    if ss.get('template') is None:
        return
    # file path: name, original_filename, loaded object
    tpl = os.path.join(_tmpdir(), ss['template'])
    segs, tbl = template_segments(tpl, s._params.parameters, ctx)
    if segs is None:
        ctx.branch('template:unmodelled-field')
        return
    for ext in ('.json', '.pickle', '', '.txt'):
        s = build_sim(ss)

        def run():
            try:
                actual = s.save_to_file(tpl + ext)
            except Exception as e:
                # R4: what the object and the folder look like after the rejected call
                left = [f for f in os.listdir(_tmpdir()) if f.startswith(os.path.basename(tpl))]
                return '%s state=%s files=%d' % (exc_name(e), sim_state(s), len(left))
            q = SR.load_from_file(actual)
            try:
                os.remove(actual)
            except OSError:
                pass
            return 'ok name=%s orig=%s loaded=ok %s' % (tok_str(actual), tok(s.original_filename), sim_state(q))
        impl = safe(run)
        line = 'file %d L5 %s %s %s %s %s' % (depth + 1, sim_in(build_sim(ss)), tok_str(tpl), segs, tok_str(ext), tbl)
        b.add('save_to_file/load_from_file' + (ext or '(no extension)'), ss, line, impl,
              key=('file', ext, key))
        ctx.branch('file:' + (ext or 'none'))
        if ext == '.txt':
            ctx.branch('R4:rejected-save-state-compared')


def template_segments(tpl, parameters, ctx=None):
    """parse 'a_{x}_b' into the model's segment list; None if a field is not a scalar"""
    import string
    segs = []
    floats = []
    for lit, fld, spec, conv in string.Formatter().parse(tpl):
        if lit:
            segs.append('L2 %s %s' % (tok_str('lit'), tok_str(lit)))
        if fld is not None:
            if spec or conv:
                return None, None
            segs.append('L2 %s %s' % (tok_str('field'), tok_str(fld)))
    for n, v in parameters.items():
        if isinstance(v, (float, np.floating)):
            if isinstance(v, np.floating) and v.dtype.itemsize > 8:
                return None, None
            w = 64 if not isinstance(v, np.generic) else v.dtype.itemsize * 8
            if ctx is not None:
                # hypothesis `fr w = fr 64` of theorem filename_same_after_reload, on this value
                ctx.corr('format(numpy float) = format(float of the same value)', {'dtype': str(getattr(v, 'dtype', 'float')),
                         'hex': float(v).hex()}, format(v, ''), format(float(v), ''), nontrivial=w != 64,
                         key=('fmt', w, float(v).hex()))
            floats.append('L3 i%d f%s %s' % (w, tok_float(v), tok_str(format(v, ''))))
        elif ('{%s}' % n) in tpl and kind_of(v) not in ('int', 'str', 'bool', 'none'):
            return None, None
    return ' '.join(['L%d' % len(segs)] + segs), ' '.join(['L%d' % len(floats)] + floats)


def corr_filename(ctx, b, rng):
    SR, P = _impl()[2], _impl()[0]
    used = set()
    params = []
    for _ in range(rng.randint(1, 4)):
        n = 'p%d' % len(params)
        v = gen_scalar(rng)
        params.append([n, v])
    tpl = rng.choice(['res', 'out dir', 'é', ''])
    scalars = list(params)
    if rng.chance(0.4):
        # parameters the template does not mention (any supported value) must not matter
        params.append(['extra', gen_array(rng) if rng.chance(0.7) else gen_value(rng, 2)])
    for n, _ in scalars:
        c = rng.below(4)
        if c == 0:
            tpl += '_{%s}' % n
        elif c == 1:
            tpl += '{%s}{%s}' % (n, n)
        elif c == 2:
            tpl += '({%s})' % n
    if rng.chance(0.15):
        tpl += '{nope}'
    if rng.chance(0.2):
        tpl += '{{literal}}'
    tpl += rng.choice(['.json', '.pickle', ''])
    s = SR()
    p = P.create({n: build(v) for n, v in params})
    s.set_parameters(p)
    case = {'template': tpl, 'params': params}
    segs, tbl = template_segments(tpl, p.parameters, ctx)
    if segs is None:
        ctx.branch('template:unmodelled-field')
        return
    line = 'fname L4 %s %s %s %s' % (tok(dict(p.parameters)), tok_str(tpl), segs, tbl)
    b.add('get_filename_with_replaced_params', case, line,
          safe(lambda: 'ok ' + tok_str(s.get_filename_with_replaced_params(tpl))), key=('fname', json.dumps(case)))
    ctx.branch('template:missing-key' if 'nope' in tpl else 'template:all-fields-present')


CORPUS_VALUES = [
    ['npfloat', 'float32', fhex(2.5)], ['npfloat', 'float16', fhex(0.5)], ['npint', 'int8', -3], ['npint', 'int16', 300],
    ['npint', 'uint8', 255], ['npint', 'uint64', 2 ** 64 - 1], ['npint', 'int64', -2 ** 63], ['npbool', True],
    ['array', 'float64', [0, 3], []], ['array', 'int64', [2, 0], []], ['array', 'int32', [], [5]],
    ['array', 'float32', [2], [fhex(1.5), fhex(2.5)]], ['array', 'int8', [2, 2], [1, 2, 3, 4]],
    ['array', 'bool', [2], [True, False]], ['array', 'uint64', [1], [2 ** 64 - 1]], ['array', 'float64', [0], []],
    ['array', 'float64', [1, 1, 1], [fhex(0.1)]], ['array', 'float64', [3, 0, 2], []],
    ['array', 'int64', [2, 3], [1, 2, 3, 4, 5, 6], 'F'], ['array', 'float64', [3, 2], [fhex(x) for x in (1, 2, 3, 4, 5, 6)], 'T'],
    ['array', 'int16', [2, 2, 2], [1, 2, 3, 4, 5, 6, 7, 8], 'strided'], ['array', 'int64', [2, 3], [1, 2, 3, 4, 5, 6], 'reversed'],
    ['array', 'int64', [3, 2], [1, 2, 1, 2, 1, 2], 'broadcast'],
    ['list', [['array', 'uint8', [2, 2], [1, 2, 3, 4], 'F'], ['int', 3]]],
    ['set', []], ['set', [['int', 1], ['str', 'a'], ['none']]], ['set', [['npint', 'int16', 3], ['npfloat', 'float32', fhex(0.5)]]],
    ['list', []], ['list', [['list', []], ['list', [['int', 1], ['list', [['int', 2]]]]]]],
    ['list', [['npfloat', 'float32', fhex(1.5)], ['set', [['npint', 'int16', 3]]]]],
    ['float', fhex(float('inf'))], ['float', fhex(-0.0)], ['int', 2 ** 100], ['str', ''], ['str', '_is_set'],
    ['list', [['array', 'float64', [2], [fhex(1.0), fhex(2.0)]], ['array', 'int16', [0, 2], []]]],
]


def corpus_results():
    out = []
    for t in range(4):
        for acc in (False, True):
            out.append({'name': 'r', 'type': t, 'acc': acc, 'choice_num': 3 if t == 3 else None, 'history': []})
    out.append({'name': 'ber', 'type': 1, 'acc': True, 'choice_num': None,
                'history': [[['int', 3], ['int', 10]], [['npint', 'int16', 6], ['int', 7]]]})
    out.append({'name': 'c', 'type': 3, 'acc': True, 'choice_num': 4,
                'history': [[['int', 3], None], [['int', 1], None], [['npint', 'int8', 0], None], [['int', -1], None]]})
    out.append({'name': 'c', 'type': 3, 'acc': False, 'choice_num': 2, 'history': [[['int', 1], None]] * 3})
    out.append({'name': 'b', 'type': 3, 'acc': False, 'choice_num': 3,
                'history': [[['bool', True], None], [['npbool', False], None], [['array', 'int16', [], [2]], None]]})
    out.append({'name': 's', 'type': 0, 'acc': True, 'choice_num': None,
                'history': [[['npfloat', 'float32', fhex(0.5)], None], [['npfloat', 'float32', fhex(0.25)], None]]})
    out.append({'name': 'h', 'type': 2, 'acc': True, 'choice_num': None,
                'history': [[['array', 'float64', [2, 3], [fhex(x) for x in (1, 2, 3, 4, 5, 6)], 'F'], None],
                            [['array', 'int64', [3, 2], [1, 2, 3, 4, 5, 6], 'T'], None]]})
    out.append({'name': 'm', 'type': 2, 'acc': True, 'choice_num': None,
                'history': [[['set', [['int', 1], ['str', 'a']]], None], [['str', 'some string'], None],
                            [['list', [['npint', 'int16', 2]]], None]]})
    return out


def corpus_params():
    f32 = ['array', 'float32', [2], [fhex(0.5), fhex(1.5)]]
    return [
        {'params': [], 'unpack': [], 'child': None},
        {'params': [['snr', f32], ['M', ['int', 4]]], 'unpack': ['snr'], 'child': 1},
        {'params': [['snr', f32], ['M', ['list', [['int', 4], ['int', 16]]]]], 'unpack': ['snr', 'M'], 'child': 3},
        {'params': [['H', ['array', 'float64', [0, 3], []]]], 'unpack': [], 'child': None},
        {'params': [['H', ['array', 'int16', [2, 2], [1, 2, 3, 4]]]], 'unpack': ['H'], 'child': 1},
        {'params': [['s', ['set', [['int', 1], ['int', 2]]]], ['w', ['str', 'ab']]], 'unpack': ['s', 'w'], 'child': 2},
        {'params': [['a', ['list', [['npint', 'int8', 1], ['npfloat', 'float16', fhex(0.5)]]]], ['b', ['list', [['int', 1], ['int', 2]]]]],
         'unpack': ['a'], 'child': 0, 'grandchild': ['b', 1]},
        {'params': [['rep_max', ['int', 5]], ['x', ['npbool', True]]], 'unpack': [], 'child': None},
        # children changed after unpacking: every object of the chain keeps its own values
        {'params': [['snr', ['list', [['int', 0], ['int', 5]]]], ['M', ['int', 4]]], 'unpack': ['snr'], 'child': 1,
         'via_add': False, 'post_ops': [[0, 'set', 'M', ['int', 16]]]},
        {'params': [['snr', ['list', [['int', 0], ['int', 5]]]], ['M', ['int', 4]], ['H', ['array', 'float64', [2], [fhex(1.0), fhex(2.0)]]]],
         'unpack': ['snr'], 'child': 0, 'via_add': False,
         'post_ops': [[0, 'add', 'taps', ['array', 'int16', [2, 2], [1, 2, 3, 4], 'F']], [1, 'set', 'M', ['int', 64]],
                      [0, 'remove', 'H', None], [1, 'add', 'late', ['str', '']], [0, 'set', 'M', ['int', 0]]]},
        {'params': [['snr', ['list', [['int', 0], ['int', 5]]]], ['w', ['str', 'ab']], ['z', ['float', fhex(0.5)]]],
         'unpack': ['snr'], 'child': 1, 'via_add': False,
         'post_ops': [[0, 'mark', 'w', None], [1, 'mark', 'w', None], [1, 'unmark', 'snr', None], [1, 'remove', 'z', None]]},
        # memory layouts: the value of an array is its logical content
        {'params': [['H', ['array', 'float64', [2, 3], [fhex(x) for x in (1, 2, 3, 4, 5, 6)], 'T']]], 'unpack': [],
         'child': None, 'via_add': True},
        {'params': [['H', ['array', 'int64', [2, 3], [1, 2, 3, 4, 5, 6], 'F']], ['snr', ['list', [['int', 0], ['int', 5]]]]],
         'unpack': ['snr'], 'child': 1, 'via_add': False},
        {'params': [['H', ['array', 'int32', [3, 2], [1, 2, 3, 4, 5, 6], 'reversed']]], 'unpack': ['H'], 'child': 2,
         'via_add': True},
        {'params': [['H', ['array', 'int8', [2, 2, 2], [1, 2, 3, 4, 5, 6, 7, 8], 'strided']]], 'unpack': [], 'child': None,
         'via_add': True},
    ]


def boundary_values():
    """R5: falsy and single-element values of every kind (a field read back with
    `or`, `if x:` or a default would lose them)"""
    falsy = [['int', 0], ['float', fhex(0.0)], ['float', fhex(-0.0)], ['bool', False], ['str', ''], ['none'],
             ['npbool', False], ['list', []], ['set', []], ['int', 1], ['bool', True]]
    falsy += [['npint', dt, 0] for dt in INT_DTYPES] + [['npfloat', dt, fhex(0.0)] for dt in FLOAT_DTYPES]
    out = list(falsy)
    for f in falsy[:9] + [['npint', 'int16', 0], ['npfloat', 'float32', fhex(0.0)]]:
        out.append(['list', [f]])
        if f[0] not in ('list', 'set'):
            out.append(['set', [f]])
        out.append(['list', [['list', [f]]]])
    for dt in INT_DTYPES + FLOAT_DTYPES + ['bool']:
        zero = False if dt == 'bool' else (fhex(0.0) if dt in FLOAT_DTYPES else 0)
        out += [['array', dt, [0], []], ['array', dt, [1], [zero]], ['array', dt, [], [zero]],
                ['array', dt, [1, 1], [zero]], ['array', dt, [1, 0], []], ['array', dt, [3, 1], [zero] * 3],
                ['array', dt, [1, 3], [zero] * 3]]
    return out


def scale_values():
    """R6: magnitudes from denormals to the largest finite values, integers beyond 2^53 and 2^63"""
    fl = [1e-300, 1e300, 5e-324, 2.2250738585072014e-308, 1.7976931348623157e308, 1e-12, 1e12, 1e-150, 1e150,
          float('inf'), float('-inf'), 2.0 ** 53, 2.0 ** 53 + 2, 1 / 3.0, 1e22, 1e23]
    fl += [-x for x in fl[:9]]
    ints = [2 ** 53, 2 ** 53 + 1, 2 ** 63 - 1, 2 ** 63, 2 ** 64 - 1, 2 ** 64, -2 ** 63, -2 ** 63 - 1, 10 ** 30, -10 ** 30,
            2 ** 200]
    out = [['float', fhex(x)] for x in fl] + [['int', i] for i in ints]
    out += [['npfloat', 'float64', fhex(x)] for x in fl]
    out += [['npfloat', 'float32', fhex(float(np.float32(x)))] for x in (1e-45, 1e-38, 3.4028235e38, 1e-12, 1e12)]
    out += [['npfloat', 'float16', fhex(float(np.float16(x)))] for x in (6e-8, 6.1e-5, 65504.0)]
    out += [['npint', 'int64', 2 ** 63 - 1], ['npint', 'int64', -2 ** 63], ['npint', 'uint64', 2 ** 64 - 1],
            ['npint', 'int64', 2 ** 53 + 1], ['npint', 'uint64', 2 ** 63]]
    out += [['array', 'float64', [len(fl)], [fhex(x) for x in fl]],
            ['array', 'float64', [2, 3], [fhex(x) for x in (1e-300, 1e300, 5e-324, -1e300, 1e-12, 1e12)], 'F'],
            ['array', 'int64', [3], [2 ** 63 - 1, -2 ** 63, 2 ** 53 + 1]],
            ['array', 'uint64', [2], [2 ** 64 - 1, 2 ** 63]],
            ['list', [['float', fhex(1e-300)], ['int', 2 ** 64], ['float', fhex(1e300)]]],
            ['set', [['float', fhex(5e-324)], ['int', 2 ** 63], ['float', fhex(float('inf'))]]]]
    return out


def robustness_specs(values):
    """every value as a bare value, a fixed parameter, an unpacked parameter with
    the first child (unpack index 0), a MISC result value and, for numbers, SUM /
    RATIO updates"""
    for v in values:
        yield 'value', v
        yield 'params', {'params': [['p', v], ['q', ['int', 0]]], 'unpack': [], 'child': None, 'via_add': True}
        if v[0] in ('list', 'set', 'str', 'array') and len_of(v) > 0:
            yield 'params', {'params': [['p', v], ['q', ['list', [['int', 0], ['int', 1]]]]], 'unpack': ['p', 'q'],
                             'child': 0, 'via_add': False}
        if v[0] != 'array' or True:
            yield 'result', {'name': 'm', 'type': 2, 'acc': True, 'choice_num': None, 'history': [[v, None]]}
        num = v[0] in ('int', 'float', 'npint', 'npfloat') and finite(v)
        if num and abs(float(plain(build(v)))) < 1e150:
            yield 'result', {'name': 's', 'type': 0, 'acc': True, 'choice_num': None, 'history': [[v, None], [v, None]]}
            yield 'result', {'name': 'r', 'type': 1, 'acc': False, 'choice_num': None,
                             'history': [[v, ['int', 3]], [['int', 0], ['int', 1]]]}


def boundary_sims():
    """R5 for the fields of SimulationResults itself"""
    ps = {'params': [['snr', ['int', 0]], ['e', ['str', '']], ['z', ['float', fhex(0.0)]], ['f', ['bool', False]],
                     ['n', ['none']], ['l', ['list', []]]], 'unpack': [], 'child': None, 'via_add': False}
    never = [[{'name': 'r%d' % t, 'type': t, 'acc': acc, 'choice_num': (1 if t == 3 else None), 'history': []}]
             for t in range(4) for acc in (False, True)]
    zero_updates = [[{'name': 'z0', 'type': 0, 'acc': True, 'choice_num': None, 'history': [[['int', 0], None]]}],
                    [{'name': 'z1', 'type': 1, 'acc': True, 'choice_num': None, 'history': [[['int', 0], ['int', 1]]]}],
                    [{'name': 'z2', 'type': 2, 'acc': False, 'choice_num': None, 'history': [[['str', ''], None]]}],
                    [{'name': 'z3', 'type': 3, 'acc': True, 'choice_num': 1, 'history': [[['int', 0], None]]}],
                    [{'name': '', 'type': 2, 'acc': False, 'choice_num': None, 'history': [[['bool', False], None]]}]]
    out = []
    for rr in (['int', 0], ['list', []], ['list', [['int', 0]]], ['none'], ['int', 1]):
        for cr in (0, -1, 1):
            for prev in (None, '', 'x'):
                out.append({'params': ps, 'results': never + zero_updates, 'runned_reps': rr, 'current_rep': cr,
                            'template': 'b_{snr}_{e}_{f}_%d_%d' % (len(out), cr + 1), 'prev_filename': prev})
    ps0 = {'params': [['snr', ['list', [['int', 0], ['int', 1]]]], ['M', ['array', 'int64', [1], [0]]]],
           'unpack': ['snr', 'M'], 'child': 0, 'via_add': False}
    out.append({'params': ps0, 'results': never, 'runned_reps': ['int', 0], 'current_rep': 0,
                'template': 'child0_{snr}', 'prev_filename': None})
    return out


def robustness_pass(ctx, b):
    """deterministic R5 / R6 enumerations through the correspondence and the oracles"""
    for tag, values in (('R5:boundary', boundary_values()), ('R6:scale', scale_values())):
        for kind, spec in robustness_specs(values):
            if kind == 'value':
                corr_value(ctx, b, spec)
                run_value_oracles(ctx, spec)
            elif kind == 'params':
                corr_params(ctx, b, spec)
                run_params_oracles(ctx, spec)
            else:
                corr_result(ctx, b, spec)
                run_oracle(ctx, 'Result.roundtrip', spec)
            ctx.branch(tag)
        b.flush()
    for ss in boundary_sims():
        corr_sim(ctx, b, ss)
        run_oracle(ctx, 'SimulationResults.roundtrip', ss)
        ctx.branch('R5:boundary-sim')
    b.flush()


def heterogeneous_values():
    """R10: collections whose elements differ in dtype, shape or Python type"""
    i16 = ['array', 'int16', [2], [1, 2]]
    f32 = ['array', 'float32', [2], [fhex(0.5), fhex(1.5)]]
    f64_2d = ['array', 'float64', [2, 2], [fhex(x) for x in (1, 2, 3, 4)], 'F']
    u8_0d = ['array', 'uint8', [], [7]]
    bl = ['array', 'bool', [3], [True, False, True]]
    lst = ['list', [['int', 1], ['float', fhex(2.5)]]]
    return [
        ['list', [i16, f32]], ['list', [f32, i16]], ['list', [i16, f64_2d, u8_0d, bl]], ['list', [lst, i16]],
        ['list', [i16, lst, ['set', [['int', 1], ['str', 'a']]], ['str', 'x'], ['none']]],
        ['list', [['int', 1], ['float', fhex(1.0)], ['bool', True], ['npint', 'int8', 1], ['npfloat', 'float16', fhex(1.0)]]],
        ['list', [['float', fhex(0.5)], ['int', 2 ** 70], ['npint', 'uint64', 2 ** 64 - 1]]],
        ['list', [['list', [i16]], ['list', [['list', [f32, ['int', 3]]]]]]],
        ['set', [['int', 2], ['float', fhex(0.5)], ['str', '2'], ['none'], ['npint', 'int16', 3], ['bool', False]]],
        ['list', [['array', 'float64', [0], []], ['array', 'int64', [0, 2], []], ['list', []]]],
    ]


def count_cases():
    """R14: 257 / 258 / 300 parameters, results, choices, and 2^16+1 elements"""
    n = 2 ** 16 + 1
    many_params = {'params': [['p%03d' % i, ['int', i]] for i in range(257)] +
                             [['u', ['list', [['int', k] for k in range(258)]]]],
                   'unpack': ['u'], 'child': 257, 'via_add': False, 'post_ops': [[0, 'set', 'p256', ['int', -1]]]}
    many_results = [[{'name': 'r%03d' % i, 'type': i % 3, 'acc': False, 'choice_num': None,
                      'history': [[['int', i], (['int', 300] if i % 3 == 1 else None)]]}] for i in range(258)]
    big_choice = {'name': 'c', 'type': 3, 'acc': True, 'choice_num': 300,
                  'history': [[['int', (i * 257) % 300], None] for i in range(600)] + [[['npint', 'uint16', 299], None]]}
    long_choice = {'name': 'c', 'type': 3, 'acc': False, 'choice_num': 2, 'history': [[['int', 1], None]] * n}
    long_list = ['list', [['int', i % 300] for i in range(n)]]
    long_array = ['array', 'int32', [n], [i % 1000 for i in range(n)]]
    sim = {'params': many_params, 'results': many_results, 'runned_reps': ['list', [['int', i] for i in range(300)]],
           'current_rep': 257, 'template': 'many_{p000}_{p256}', 'prev_filename': None}
    return {'values': [long_list, long_array], 'params': [many_params], 'results': [big_choice, long_choice],
            'sims': [sim]}


def r8_14_pass(ctx, b, thorough):
    """deterministic cases of the classes R8-R14 through the correspondence and the oracles"""
    for spec in heterogeneous_values():
        corr_value(ctx, b, spec)
        run_value_oracles(ctx, spec)
        ps = {'params': [['h', spec], ['k', ['int', 1]]], 'unpack': (['h'] if spec[0] == 'list' else []),
              'child': (1 if spec[0] == 'list' else None), 'via_add': True}
        corr_params(ctx, b, ps)
        run_params_oracles(ctx, ps)
        rs = {'name': 'm', 'type': 2, 'acc': True, 'choice_num': None, 'history': [[spec, None], [['int', 0], None]]}
        corr_result(ctx, b, rs)
        run_oracle(ctx, 'Result.roundtrip', rs)
        ctx.branch('R10:heterogeneous-collection')
    b.flush()
    cc = count_cases()
    for spec in cc['values']:
        corr_value(ctx, b, spec)
        run_oracle(ctx, 'json.roundtrip', {'v': spec}, key=('count', spec[0]))
    for ps in cc['params']:
        corr_params(ctx, b, ps)
        run_oracle(ctx, 'SimulationParameters.roundtrip', ps, key='count-params')
    for rs in cc['results'][:(2 if thorough else 1)] + ([] if thorough else cc['results'][1:]):
        corr_result(ctx, b, rs)
        run_oracle(ctx, 'Result.roundtrip', rs, key=('count-result', len(rs['history'])))
    for ss in cc['sims']:
        corr_sim(ctx, b, ss)
        run_oracle(ctx, 'SimulationResults.roundtrip', ss, key='count-sim')
        run_oracle(ctx, 'SimulationResults.insertion-order', ss, key='count-sim-order')
    ctx.branch('R14:counts-257-258-300-65537')
    b.flush()


def sizes(ctx):
    if ctx.tier == 'quick':
        return dict(values=5000, params=2000, results=2500, sims=600, fnames=1200, orc=1200)
    return dict(values=125000, params=50000, results=65000, sims=12000, fnames=25000, orc=23000)


def guarded(ctx, call, wrap, fn, b, spec):
    """run one correspondence case; an exception raised by the library while the
    case is built or observed is a failing input of the property (reported with
    the oracle `call`, which replays it), never a harness error"""
    try:
        with time_limit(30.0):
            fn(ctx, b, spec)
    except (core.Infra, NotSendable):
        raise
    except Exception as e:
        ctx.branch('library-exception:' + call)
        ctx.fail(call, 'exception:' + type(e).__name__, wrap(spec), '%s: %s' % (type(e).__name__, str(e)[:300]))


def gen_guarded(ctx, call, gen, rng):
    """generators build real objects too (children, templates)"""
    try:
        with time_limit(30.0):
            return gen(rng)
    except Exception as e:
        ctx.branch('library-exception:' + call)
        ctx.fail(call, 'exception-while-generating:' + type(e).__name__, {'note': 'generator', 'error': repr(e)[:300]},
                 '%s: %s' % (type(e).__name__, str(e)[:300]))
        return None


def correspondence(ctx):
    n = sizes(ctx)
    rng = ctx.rng.fork('corr')
    b = Batch(ctx)
    ident = lambda x: x
    for spec in CORPUS_VALUES:
        guarded(ctx, 'json.roundtrip', lambda v: {'v': v}, corr_value, b, spec)
    for _ in range(n['values']):
        guarded(ctx, 'json.roundtrip', lambda v: {'v': v}, corr_value, b, gen_value(rng, 3))
        if len(b.lines) > 4000:
            b.flush()
    b.flush()
    for ps in corpus_params():
        guarded(ctx, 'SimulationParameters.roundtrip', ident, corr_params, b, ps)
    for _ in range(n['params']):
        ps = gen_guarded(ctx, 'SimulationParameters.roundtrip', gen_params, rng)
        if ps is not None:
            guarded(ctx, 'SimulationParameters.roundtrip', ident, corr_params, b, ps)
        if len(b.lines) > 3000:
            b.flush()
    for _ in range(max(20, n['params'] // 40)):
        corr_params_bad_ops(ctx, b, rng)
    b.flush()
    for rs in corpus_results():
        guarded(ctx, 'Result.roundtrip', ident, corr_result, b, rs)
    for _ in range(n['results']):
        guarded(ctx, 'Result.roundtrip', ident, corr_result, b, gen_result(rng))
        if len(b.lines) > 3000:
            b.flush()
    for _ in range(max(20, n['results'] // 20)):
        corr_choice_errors(ctx, b, rng)
    b.flush()
    for _ in range(n['sims']):
        ss = gen_guarded(ctx, 'SimulationResults.roundtrip', gen_sim, rng)
        if ss is not None:
            guarded(ctx, 'SimulationResults.roundtrip', ident, corr_sim, b, ss)
        if len(b.lines) > 1000:
            b.flush()
    b.flush()
    for _ in range(n['fnames']):
        corr_filename(ctx, b, rng)
    b.flush()
    robustness_pass(ctx, b)
    r8_14_pass(ctx, b, ctx.tier == 'thorough')
    r1516().corr_pass(ctx, b)
    if ctx.tier == 'thorough':
        small_scope(ctx, b)


def small_scope(ctx, b):
    """thorough tier: complete enumeration of small sub-spaces"""
    import itertools
    # every CHOICE history of length <= 4 over <= 3 choices (negative indexes included), both modes
    for n in (1, 2, 3):
        idx = list(range(-n, n))
        for ln in range(0, 5 if n < 3 else 4):
            for hist in itertools.product(idx, repeat=ln):
                for acc in (False, True):
                    rs = {'name': 'c', 'type': 3, 'acc': acc, 'choice_num': n,
                          'history': [[['int', i], None] for i in hist]}
                    corr_result(ctx, b, rs)
                    ctx.branch('small-scope:choice')
        b.flush()
    # every real dtype x a fixed family of shapes (0-d, empty, zero-sized in each position, up to 3-d)
    shapes = [[], [0], [1], [3], [0, 2], [2, 0], [1, 1], [2, 3], [0, 0], [0, 2, 2], [2, 0, 2], [2, 2, 0], [2, 1, 2]]
    for dt in INT_DTYPES + FLOAT_DTYPES + ['bool']:
        for shape in shapes:
            size = 1
            for d in shape:
                size *= d
            if dt == 'bool':
                flat = [bool(i % 2) for i in range(size)]
            elif dt in FLOAT_DTYPES:
                flat = [fhex((i - 2) / 4.0) for i in range(size)]
            else:
                flat = [i + 1 for i in range(size)]
            spec = ['array', dt, shape, flat]
            corr_value(ctx, b, spec)
            corr_params(ctx, b, {'params': [['H', spec]], 'unpack': [], 'child': None})
            run_value_oracles(ctx, spec)
            run_params_oracles(ctx, {'params': [['H', spec]], 'unpack': [], 'child': None})
            run_oracle(ctx, 'SimulationResults.filename',
                       {'template': 'res_{snr}.json', 'params': [['snr', ['int', 5]], ['H', spec]], 'field': 'snr',
                        'other': ['int', 6]})
            ctx.branch('small-scope:array')
    b.flush()
    # every numpy scalar type at its extreme values, alone / in a list / in a set / as an unpacked child value
    for dt in INT_DTYPES:
        info = np.iinfo(dt)
        for v in (int(info.min), int(info.max), 0):
            for wrap in (lambda s: s, lambda s: ['list', [s]], lambda s: ['set', [s]]):
                spec = wrap(['npint', dt, v])
                corr_value(ctx, b, spec)
                run_oracle(ctx, 'json.roundtrip', {'v': spec})
    for dt in FLOAT_DTYPES:
        info = np.finfo(dt)
        for v in (float(info.max), float(info.tiny), float(info.eps), -float(info.max), 0.0, -0.0, float('inf'),
                  float(info.smallest_subnormal)):
            for wrap in (lambda s: s, lambda s: ['list', [s]], lambda s: ['set', [s]]):
                spec = wrap(['npfloat', dt, fhex(v)])
                corr_value(ctx, b, spec)
                run_oracle(ctx, 'json.roundtrip', {'v': spec})
    b.flush()


def oracle_pass(ctx, scale=1.0):
    n = sizes(ctx)
    k = int(n['orc'] * scale)
    rng = ctx.rng.fork('oracles')
    r1516()
    # minimised past failures (the defects repaired by the C17 fix: commits) run first
    cdir = os.path.join(core.VERIF, 'corpus', 'c17')
    if os.path.isdir(cdir):
        for fn in sorted(os.listdir(cdir)):
            if fn.endswith('.json'):
                with open(os.path.join(cdir, fn)) as f:
                    rec = json.load(f)
                run_oracle(ctx, rec['call'], rec['case'], key=('corpus', fn))
                ctx.branch('corpus')
    for spec in CORPUS_VALUES:
        run_value_oracles(ctx, spec)
    for _ in range(k * 2):
        spec = gen_value(rng, 3)
        if 'npfloat:longdouble' in spec_features(spec):
            continue
        run_value_oracles(ctx, spec, nontrivial=spec[0] not in ('none', 'bool', 'int', 'float', 'str'))
    if _longdouble_is_wider():
        run_oracle(ctx, 'json.roundtrip.longdouble', {'v': ['npfloat', 'longdouble', '0.1']})
    for ps in corpus_params():
        run_params_oracles(ctx, ps)
    for _ in range(k):
        ps = gen_guarded(ctx, 'SimulationParameters.roundtrip', gen_params, rng)
        if ps is None or 'npfloat:longdouble' in _params_features(ps):
            continue
        run_params_oracles(ctx, ps, nontrivial=len(ps['params']) > 0)
    run_oracle(ctx, 'SimulationParameters.roundtrip.reserved-name', {'name': '_is_set', 'v': ['int', 3]})
    run_oracle(ctx, 'SimulationParameters.roundtrip.reserved-name', {'name': '_is_numpy_array', 'v': ['bool', True]})
    for rs in corpus_results():
        run_oracle(ctx, 'Result.roundtrip', rs)
    for _ in range(k):
        rs = gen_result(rng)
        run_oracle(ctx, 'Result.roundtrip', rs, nontrivial=len(rs['history']) > 0)
    for _ in range(max(10, k // 4)):
        ss = gen_guarded(ctx, 'SimulationResults.roundtrip', gen_sim, rng)
        if ss is None or 'npfloat:longdouble' in _params_features(ss['params']):
            continue
        run_oracle(ctx, 'SimulationResults.roundtrip', ss)
    # file names
    for _ in range(k):
        params = [['p%d' % i, gen_scalar(rng)] for i in range(rng.randint(1, 3))]
        fld = rng.choice(params)[0]
        vs = dict((a, c) for a, c in params)[fld]
        other = gen_scalar(rng)
        for _try in range(20):
            if other[0] == vs[0]:
                break
            other = gen_scalar(rng)
        tpl = 'res' + ''.join('_{%s}' % nme for nme, _ in params if nme == fld or rng.chance(0.5)) + rng.choice(['.json', '.pickle', ''])
        if rng.chance(0.5):
            arr = gen_array(rng)
            params.append(['arr', arr])
            if rng.chance(0.3) and len(arr[2]) == 1:
                tpl = tpl.replace('res', 'res_{arr}', 1)    # rendered through the range representation
        run_oracle(ctx, 'SimulationResults.filename', {'template': tpl, 'params': params, 'field': fld, 'other': other})
    for arr in (['array', 'float64', [2, 2], [fhex(1.0)] * 4], ['array', 'float64', [0], []], ['array', 'int64', [], [5]],
                ['array', 'int64', [5], [1, 2, 3, 4, 5]]):
        run_oracle(ctx, 'SimulationResults.filename', {'template': 'res_{snr}.json', 'params': [['snr', ['int', 5]], ['H', arr]],
                                                       'field': 'snr', 'other': ['int', 6]})
    run_oracle(ctx, 'SimulationResults.filename.set', {'items': [['int', 0], ['int', 8]]})
    # R3 / R4 / R7 scenarios
    for ss in boundary_sims()[::9]:
        run_oracle(ctx, 'SimulationResults.robustness', ss)
        ctx.branch('R3R4R7:robustness-scenarios')
    for _ in range(max(30, k // 8)):
        ss = gen_guarded(ctx, 'SimulationResults.robustness', gen_sim, rng)
        if ss is None or 'npfloat:longdouble' in _params_features(ss['params']):
            continue
        run_oracle(ctx, 'SimulationResults.robustness', ss)
        ctx.branch('R3R4R7:robustness-scenarios')
    # R8 / R12 / R13 scenarios
    for rs in corpus_results():
        run_oracle(ctx, 'equivalent-argument-forms', rs)
    for _ in range(max(60, k // 4)):
        run_oracle(ctx, 'equivalent-argument-forms', gen_result(rng))
        ctx.branch('R8:argument-forms')
    for _ in range(max(25, k // 12)):
        ss = gen_guarded(ctx, 'equivalent-argument-forms', gen_sim, rng)
        if ss is None or 'npfloat:longdouble' in _params_features(ss['params']):
            continue
        run_oracle(ctx, 'equivalent-argument-forms', ss)
        ctx.branch('R8:argument-forms-sim')
        run_oracle(ctx, 'SimulationResults.insertion-order', ss)
        ctx.branch('R12:insertion-order')
    for dt in ('int64', 'float64', 'int16', 'float32'):
        run_oracle(ctx, 'SimulationResults.combined', {'a': [1, 2, 3], 'b': [2, 4, 6, 300], 'dtype': dt, 'M': 4})
        ctx.branch('R13:combined-object')
    run_oracle(ctx, 'SimulationParameters.roundtrip.tuple', {'items': [['int', 1], ['int', 2]]})
    for kind in ('scalar', 'npscalar', 'array'):
        run_oracle(ctx, 'json.rejects-complex', {'kind': kind})
    if scale == 1.0:
        r1516().oracle_pass(ctx)        # R15 / R16


def check(ctx):
    ctx.rule = ('type-directed seeded specs (depth<=3): Python/numpy scalars of every width, strings incl. non-BMP and '
                'escapes, empty/nested lists, sets, 0-3-d arrays incl. zero-sized, every real dtype; parameter objects '
                'built by SimulationParameters.create/set_unpack_parameter, children and grandchildren from '
                'get_unpacked_params_list; results built by real update() histories of all four types; '
                'SimulationResults with several results per name, runned_reps, current_rep; .json/.pickle/no-extension '
                'files with parameter templates. non-trivial = distinct spec that is a container / numpy scalar / '
                'has >=1 parameter / >=1 update')
    core.prove(ctx, MODULE, generated=['C17Fields'], drivers=[DRIVER], scratch=ctx.scratch)
    ctx.required_branches = ['R8:argument-forms', 'R8:argument-forms-sim', 'R10:heterogeneous-collection',
                             'R12:insertion-order', 'R13:combined-object', 'R14:counts-257-258-300-65537',
                             'params:child-own-values-differ-from-original', 'params:post-op:set:child',
                             'params:post-op:set:original', 'params:post-op:remove:child',
                             'params:post-op:remove:original', 'params:post-op:mark:child',
                             'params:post-op:rejected', 'R5:boundary', 'R5:boundary-sim', 'R6:scale', 'R3R4R7:robustness-scenarios',
                             'R4:rejected-save-state-compared', 'feature:array:non-C-memory-order', 'feature:array:layout=F', 'feature:array:layout=T',
                             'feature:array:layout=strided', 'feature:array:layout=reversed',
                             'feature:array:layout=broadcast', 'params:array-non-C-memory-order',
                             'feature:npfloat:float32', 'feature:npint:int16', 'feature:array:zero-size-ndim>=2',
                             'feature:set', 'params:child', 'params:unpacked-marks', 'params:depth=2',
                             'result:SUMTYPE', 'result:RATIOTYPE', 'result:MISCTYPE', 'result:CHOICETYPE',
                             'result:never-updated', 'result:accumulate', 'sim:current_rep-set', 'file:.json',
                             'file:.pickle', 'file:none', 'template:missing-key'] + r1516().REQUIRED
    os.environ.setdefault('VERIF_SCRATCH', ctx.scratch)
    import warnings
    with warnings.catch_warnings():
        warnings.simplefilter('ignore')
        try:
            correspondence(ctx)
        except core.Infra as e:
            if not ctx.broken:
                raise
            ctx.notes.append('correspondence skipped: %s' % e)
            ctx.required_branches = []
        oracle_pass(ctx)
    ctx.sample({'call': 'json.roundtrip', 'v': ['list', [['npfloat', 'float32', fhex(1.5)], ['set', [['npint', 'int16', 3]]]]]})
    ctx.sample({'call': 'SimulationParameters.roundtrip', 'case': corpus_params()[1]})
    ctx.sample({'call': 'Result.roundtrip', 'case': corpus_results()[9]})
    ctx.sample({'call': 'model line', 'request': 'json L3 i1 nf32:1/2 S2 ni1:16:3 s97', 'reply': 'wf=1 ok L3 i1 f1/2 S2 i3 s97'})


def search(ctx):
    """deeper failing-input search, used when a proof / correspondence broke"""
    import warnings
    with warnings.catch_warnings():
        warnings.simplefilter('ignore')
        oracle_pass(ctx, scale=4.0)
        r1516().search_pass(ctx, 300)
