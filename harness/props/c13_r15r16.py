"""C13 — robustness classes R15 / R16 (helper module of harness/props/c13.py; not a property module).

R15  distinct values that are merely close.  The path-loss / antenna code compares, thresholds and stores values
     in four places: the zero test of the negative-loss policy (`PL < 0`), the Okumura-Hata setter guards
     (`value < 150.0 or value > 1500` ...), the large-city frequency switch (`fc > 300`), and the setters that
     recompute a derived constant (`_C`).  A tolerance-based comparison (`np.isclose`, default atol 1e-8 /
     rtol 1e-5), a rounded key or an absolute threshold identifies different legitimate values there: losses
     of +-1e-9 dB, linear path losses of 1e-9 ... 1e-15, carrier frequencies differing by a relative 1e-6,
     adjacent doubles at a guard bound.  Every oracle below is model-free: it never evaluates a path-loss
     formula, it uses (a) a freshly built object given exactly that value, (b) the LOCAL SENSITIVITY relation
     — the change of the answer between x and x(1+delta), delta in {1e-6, 3e-9}, is the change between x and
     x(1+1e-3) scaled by the ratio of the steps (all queries are smooth, most are affine in log x), which is
     false as soon as two close values are identified — and (c) the documented thresholds themselves.
R16  argument identity and buffer reuse.  The caller keeps ONE array (list, 0-d array, dict of plot options) and
     refills it in place before every call, passes the same array object in two roles (distance and wall
     count; two methods; two objects), modifies it right after the call, or passes an equal-content copy.  The
     k-th answer must be, bit for bit, the answer of a freshly built object on a copy of the contents at call
     time; the argument is left as it was; earlier answers never change.

All comparisons are relative to the magnitude of the operands (a dB value is a logarithm: the noise allowance
NOISE * max(1, |dB|) is a relative 2e-12 of the linear quantity); near-ties of the policy decision are generated
from the zero-loss distance measured on the object, with a margin of >= 1e3 rounding errors.
"""
import math
import warnings

import numpy as np

from harness import core  # noqa: F401


def P():
    from harness.props import c13
    return c13


NOISE = 2e-12          # rounding noise of a dB value / of the log of a positive linear value, relative to max(1, |.|)
SEPS = [1e-6, 3e-9]    # relative separations far above rounding noise, far below np.isclose's rtol = 1e-5
FAR = 1e-3             # the reference step


def ulp_up(v):
    return float(np.nextafter(v, math.inf))


def ulp_dn(v):
    return float(np.nextafter(v, -math.inf))


def sep_class(x0, x1):
    """failure-class fragment computed from the two values"""
    if x0 == x1:
        return 'same'
    r = abs(x1 - x0) / max(abs(x0), abs(x1))
    tiny = ':tiny' if max(abs(x0), abs(x1)) < 1e-8 else ''
    if x1 in (ulp_up(x0), ulp_dn(x0)):
        return 'adjacent-doubles' + tiny
    if r < 1e-11:
        return 'beyond-12th-digit' + tiny
    if r < 1e-7:
        return 'rel<1e-7' + tiny
    if r < 1e-4:
        return 'rel<1e-4' + tiny
    return 'far' + tiny


def _ident(x):
    return x


def _tx(q):
    return math.log if q in ('db', 'lin', 'wl', 'param', 'linear2dB') else _ident


def _ty(q):
    return _ident if q in ('db', 'param', 'linear2dB') else math.log


def _slope(q, x0, y0, x1, y1):
    try:
        return (_ty(q)(y1) - _ty(q)(y0)) / (_tx(q)(x1) - _tx(q)(x0))
    except (ValueError, ZeroDivisionError, OverflowError):
        return float('nan')


def _noise(q, y0, x0, x1):
    try:
        return NOISE * max(1.0, abs(_ty(q)(y0))) / abs(_tx(q)(x1) - _tx(q)(x0))
    except (ValueError, ZeroDivisionError):
        return float('inf')


def sensitivity_ok(q, x0, y0, xc, yc, xf, yf):
    """(checked, ok, detail): is the change x0 -> xc the far change x0 -> xf scaled by the steps?"""
    r_far = _slope(q, x0, y0, xf, yf)
    r_c = _slope(q, x0, y0, xc, yc)
    nz = _noise(q, y0, x0, xc)
    if not (abs(r_far) > 0.0) or not math.isfinite(r_far):
        return False, True, ''
    if not (nz < 0.2 * abs(r_far)):
        return False, True, ''           # the expected change is not far enough above the rounding noise
    ok = abs(r_c - r_far) <= 0.05 * abs(r_far) + nz
    return True, bool(ok), ('answer(%r) = %r, answer(%r) = %r: change per unit step %r; the step to %r '
                            '(answer %r) gives %r' % (x0, y0, xc, yc, r_c, xf, yf, r_far))


def _conv():
    from pyphysim.util import conversion
    return conversion


def _q(o, q, arg, nw):
    if q in ('dB2Linear', 'linear2dB'):
        return getattr(o, q)(arg)
    return P().query_call(o, q, arg, nw)


def _fresh(case):
    if case['kind'] == 'conv':
        return _conv()                      # the two dB conversions are module-level functions
    return P().build(case)[0]


def _set_small(o, kind, flag):
    if kind not in ('ant', 'omni', 'conv'):
        o.handle_small_distances_bool = bool(flag)


# ================================================================== R15
def _close_query(case):
    """close-but-distinct ARGUMENT values of one query on one (long-lived) object"""
    kind, q, nw = case['kind'], case['query'], case.get('nw')
    x0 = float(case['x'])
    o = _fresh(case)
    _set_small(o, kind, True)
    pre = 'R15:%s:query:%s' % (kind, q)
    xf = x0 * (1.0 + FAR)
    try:
        y0, yf = float(_q(o, q, x0, nw)), float(_q(o, q, xf, nw))
    except Exception as e:
        return pre + ':exception', '%s(%r): %r' % (q, x0, e)
    if kind == 'conv':
        e0 = 10.0 ** (x0 / 10.0) if q == 'dB2Linear' else 10.0 * math.log10(x0)
        if not abs(y0 - e0) <= 1e-13 * (abs(e0) if q == 'dB2Linear' else max(abs(e0), 1.0)):
            return pre + ':value', '%s(%r) = %r, expected %r' % (q, x0, y0, e0)
    clamp_val = {'db': 0.0, 'lin': 1.0}.get(q)
    if q == 'g':
        clamp_val = float(_q(o, q, 180.0, nw))          # the floor of the sector pattern
    if y0 == clamp_val or yf == clamp_val:
        return None                                      # clamped region: the answer is constant there
    close = []
    for s in SEPS:
        close += [x0 * (1.0 + s), x0 * (1.0 - s)]
    near = [ulp_up(x0), ulp_dn(x0), x0 * (1.0 + 1.3e-12)]
    seen = {x0: y0}
    for xc in close + near:
        try:
            yc = float(_q(o, q, xc, nw))
            yfresh = float(_q(_fresh_like(case, True), q, xc, nw))
        except Exception as e:
            return '%s:%s:exception' % (pre, sep_class(x0, xc)), '%s(%r): %r' % (q, xc, e)
        seen[xc] = yc
        if yc != yfresh and not (math.isnan(yc) and math.isnan(yfresh)):
            return '%s:%s:differs-from-fresh-object' % (pre, sep_class(x0, xc)), (
                '%s(%r) = %r on an object that answered %s(%r) before; a fresh object gives %r' % (q, xc, yc, q, x0, yfresh))
        if xc in close:
            chk, ok, det = sensitivity_ok(q, x0, y0, xc, yc, xf, yf)
            if chk and not ok:
                return '%s:%s:close-values-identified' % (pre, sep_class(x0, xc)), det
        else:
            r_far = _slope(q, x0, y0, xf, yf)
            try:
                dy = abs(_ty(q)(yc) - _ty(q)(y0))
                lim = 1.05 * abs(r_far) * abs(_tx(q)(xc) - _tx(q)(x0)) + 4 * NOISE * max(1.0, abs(_ty(q)(y0)))
            except ValueError:
                dy, lim = float('nan'), 0.0
            if not dy <= lim:
                return '%s:%s:jump' % (pre, sep_class(x0, xc)), '%s(%r) = %r, %s(%r) = %r' % (q, x0, y0, q, xc, yc)
    # affine in log x: one decade further the change is ln(10) far-steps (tiny values 4e-12 / 4e-13 are as
    # different from each other as 4 and 0.4)
    if q in ('db', 'lin', 'wl', 'linear2dB'):
        for xd in (x0 / 10.0, x0 * 10.0):
            try:
                yd = float(_q(o, q, xd, nw))
            except Exception as e:
                return pre + ':decade:exception', '%s(%r): %r' % (q, xd, e)
            if yd == clamp_val or not (0.0 < abs(yd) < 1e300):
                continue
            r_far, r_d = _slope(q, x0, y0, xf, yf), _slope(q, x0, y0, xd, yd)
            if not abs(r_d - r_far) <= 0.01 * abs(r_far) + _noise(q, y0, x0, xd):
                return '%s:decade%s' % (pre, ':tiny' if x0 < 1e-8 else ''), (
                    '%s(%r) = %r and %s(%r) = %r: slope per e-fold %r, near %r it is %r' % (q, x0, y0, q, xd, yd, r_d, x0, r_far))
    # the array path, values interleaved and repeated, positional
    order = [x0] + close + [x0] + near + close[::-1]
    for mk in (lambda v: np.array(v, dtype=float), lambda v: np.array(v, dtype=float).reshape(2, -1), list):
        vals = order if len(order) % 2 == 0 else order + [x0]
        if mk is list and q not in ('db', 'lin'):
            continue
        try:
            r = np.asarray(_q(o, q, mk(vals), nw), dtype=float).ravel()
        except Exception as e:
            return pre + ':array:exception', '%s(%r): %r' % (q, vals, e)
        if r.shape != (len(vals),):
            return pre + ':array:shape', 'result shape %r for %d values' % (r.shape, len(vals))
        for i, (xv, g) in enumerate(zip(vals, r.tolist())):
            e = seen[xv]
            try:
                bad = not abs(_ty(q)(g) - _ty(q)(e)) <= 4 * NOISE * max(1.0, abs(_ty(q)(e)))
            except ValueError:
                bad = True
            if bad:
                return '%s:array:%s:entry-differs-from-scalar-query' % (pre, sep_class(x0, xv)), (
                    'entry %d (value %r) of %s(%r) is %r, the scalar query gives %r' % (i, xv, q, vals, g, e))
    return None


def _fresh_like(case, small):
    o = _fresh(case)
    _set_small(o, case['kind'], small)
    return o


PARAM_RANGE = {'oh': {'fc': (150.0, 1500.0), 'hbs': (30.0, 200.0), 'hms': (1.0, 10.0)}}


def _with_param(case, name, v):
    """a freshly built object with the history of the case and then exactly `name = v`"""
    c = dict(case)
    c['hist'] = list(case.get('hist', [])) + [[name, v]]
    o = _fresh(c)
    _set_small(o, case['kind'], True)
    return o


def _answers(o, ds, nw):
    with warnings.catch_warnings():
        warnings.simplefilter('ignore')
        return [float(P().call_db(o, float(d), nw)) for d in ds] + \
            [float(x) for x in np.asarray(P().call_db(o, np.array(ds, dtype=float), nw), dtype=float).ravel()]


def _close_setter(case):
    """a setter called with a close-but-different value takes effect: the object then answers exactly like a
    fresh object given that value, the getter returns that value, and the answers move by the local sensitivity"""
    kind, nw, name = case['kind'], case.get('nw'), case['param']
    v0 = float(case['v'])
    ds = [float(x) for x in case['d']]
    pre = 'R15:%s:setter.%s' % (kind, name)
    o = _fresh(case)
    _set_small(o, kind, True)
    ap = P().apply_setter
    if ap(o, name, v0) != 'ok':
        return None
    vf = v0 * (1.0 + FAR)
    y0 = _answers(o, ds, nw)
    yf = _answers(_with_param(case, name, vf), ds, nw)
    if getattr(_with_param(case, name, vf), name) != vf:
        return None                                             # the far value is outside the accepted range
    close = []
    for s in SEPS:
        close += [v0 * (1.0 + s), v0 * (1.0 - s)]
    near = [ulp_up(v0), ulp_dn(v0), v0 * (1.0 + 1.3e-12)]
    for vc in close + near:
        r = ap(o, name, vc)
        if r != 'ok':
            return '%s:%s:rejected' % (pre, sep_class(v0, vc)), 'setter %s = %r: %s' % (name, vc, r)
        got = getattr(o, name)
        if not (got == vc):
            return '%s:%s:getter' % (pre, sep_class(v0, vc)), 'after %s = %r (was %r) the getter returns %r' % (name, vc, v0, got)
        yc = _answers(o, ds, nw)
        yfresh = _answers(_with_param(case, name, vc), ds, nw)
        if yc != yfresh:
            return '%s:%s:differs-from-fresh-object' % (pre, sep_class(v0, vc)), (
                'after %s = %r then %s = %r: answers %r; a fresh object with %s = %r: %r' % (name, v0, name, vc, yc, name, vc, yfresh))
        if vc in close:
            for i in range(len(y0)):
                if y0[i] == 0.0 or yc[i] == 0.0 or yf[i] == 0.0:
                    continue
                chk, ok, det = sensitivity_ok('param', v0, y0[i], vc, yc[i], vf, yf[i])
                if chk and not ok:
                    return '%s:%s:close-values-identified' % (pre, sep_class(v0, vc)), 'distance %r: %s' % (ds[i % len(ds)], det)
        r = ap(o, name, v0)                                     # ... and back
        if r != 'ok' or _answers(o, ds, nw) != y0 or getattr(o, name) != v0:
            return '%s:%s:return-not-effective' % (pre, sep_class(v0, vc)), (
                'after %s = %r, %s = %r, %s = %r the object differs from the one after the first call' % (name, v0, name, vc, name, v0))
    return None


def zero_loss_distance(o, nw, d_hi):
    """distance at which the deterministic loss crosses 0 dB, from two unclamped points (affine in log10 d);
    returns (d0, slope per decade)"""
    p1, p2 = float(P().call_db(o, d_hi, nw)), float(P().call_db(o, 10.0 * d_hi, nw))
    slope = p2 - p1
    if not (p1 > 1.0 and slope > 1.0):
        return None, None
    return d_hi * 10.0 ** (-p1 / slope), slope


def _close_threshold(case):
    """the zero test of the negative-loss policy has no dead zone and snaps nothing: a loss of -8e-9 dB is
    negative (raise / exactly 0 dB), a loss of +8e-9 dB is returned as it is"""
    kind, nw = case['kind'], case.get('nw')
    pre = 'R15:%s:threshold' % kind
    o = _fresh(case)
    if case.get('exactC') is not None:
        # PathLossGeneral at d = 1: 10 n log10(1) + C = C exactly
        pl, _ = P()._impl()
        n, C = float(case['n']), float(case['exactC'])
        o = pl.PathLossGeneral(n, C)
        far = float(10.0 * n)                                    # loss at d = 10 minus loss at d = 1
        tiny = 'C=%s1e%d' % ('-' if C < 0 else '+', int(math.floor(math.log10(abs(C)))) if C != 0 and abs(C) > 1e-320 else -324)
        for flag in (False, True):
            o.handle_small_distances_bool = flag
            for form, arg in (('scalar', 1.0), ('int', 1), ('0d', np.array(1.0)), ('array', np.array([1.0, 10.0, 1.0])),
                              ('2d', np.array([[10.0], [1.0]])), ('list', [1.0, 10.0])):
                try:
                    with warnings.catch_warnings():
                        warnings.simplefilter('ignore')
                        r = o.calc_path_loss_dB(arg)
                        lin = o.calc_path_loss(arg)
                    err = None
                except RuntimeError:
                    r, err = None, 'RuntimeError'
                except Exception as e:
                    return '%s:%s:%s:exception' % (pre, tiny, form), repr(e)[:200]
                where = 'PathLossGeneral(%r, %r), flag %s, calc_path_loss_dB(%r)' % (n, C, flag, arg)
                if C < 0 and not flag:
                    if err is None:
                        return '%s:%s:%s:no-raise' % (pre, tiny, form), '%s returned %r for a loss of %r dB' % (where, r, C)
                    continue
                if err is not None:
                    return '%s:%s:%s:spurious-raise' % (pre, tiny, form), '%s raised for a loss of %r dB' % (where, C)
                ra, la = np.asarray(r, dtype=float).ravel(), np.asarray(lin, dtype=float).ravel()
                ones = [i for i, dv in enumerate(np.asarray(arg, dtype=float).ravel()) if dv == 1.0]
                want = C if C > 0 else 0.0
                for i in range(len(ra)):
                    e = want if i in ones else (far + C)
                    if i in ones and not (ra[i] == e):
                        return '%s:%s:%s:%s' % (pre, tiny, form, 'positive-loss-altered' if C > 0 else 'no-clamp'), (
                            '%s entry %d is %r, the deterministic loss is %r dB' % (where, i, ra[i], C))
                    if i not in ones and not abs(ra[i] - e) <= 1e-12 * abs(e):
                        return '%s:%s:%s:other-entry-altered' % (pre, tiny, form), '%s entry %d is %r, expected %r' % (where, i, ra[i], e)
                    el = 10.0 ** (-ra[i] / 10.0)
                    if not abs(la[i] - el) <= 1e-14 * el or not (0.0 < la[i] <= 1.0):
                        return '%s:%s:%s:linear' % (pre, tiny, form), 'calc_path_loss entry %d is %r for %r dB' % (i, la[i], ra[i])
        return None
    # every kind: distances a relative 1e-6 / 1e-9 on either side of the object's own zero-loss distance
    o.handle_small_distances_bool = True
    with warnings.catch_warnings():
        warnings.simplefilter('ignore')
        d0, slope = zero_loss_distance(o, nw, float(case['d_hi']))
        if d0 is None:
            return None
        for delta in (1e-6, 1e-9):
            exp = slope * math.log10(1.0 + delta)                 # loss at d0 (1 + delta); minus that at d0 (1 - delta)
            noise = 64 * 2.3e-16 * max(abs(float(P().det_db(o, d0, nw))), 1.0) + 1e-13 * slope
            dn, up = d0 * (1.0 - delta), d0 * (1.0 + delta)
            det_dn, det_up = float(P().det_db(o, dn, nw)), float(P().det_db(o, up, nw))
            if not (det_dn < -1e3 * 2.3e-16 * 300 and det_up > 1e3 * 2.3e-16 * 300) or exp < 50 * noise:
                continue                                          # margin of the discrete decision not met: skip
            cls = '%s:delta=%g' % (pre, delta)
            for flag in (True, False):
                o.handle_small_distances_bool = flag
                # above the threshold: returned as it is
                for form, arg in (('scalar', up), ('array', np.array([up, 10.0 * d0]))):
                    try:
                        r = np.asarray(P().call_db(o, arg, nw), dtype=float).ravel()
                    except Exception as e:
                        return cls + ':above:%s:exception' % form, 'calc_path_loss_dB(%r): %r' % (arg, e)
                    det_same = float(np.asarray(P().det_db(o, arg, nw), dtype=float).ravel()[0])
                    if not (r[0] == det_same and abs(r[0] - exp) <= 0.05 * exp + noise):
                        return cls + ':above:%s:positive-loss-altered' % form, (
                            'distance %r = zero-loss distance x (1 + %g): loss %r dB, expected about %r' % (up, delta, r[0], exp))
                    lin = float(np.asarray(P().call_lin(o, arg, nw), dtype=float).ravel()[0])
                    if not abs(lin - 10.0 ** (-r[0] / 10.0)) <= 1e-14:
                        return cls + ':above:%s:linear' % form, 'linear %r for %r dB' % (lin, r[0])
                # below: raise or exactly 0
                for form, arg in (('scalar', dn), ('array', np.array([dn, up, 10.0 * d0])), ('2d', np.array([[10.0 * d0, dn]]))):
                    try:
                        r = np.asarray(P().call_db(o, arg, nw), dtype=float).ravel()
                        err = None
                    except RuntimeError:
                        r, err = None, 'RuntimeError'
                    except Exception as e:
                        return cls + ':below:%s:exception' % form, 'calc_path_loss_dB(%r): %r' % (arg, e)
                    if not flag:
                        if err is None:
                            return cls + ':below:%s:no-raise' % form, (
                                'distance %r = zero-loss distance x (1 - %g), deterministic loss %r dB, flag off: returned %r'
                                % (dn, delta, det_dn, r.tolist()))
                        continue
                    if err is not None:
                        return cls + ':below:%s:spurious-raise' % form, 'flag on, distance %r' % dn
                    flat = np.asarray(arg, dtype=float).ravel().tolist()
                    dets = np.asarray(P().det_db(o, arg, nw), dtype=float).ravel().tolist()
                    for dv, g, dt_ in zip(flat, r.tolist(), dets):
                        if dv == dn and g != 0.0:
                            return cls + ':below:%s:no-clamp' % form, 'distance %r (deterministic %r dB) gave %r' % (dn, det_dn, g)
                        if dv == up and g != dt_:
                            return cls + ':below:%s:neighbour-altered' % form, 'distance %r gave %r, deterministic %r' % (up, g, dt_)
    return None


def _close_guard(case):
    """Okumura-Hata guards: accepted exactly for lo <= v <= hi (adjacent doubles decide), a rejected value
    leaves the parameter as it was, an accepted one is stored as it is"""
    name = case['param']
    lo, hi = PARAM_RANGE['oh'][name]
    o = _fresh(case)
    ap = P().apply_setter
    pre = 'R15:oh:guard.%s' % name
    vals = []
    for b in (lo, hi):
        vals += [b, ulp_up(b), ulp_dn(b), b * (1 + 1e-9), b * (1 - 1e-9), b * (1 + 1e-6), b * (1 - 1e-6),
                 b + 1e-9, b - 1e-9, b * (1 + 3e-13), b * (1 - 3e-13)]
    order = case.get('order', 0)
    vals = vals[order % len(vals):] + vals[:order % len(vals)]
    for v in vals:
        before = getattr(o, name)
        r = ap(o, name, v)
        inside = (lo <= v <= hi)
        side = 'lo' if abs(v - lo) < abs(v - hi) else 'hi'
        cls = '%s:%s:%s' % (pre, side, sep_class(lo if side == 'lo' else hi, v))
        if inside and r != 'ok':
            return cls + ':rejected-inside', '%s = %r is inside [%r, %r] and was rejected (%s)' % (name, v, lo, hi, r)
        if not inside and r == 'ok':
            return cls + ':accepted-outside', '%s = %r is outside [%r, %r] and was accepted' % (name, v, lo, hi)
        now = getattr(o, name)
        if inside and now != v:
            return cls + ':not-stored', 'after %s = %r the getter returns %r' % (name, v, now)
        if not inside and now != before:
            return cls + ':rejected-but-changed', 'rejected %s = %r changed the parameter from %r to %r' % (name, v, before, now)
        if not inside and r != 'error:RuntimeError':
            return cls + ':exception-type', '%s = %r raised %s' % (name, v, r)
    return None


def _close_switch(case):
    """Okumura-Hata large city: the mobile-antenna correction switches formula at fc = 300 MHz exactly
    (`fc > 300`); on either side the loss is smooth in fc, so 300 (1 + 1e-9) belongs with 300 (1 + 1e-3) and
    300 itself with 300 (1 - 1e-3)"""
    o = _fresh(case)
    ap = P().apply_setter
    ap(o, 'area', 'large city')
    ap(o, 'hms', float(case['hms']))
    o.handle_small_distances_bool = True
    d = float(case['d'][0])

    def at(fc):
        if ap(o, 'fc', fc) != 'ok':
            return float('nan')
        with warnings.catch_warnings():
            warnings.simplefilter('ignore')
            return float(o.calc_path_loss_dB(d))
    sw = 300.0
    hi_far, lo_far = at(sw * (1 + FAR)), at(sw * (1 - FAR))
    hi_far2, lo_far2 = at(sw * (1 + 2 * FAR)), at(sw * (1 - 2 * FAR))
    smooth = max(abs(hi_far2 - hi_far), abs(lo_far - lo_far2))            # change over one far step, either side
    jump = abs((2 * hi_far - hi_far2) - (2 * lo_far - lo_far2))           # extrapolated to 300 from both sides
    if not (jump > 20 * 1e-3 * smooth + 1e-9 and jump > 1e-3):
        return None                                                       # the two formulas (nearly) agree at this hms
    for v, side in ((ulp_up(sw), 'hi'), (sw * (1 + 1e-9), 'hi'), (sw * (1 + 1e-6), 'hi'), (sw + 1e-9, 'hi'),
                    (sw, 'lo'), (ulp_dn(sw), 'lo'), (sw * (1 - 1e-9), 'lo'), (sw * (1 - 1e-6), 'lo')):
        y = at(v)
        ref = (2 * hi_far - hi_far2) if side == 'hi' else (2 * lo_far - lo_far2)
        if not abs(y - ref) <= 0.02 * jump + 2 * 1e-3 * smooth:
            return 'R15:oh:switch:%s:%s' % (side, sep_class(sw, v) if v != sw else 'at-300'), (
                'large city, hms = %r, d = %r: loss at fc = %r is %r; the %s side extrapolates to %r at 300 '
                '(the other side to %r)' % (case['hms'], d, v, y, 'fc > 300' if side == 'hi' else 'fc <= 300', ref,
                                            (2 * lo_far - lo_far2) if side == 'hi' else (2 * hi_far - hi_far2)))
    return None


def o_close(case):
    """R15: distinct values that are merely close give the answers for THOSE values"""
    with warnings.catch_warnings():
        warnings.simplefilter('ignore')
        return {'query': _close_query, 'setter': _close_setter, 'threshold': _close_threshold,
                'guard': _close_guard, 'switch': _close_switch}[case['mode']](case)


# ================================================================== R16
class _Rec:
    """axes stub recording, at call time, copies of what it is asked to plot"""

    def __init__(self):
        self.calls = []

    def plot(self, *a, **k):
        self.calls.append(([np.asarray(x, dtype=float).ravel().tolist() for x in a], dict(k)))


def _mk_buffer(form, n):
    """(buffer object, refill function, snapshot function)"""
    if form == 'list':
        buf = [0.0] * n

        def refill(vals):
            buf[:] = [float(v) for v in vals]
        return buf, refill, lambda: list(buf)
    if form == 'intlist':
        buf = [0] * n

        def refill(vals):
            buf[:] = [int(v) for v in vals]
        return buf, refill, lambda: list(buf)
    if form == '0d':
        buf = np.array(0.0)

        def refill(vals):
            buf[()] = float(vals[0])
        return buf, refill, lambda: buf.copy()
    dt = {'nd': float, 'nd2': float, 'col': float, 'int': np.int64, 'f32': np.float32, 'fortran': float,
          'strided': float}[form]
    if form == 'nd2':
        buf = np.zeros((2, n // 2), dtype=dt)
    elif form == 'col':
        buf = np.zeros((n, 1), dtype=dt)
    elif form == 'fortran':
        buf = np.zeros((2, n // 2), dtype=dt, order='F')
    elif form == 'strided':
        buf = np.zeros(2 * n, dtype=dt)[::2]
    else:
        buf = np.zeros(n, dtype=dt)

    def refill(vals):
        buf[...] = np.array(vals, dtype=float).astype(dt).reshape(buf.shape)
    return buf, refill, lambda: buf.copy()


def _snap_eq(a, b):
    if isinstance(a, list):
        return isinstance(b, list) and len(a) == len(b) and all(type(x) is type(y) and x == y for x, y in zip(a, b))
    return a.dtype == b.dtype and a.shape == b.shape and np.array_equal(a, b, equal_nan=True)


def _copy_of(snap):
    return list(snap) if isinstance(snap, list) else snap.copy(order='K')


def _canon(r):
    """canonical form of an answer (value semantics, bit exact)"""
    if isinstance(r, str):
        return r
    if r is None:
        return 'None'
    a = np.asarray(r)
    return ('nd' if isinstance(r, np.ndarray) else 'sc', a.shape, a.dtype.kind, a.astype(float).tobytes())


def _show(r):
    if isinstance(r, str) or r is None:
        return repr(r)
    return repr(np.asarray(r, dtype=float).ravel().tolist()[:6])


def _build_any(case):
    pl, ag = P()._impl()
    if case['kind'] == 'omni':
        return ag.AntGainOmni(case['ctor'][0])
    if case['kind'] == 'conv':
        return _conv()
    return P().build(case)[0]


def _entry_call(o, entry, arg, nw, extra=None):
    """one public entry point taking an array / list / object argument; exceptions become 'error:<Name>'"""
    try:
        with warnings.catch_warnings():
            warnings.simplefilter('ignore')
            if entry in ('db', 'lin', 'wdb', 'wl', 'g'):
                return P().query_call(o, entry, arg, nw)
            if entry in ('dB2Linear', 'linear2dB'):
                return getattr(o, entry)(arg)
            if entry == 'det':
                return o._calc_deterministic_path_loss_dB(arg) if nw is None else o._calc_deterministic_path_loss_dB(arg, num_walls=nw)
            if entry == 'plot':
                ax = _Rec()
                if extra is None:
                    o.plot_deterministic_path_loss_in_dB(arg, ax)
                else:
                    o.plot_deterministic_path_loss_in_dB(arg, ax=ax, extra_args=extra)
                return 'plot:' + repr(ax.calls)
    except Exception as e:
        return P().errname(e)
    raise ValueError(entry)


def o_buffer(case):
    """R16: the same argument object with new contents / in two roles"""
    with warnings.catch_warnings():
        warnings.simplefilter('ignore')
        return _buffer(case)


def _buffer(case):
    kind, entry, form = case['kind'], case['entry'], case['form']
    nw = case.get('nw')
    fills = case['fills']
    pre = 'R16:%s:%s' % (kind, entry)
    how = ' [buffer form %s, flag %s]' % (form, case.get('small', 1))
    o = _build_any(case)
    _set_small(o, kind, case.get('small', 1))
    role = case.get('role', 'refill')
    if role == 'two-roles':
        return _two_roles(case, o, pre)
    n = len(fills[0])
    buf, refill, snapshot = _mk_buffer(form, n)
    wbuf = wrefill = wsnap = None
    if case.get('walls'):
        wbuf, wrefill, wsnap = _mk_buffer('int' if form != 'list' else 'intlist', n)
        if form in ('nd2', 'fortran'):
            wbuf, wrefill, wsnap = _mk_buffer('int', n)
            wbuf = wbuf.reshape(buf.shape)

            def wrefill(vals, _w=wbuf):
                _w[...] = np.array(vals, dtype=np.int64).reshape(_w.shape)

            def wsnap(_w=wbuf):
                return _w.copy()
    extra = {} if case.get('extra') else None
    kept = []
    for k, fill in enumerate(fills):
        refill(fill)
        snap = snapshot()
        the_nw = nw
        if wbuf is not None:
            wrefill(case['walls'][k])
            wsn = wsnap()
            the_nw = wbuf
        if extra is not None:
            extra.clear()
            extra.update(case['extra'][k])
            esnap = dict(extra)
        r = _entry_call(o, entry, buf, the_nw, extra)
        # a fresh object on a copy of the contents at call time
        f = _build_any(case)
        _set_small(f, kind, case.get('small', 1))
        rf = _entry_call(f, entry, _copy_of(snap), _copy_of(wsn) if wbuf is not None else nw,
                         dict(esnap) if extra is not None else None)
        if not _snap_eq(snap, snapshot()):
            return pre + ':argument-modified', 'call %d: the argument %r was changed by the call to %r' % (k + 1, _show(snap), _show(snapshot()))
        if wbuf is not None and not _snap_eq(wsn, wsnap()):
            return pre + ':walls-argument-modified', 'call %d: the num_walls argument was changed by the call' % (k + 1)
        if extra is not None and extra != esnap:
            return pre + ':extra-args-modified', 'call %d: extra_args %r became %r' % (k + 1, esnap, extra)
        if _canon(r) != _canon(rf):
            return '%s:refilled-buffer-differs-from-fresh-object-on-a-copy' % pre, (
                'call %d of %d with the same %s object refilled in place (contents %s): %s; a fresh object on a copy '
                'of these contents: %s%s' % (k + 1, len(fills), type(buf).__name__, _show(snap), _show(r), _show(rf), how))
        if isinstance(r, np.ndarray) and isinstance(buf, np.ndarray) and r.size and np.shares_memory(r, buf):
            return pre + ':result-aliases-argument', 'call %d: the result shares memory with the argument' % (k + 1)
        for j, (r_old, c_old) in enumerate(kept):
            if isinstance(r_old, np.ndarray) and isinstance(r, np.ndarray) and r.size and r_old.size and np.shares_memory(r, r_old):
                return pre + ':results-share-memory', 'the results of calls %d and %d share memory' % (j + 1, k + 1)
        kept.append((r, _canon(r)))
        for j, (r_old, c_old) in enumerate(kept):
            if _canon(r_old) != c_old:
                return pre + ':earlier-result-changed', 'the result of call %d changed after call %d / the refill' % (j + 1, k + 1)
    # (iii) modify the argument right after the last call, (iv) equal contents in another object, then new contents
    last_snap = snapshot()
    last = kept[-1]
    refill([fills[0][(i + 1) % n] * 1.5 + 0.25 for i in range(n)] if form not in ('int', 'intlist') else [7] * n)
    for j, (r_old, c_old) in enumerate(kept):
        if _canon(r_old) != c_old:
            return pre + ':earlier-result-changed', 'the result of call %d changed when the argument was modified after the call' % (j + 1)
    other = _copy_of(last_snap)
    wl_other = _copy_of(wsn) if wbuf is not None else nw
    r2 = _entry_call(o, entry, other, wl_other, dict(esnap) if extra is not None else None)
    if _canon(r2) != last[1]:
        return pre + ':equal-contents-other-object', (
            'an equal-content copy (%s) gives %s, the original object gave %s' % (_show(last_snap), _show(r2), _show(last[0])))
    return None


def _two_roles(case, o, pre):
    """the same object in two roles"""
    kind, nw = case['kind'], case.get('nw')
    vals = case['fills'][0]
    form = case['form']
    pre = pre + ':two-roles'
    if kind == 'ps7' and case['entry'] == 'db-walls':
        # the same integer array / list is the distance (m) AND the wall count
        a = [int(v) for v in vals] if form == 'intlist' else np.array(vals, dtype=np.int64 if form == 'int' else float)
        snap = list(a) if isinstance(a, list) else a.copy()
        r = _entry_call(o, 'db', a, a)
        f = _build_any(case)
        _set_small(f, kind, case.get('small', 1))
        rf = _entry_call(f, 'db', _copy_of(snap), np.array(snap, dtype=np.int64))
        if not _snap_eq(snap, list(a) if isinstance(a, list) else a):
            return pre + ':argument-modified', 'the array passed as d and num_walls was changed: %r -> %r' % (_show(snap), _show(a))
        if _canon(r) != _canon(rf):
            return pre + ':differs-from-distinct-objects', (
                'calc_path_loss_dB(a, num_walls=a) with a = %s: %s; with two distinct equal-content objects on a fresh '
                'model object: %s' % (_show(snap), _show(r), _show(rf)))
        # position by position: the scalar queries
        for i, v in enumerate(snap):
            e = _entry_call(f, 'db', float(v), int(v))
            g = np.asarray(r, dtype=float).ravel()[i] if not isinstance(r, str) else r
            if isinstance(e, str) or isinstance(g, str) or not abs(float(g) - float(e)) <= 1e-9 * max(1.0, abs(float(e))):
                return pre + ':entry', 'entry %d (d = walls = %r): %r, scalar query %r' % (i, v, g, e)
        return None
    # one buffer carried through two methods / two objects: d -> loss (written back into the buffer) -> distance
    buf = np.array(vals, dtype=float)
    d_snap = buf.copy()
    o2 = _build_any(case)
    _set_small(o2, kind, case.get('small', 1))
    if kind in ('ant', 'omni'):
        r1, r2 = _entry_call(o, 'g', buf, None), _entry_call(o2, 'g', buf, None)
        if _canon(r1) != _canon(r2) or not _snap_eq(d_snap, buf):
            return pre + ':two-objects', 'two equal antenna objects given the same array disagree / changed it'
        if isinstance(r1, np.ndarray) and isinstance(r2, np.ndarray) and r1.size and np.shares_memory(r1, r2):
            return pre + ':results-share-memory', 'results of two objects share memory'
        return None
    r_db = _entry_call(o, 'db', buf, nw)
    r_lin = _entry_call(o2, 'lin', buf, nw)                       # same array, other object, other method
    if not _snap_eq(d_snap, buf):
        return pre + ':argument-modified', 'the distance array was changed by calc_path_loss_dB / calc_path_loss'
    if isinstance(r_db, str) or isinstance(r_lin, str):
        return None if r_db == r_lin or (isinstance(r_db, str) and isinstance(r_lin, str)) else (pre + ':exception', '%r / %r' % (r_db, r_lin))
    e_lin = 10.0 ** (-np.asarray(r_db, dtype=float) / 10.0)
    if not np.all(np.abs(np.asarray(r_lin, dtype=float) - e_lin) <= 1e-12 * e_lin):
        return pre + ':lin-vs-db', 'calc_path_loss on the same array: %s, 10^(-dB/10): %s' % (_show(r_lin), _show(e_lin))
    if kind == 'oh':
        return None
    keep_db = np.array(r_db, dtype=float, copy=True)
    buf[...] = r_db                                               # the buffer now holds losses
    back = _entry_call(o, 'wdb', buf, nw)
    if not np.array_equal(buf, keep_db):
        return pre + ':argument-modified', 'the loss array was changed by which_distance_dB'
    if not np.array_equal(np.asarray(r_db, dtype=float), keep_db):
        return pre + ':earlier-result-changed', 'the result of calc_path_loss_dB changed after the buffer was refilled with it'
    if isinstance(back, str):
        return pre + ':exception', 'which_distance_dB(buffer): %s' % back
    pos = keep_db > 1e-6
    bk = np.asarray(back, dtype=float)
    if bk.shape != d_snap.shape or not np.all(np.abs(bk[pos] - d_snap[pos]) <= 1e-9 * d_snap[pos]):
        return pre + ':round-trip-through-one-buffer', (
            'distances %s -> losses (same buffer) -> distances %s' % (_show(d_snap), _show(back)))
    return None


ORACLES = {'robust.close': o_close, 'robust.buffer': o_buffer}


# ================================================================== generators
TINY = [1e-9, 3e-10, 4e-12, 4e-13, 2.5e-14, 1e-15]


def _base(rng, kind, hist_len):
    b = P().oracle_case(rng, kind, hist_len)
    return {k: b[k] for k in ('kind', 'ctor', 'hist', 'nw') if k in b}


def gen_close_cases(rng, n_random, hist_len):
    """(branch, case) pairs: a deterministic scenario set (always) + n_random random ones"""
    out = []
    g = P()
    # ---- deterministic scenarios: every decision / lookup site, every kind
    for C in (1e-9, -1e-9, 1e-12, -1e-12, 3e-15, -3e-15, 1e-300, -1e-300, 5e-324, -5e-324, 2e-8, -2e-8):
        for n in (2.0, 3.76):
            out.append(('threshold-tiny-loss', {'kind': 'gen', 'ctor': [n, C], 'hist': [], 'mode': 'threshold', 'exactC': C, 'n': n}))
    for kind, d_hi, nw in (('fs', 1.0, None), ('gpp', 1.0, None), ('gen', 10.0, None), ('ps7', 100.0, 0), ('ps7', 100.0, 3),
                           ('oh', 5.0, None)):
        c = {'kind': kind, 'ctor': [2.5, 30.0] if kind == 'gen' else None, 'hist': [], 'mode': 'threshold', 'd_hi': d_hi}
        if nw is not None:
            c['nw'] = nw
        out.append(('threshold-zero-loss-distance', c))
    for name in ('fc', 'hbs', 'hms'):
        for order in (0, 7):
            out.append(('guard-adjacent-doubles', {'kind': 'oh', 'ctor': None, 'hist': [], 'mode': 'guard', 'param': name, 'order': order}))
    for hms in (1.0, 1.5, 5.0, 10.0):
        out.append(('large-city-switch', {'kind': 'oh', 'ctor': None, 'hist': [], 'mode': 'switch', 'hms': hms, 'd': [5.0]}))
    for kind, name, v, d, nw in (('fs', 'fc', 2400.0, [0.5, 30.0], None), ('fs', 'fc', 60000.0, [2.0], None), ('fs', 'fc', 0.3, [800.0], None),
                                 ('fs', 'n', 2.0, [0.5, 30.0], None), ('fs', 'n', 0.3, [5.0], None), ('fs', 'n', 3.5, [0.02, 7.0], None),
                                 ('ps7', 'fc', 2400.0, [10.0, 300.0], 0), ('ps7', 'fc', 60000.0, [25.0], 2),
                                 ('oh', 'fc', 900.0, [2.0, 15.0], None), ('oh', 'fc', 200.0, [5.0], None),
                                 ('oh', 'hbs', 45.0, [2.0, 15.0], None), ('oh', 'hms', 1.7, [3.0], None)):
        c = {'kind': kind, 'ctor': None, 'hist': [['area', 'open']] if (kind == 'oh' and v == 200.0) else [], 'mode': 'setter',
             'param': name, 'v': v, 'd': d}
        if nw is not None:
            c['nw'] = nw
        out.append(('setter-close-values', c))
    for kind, ctor, q, x, nw in (('fs', None, 'db', 0.3, None), ('fs', None, 'lin', 1.2, None), ('fs', None, 'wdb', 93.1102472958, None),
                                 ('fs', None, 'wl', 4e-12, None), ('fs', None, 'wl', 4e-13, None), ('gpp', None, 'wl', 1e-9, None),
                                 ('gpp', None, 'wl', 1e-15, None), ('gpp', None, 'db', 0.3, None),
                                 ('gen', [2.0, 450.0], 'db', 4e-12, None), ('gen', [2.0, 450.0], 'lin', 4e-13, None),
                                 ('gen', [3.0, 600.0], 'db', 1e-9, None), ('gen', [1.0, 200.0], 'db', 1e-15, None),
                                 ('ps7', None, 'db', 2.4e4, 0), ('ps7', None, 'db', 30.0, 2), ('ps7', None, 'wdb', 77.0, 1),
                                 ('ps7', None, 'wl', 4e-12, 0), ('ps7', None, 'lin', 55.0, 3), ('oh', None, 'db', 5.0, None),
                                 ('oh', None, 'lin', 0.3 * 40, None), ('ant', [3], 'g', 30.0, None), ('ant', [6], 'g', 0.3, None),
                                 ('ant', [3], 'g', -77.0, None), ('conv', None, 'linear2dB', 4e-12, None),
                                 ('conv', None, 'linear2dB', 4e-13, None), ('conv', None, 'linear2dB', 2.4e9, None),
                                 ('conv', None, 'dB2Linear', -93.1102472958, None), ('conv', None, 'dB2Linear', 0.3, None),
                                 ('conv', None, 'dB2Linear', -150.0, None)):
        c = {'kind': kind, 'ctor': ctor, 'hist': [], 'mode': 'query', 'query': q, 'x': x}
        if nw is not None:
            c['nw'] = nw
        out.append(('query-close-values', c))
    # ---- random scenarios
    kinds = ['fs', 'ps7', 'oh', 'gen', 'gpp', 'fs', 'ps7', 'oh']
    for i in range(n_random):
        kind = kinds[i % len(kinds)]
        b = _base(rng, kind, min(hist_len, 6))
        lo, hi = (-1.0, 5.0) if kind == 'ps7' else (-3.0, 3.0)
        r = rng.below(10)
        if r < 4:
            q = rng.choice(['db', 'db', 'lin', 'wdb', 'wl'])
            if kind == 'oh' and q in ('wdb', 'wl'):
                q = 'db'
            if q in ('db', 'lin'):
                x = g.gen_dist(rng, lo + 1.0, hi)
                if kind == 'gen' and rng.chance(0.6):
                    b['ctor'] = [g.nice(rng, rng.uniform(1.0, 4.0)), 0.0]
                    b['ctor'][1] = 160.0 * b['ctor'][0] + g.nice(rng, rng.uniform(10.0, 100.0))
                    x = rng.choice(TINY) * rng.uniform(1.0, 3.0)
            elif q == 'wdb':
                x = g.nice(rng, rng.uniform(20.0, 220.0))
            else:
                x = rng.choice(TINY) * rng.uniform(1.0, 3.0) if rng.chance(0.7) else g.logu(rng, -8.0, -2.0)
            c = dict(b, mode='query', query=q, x=x)
            out.append(('query-close-values', c))
        elif r < 7 and kind in ('fs', 'ps7', 'oh'):
            if kind == 'fs':
                name = rng.choice(['n', 'fc'])
                v = g.nice(rng, rng.uniform(0.3, 6.0)) if name == 'n' else g.nice(rng, g.logu(rng, -1.0, 5.0))
            elif kind == 'ps7':
                name, v = 'fc', g.nice(rng, g.logu(rng, 1.0, 5.0))
            else:
                name = rng.choice(['fc', 'hbs', 'hms'])
                a, z = PARAM_RANGE['oh'][name]
                v = rng.uniform(a * 1.01, z / 1.01)
                if name == 'fc' and abs(v / 300.0 - 1.0) < 0.01:
                    v = 450.0
            c = dict(b, mode='setter', param=name, v=v, d=[g.gen_dist(rng, lo + 1.0, hi) for _ in range(rng.randint(1, 3))])
            out.append(('setter-close-values', c))
        elif r < 8:
            c = dict(b, mode='threshold', d_hi=10.0 ** rng.uniform(hi - 1.0, hi))
            if kind == 'gen':
                c['ctor'] = [g.nice(rng, rng.uniform(0.5, 6.0)), g.nice(rng, rng.uniform(-20.0, 150.0))]
            out.append(('threshold-zero-loss-distance', c))
        elif r < 9:
            C = rng.choice(TINY) * rng.uniform(1.0, 9.0) * rng.choice([1.0, -1.0])
            n = g.nice(rng, rng.uniform(0.5, 6.0))
            out.append(('threshold-tiny-loss', {'kind': 'gen', 'ctor': [n, C], 'hist': [], 'mode': 'threshold', 'exactC': C, 'n': n}))
        else:
            if rng.chance(0.5):
                out.append(('guard-adjacent-doubles', {'kind': 'oh', 'ctor': None, 'hist': b['hist'] if kind == 'oh' else [],
                                                       'mode': 'guard', 'param': rng.choice(['fc', 'hbs', 'hms']), 'order': rng.below(22)}))
            else:
                out.append(('large-city-switch', {'kind': 'oh', 'ctor': None, 'hist': [], 'mode': 'switch',
                                                  'hms': rng.uniform(1.0, 10.0), 'd': [g.gen_dist(rng, 0.0, 1.3)]}))
        if i % 13 == 5:
            if rng.chance(0.5):
                c = {'kind': 'conv', 'ctor': None, 'hist': [], 'mode': 'query', 'query': 'linear2dB',
                     'x': rng.choice(TINY + [1.0, 2.4e9, 37.0]) * rng.uniform(1.0, 3.0)}
            else:
                c = {'kind': 'conv', 'ctor': None, 'hist': [], 'mode': 'query', 'query': 'dB2Linear',
                     'x': rng.uniform(0.1, 200.0) * rng.choice([1.0, -1.0])}
            out.append(('query-close-values', c))
        if i % 11 == 0:
            ang = rng.uniform(3.0, 170.0) * rng.choice([1.0, -1.0])
            out.append(('query-close-values', {'kind': 'ant', 'ctor': [rng.choice([3, 6])], 'hist': [], 'mode': 'query', 'query': 'g', 'x': ang}))
    return out


ENTRIES = {'conv': ['dB2Linear', 'linear2dB'],
           'fs': ['db', 'lin', 'wdb', 'wl', 'det', 'plot'], 'gen': ['db', 'lin', 'wdb', 'wl', 'det', 'plot'],
           'gpp': ['db', 'lin', 'wdb', 'wl', 'det', 'plot'], 'ps7': ['db', 'lin', 'wdb', 'wl', 'det', 'plot', 'dbw'],
           'oh': ['db', 'lin', 'det', 'plot'], 'ant': ['g'], 'omni': ['g']}
FORMS = ['nd', 'nd2', 'col', '0d', 'list', 'int', 'f32', 'fortran', 'strided']


def _fill_values(rng, kind, entry, form, n, k, small):
    """contents of the k-th refill (whole numbers for integer buffers)"""
    g = P()
    if entry == 'dB2Linear':
        return [float(rng.randint(-200, 60)) if form in ('int', 'intlist') else g.nice(rng, rng.uniform(-200.0, 60.0)) for _ in range(n)]
    if entry == 'linear2dB':
        return [float(rng.randint(1, 10 ** 6)) if form in ('int', 'intlist') else g.logu(rng, -15.0, 9.0) for _ in range(n)]
    if entry == 'g':
        return [g.nice(rng, rng.uniform(-180.0, 180.0)) if form not in ('int',) else float(rng.randint(-180, 180)) for _ in range(n)]
    if entry == 'wdb':
        return [g.nice(rng, rng.uniform(20.0, 220.0)) if form != 'int' else float(rng.randint(20, 220)) for _ in range(n)]
    if entry == 'wl':
        return [g.logu(rng, -15.0, -3.0) for _ in range(n)]
    lo, hi = (0.0, 4.0) if kind == 'ps7' else (0.0, 2.5)
    vals = [10.0 ** rng.uniform(lo, hi) for _ in range(n)]
    if form in ('int', 'intlist'):
        vals = [float(max(1, int(round(v)))) for v in vals]
    elif form == 'f32':
        vals = [float(np.float32(v)) for v in vals]
    elif k >= 1 and rng.chance(0.3) and entry in ('db', 'lin', 'plot', 'dbw'):
        vals[rng.below(n)] = 1e-30                                  # a too-small distance in a later refill
    return vals


def gen_buffer_cases(rng, n_random, hist_len):
    out = []
    g = P()
    det = core.Rng(20160916, 'c13-r16-deterministic')
    # ---- deterministic: every entry point x every kind with the plain ndarray buffer, every buffer form on `db`
    for kind in ('fs', 'gen', 'gpp', 'ps7', 'oh', 'ant', 'omni', 'conv'):
        for entry in ENTRIES[kind]:
            forms = ['nd'] if entry not in ('db', 'g', 'dB2Linear') else ['nd', 'nd2', '0d', 'list', 'int', 'strided']
            if entry != 'db':
                forms = [f for f in forms if f != 'list']          # lists are documented for distances only
            for form in forms:
                out.append(('refill', _buffer_case(det, kind, entry, form, 3, 2, None)))
    for kind, nw in (('fs', None), ('gen', None), ('gpp', None), ('ps7', 0), ('ps7', 2), ('oh', None), ('ant', None), ('omni', None)):
        c = _buffer_case(det, kind, 'db' if kind not in ('ant', 'omni') else 'g', 'nd', 1, 2, None)
        c['role'] = 'two-roles'
        if nw is not None:
            c['nw'] = nw
        out.append(('two-roles', c))
    for form in ('int', 'nd', 'intlist'):
        out.append(('two-roles', {'kind': 'ps7', 'ctor': None, 'hist': [], 'small': 1, 'entry': 'db-walls', 'form': form,
                                  'role': 'two-roles', 'fills': [[1.0, 2.0, 3.0, 6.0, 2.0, 40.0]]}))
    # ---- random
    kinds = ['fs', 'ps7', 'oh', 'gen', 'gpp', 'ant', 'ps7', 'fs', 'omni', 'oh', 'conv']
    for i in range(n_random):
        kind = kinds[i % len(kinds)]
        entry = rng.choice(ENTRIES[kind])
        form = rng.choice(FORMS)
        if entry in ('wl', 'linear2dB') and form in ('f32',):
            form = 'nd2'
        if entry in ('wl',) and form in ('int',):
            form = 'nd'
        if entry in ('plot', 'dbw') and form in ('0d', 'f32'):
            form = 'nd'
        if entry == 'dbw' and form == 'col':
            form = 'nd2'
        if entry in ('wdb', 'wl', 'g', 'linear2dB', 'dB2Linear') and form == 'list':
            form = 'nd'                                             # lists are documented for distances only
        if kind == 'oh' and form == 'list' and entry == 'det':
            form = 'nd'
        if entry == 'det' and form in ('list', 'int', '0d'):
            form = 'nd'                                             # the private helper is handed converted arrays
        hist = None
        if kind in ('fs', 'ps7', 'oh') and rng.chance(0.5):
            hist = _base(rng, kind, min(hist_len, 6))
        c = _buffer_case(rng, kind, entry, form, rng.randint(2, 4), rng.choice([2, 4, 6]), hist)
        if rng.chance(0.12) and entry in ('db', 'g'):
            c['role'] = 'two-roles'
            c['form'] = 'nd'
            out.append(('two-roles', c))
        elif rng.chance(0.08) and kind == 'ps7':
            n = rng.choice([2, 4, 6])
            c2 = dict(c, entry='db-walls', role='two-roles', form=rng.choice(['int', 'nd', 'intlist']),
                      fills=[[float(rng.randint(1, 60)) for _ in range(n)]])
            c2.pop('walls', None)
            c2.pop('extra', None)
            out.append(('two-roles', c2))
        else:
            out.append(('refill', c))
    return out


def _buffer_case(rng, kind, entry, form, n_fills, n, base):
    g = P()
    c = {'kind': kind, 'ctor': None, 'hist': [], 'small': 1 if rng.chance(0.6) else 0, 'entry': entry, 'form': form}
    if base:
        c.update({k: base[k] for k in ('ctor', 'hist') if k in base})
    elif kind == 'gen':
        c['ctor'] = [g.nice(rng, rng.uniform(0.5, 5.0)), g.nice(rng, rng.uniform(20.0, 140.0))]
    elif kind == 'ant':
        c['ctor'] = [rng.choice([3, 6])]
    elif kind == 'omni':
        c['ctor'] = [rng.choice([None, 0.0, 3.0, 7.5])]
    if kind == 'ps7' and entry != 'dbw':
        c['nw'] = (base or {}).get('nw', rng.choice([0, 0, 1, 2, 5]))
    if form == '0d':
        n = 1
    if form in ('nd2', 'fortran') and n % 2:
        n += 1
    e = entry if entry != 'dbw' else 'db'
    c['fills'] = [_fill_values(rng, kind, entry, form, n, k, c['small']) for k in range(n_fills)]
    if n_fills >= 3 and rng.chance(0.4):
        c['fills'][-1] = list(c['fills'][0])                          # A, B, A
    if entry == 'dbw':
        c['entry'] = 'db'
        c['walls'] = [[0 if rng.chance(0.4) else rng.randint(1, 6) for _ in range(n)] for _ in range(n_fills)]
    if entry == 'plot':
        c['extra'] = [rng.choice([{}, {'label': 'curve %d' % k}, {'label': 'x', 'linewidth': k + 1}]) for k in range(n_fills)]
        if rng.chance(0.3):
            del c['extra']
    del e
    return c


REQUIRED = (['oracle:R15:' + b for b in ('threshold-tiny-loss', 'threshold-zero-loss-distance', 'guard-adjacent-doubles',
                                         'large-city-switch', 'setter-close-values', 'query-close-values')]
            + ['oracle:R16:' + b for b in ('refill', 'two-roles', 'entry:db', 'entry:lin', 'entry:wdb', 'entry:wl', 'entry:g',
                                           'entry:det', 'entry:plot', 'entry:db+walls', 'form:nd', 'form:nd2', 'form:0d',
                                           'form:list', 'form:int', 'form:strided', 'kind:fs', 'kind:gen', 'kind:gpp',
                                           'kind:ps7', 'kind:oh', 'kind:ant', 'kind:omni', 'kind:conv', 'entry:dB2Linear',
                                           'entry:linear2dB')])


def run(ctx, n_close, n_buffer, hist_len):
    g = P()
    rng = ctx.rng.fork('r15r16')
    for br, case in gen_close_cases(rng, n_close, hist_len):
        ctx.branch('oracle:R15:' + br)
        g.run_oracle(ctx, 'robust.close', case)
    for br, case in gen_buffer_cases(rng, n_buffer, hist_len):
        ctx.branch('oracle:R16:' + br)
        ctx.branch('oracle:R16:entry:' + case['entry'] + ('+walls' if case.get('walls') else ''))
        ctx.branch('oracle:R16:form:' + case['form'])
        ctx.branch('oracle:R16:kind:' + case['kind'])
        g.run_oracle(ctx, 'robust.buffer', case)


# ================================================================== correspondence streams (model at Float)
CORR_REQUIRED = ['corr:R15:' + b for b in ('setter-close-values', 'query-close-values', 'threshold-tiny-loss',
                                           'threshold-zero-loss-distance', 'guard-adjacent-doubles', 'large-city-switch')] + \
                ['corr:R16:' + b for b in ('argument-buffer-refilled-in-place', 'same-object-two-roles', 'buffer:list',
                                           'buffer:2d', 'buffer:int', 'buffer:strided', 'kind:fs', 'kind:gen', 'kind:gpp',
                                           'kind:ps7', 'kind:oh', 'kind:ant')]


def _neighbours(rng, v, k):
    """k close-but-distinct neighbours of v (relative 1e-6 ... adjacent doubles)"""
    pool = [v * (1 + 1e-6), v * (1 - 1e-6), v * (1 + 3e-9), v * (1 - 3e-9), ulp_up(v), ulp_dn(v), v * (1 + 1.3e-12),
            v * (1 + 8e-6), v * (1 - 2e-7)]
    rng.shuffle(pool)
    return pool[:k]


def _safe(o, d, nw, margin=1e-10):
    """the deterministic loss of the CODE is not within `margin` dB of the policy threshold"""
    return abs(float(P().det_db(o, d, nw))) > margin


def corr_close_cases(ctx, rng, n_random):
    """histories whose successive setter values / query arguments are close but distinct; the compiled model
    answers for exactly those values"""
    g = P()
    cases = []
    n_fixed = 0
    for i in range(n_random + 14):
        fixed = i < 14
        kind = ['fs', 'ps7', 'oh', 'gen', 'gpp', 'fs', 'ps7', 'oh', 'fs', 'ps7', 'oh', 'gen', 'gpp', 'ant'][i % 14] if fixed \
            else rng.choice(['fs', 'fs', 'ps7', 'oh', 'oh', 'gen', 'gpp', 'ant'])
        r = (rng if not fixed else core.Rng(1000 + i, 'c13-r15-fixed'))
        ops = [['small', 1]]
        case = {'kind': kind, 'ctor': None, 'ops': ops}
        try:
            if kind == 'ant':
                case['ctor'] = [r.choice([3, 6])]
                for _ in range(r.randint(1, 3)):
                    a = r.uniform(0.2, 170.0) * r.choice([1.0, -1.0])
                    nb = _neighbours(r, a, 3)
                    ops.pop(0) if ops and ops[0][0] == 'small' else None
                    ops += [['g', a], ['g', nb[0]], ['ga', [a] + nb + [a]]]
                ctx.branch('corr:R15:query-close-values')
                cases.append(case)
                continue
            if kind == 'gen':
                mode = r.below(3)
                if mode == 0:
                    # exactly representable tiny losses: d = 1 gives C itself
                    C = r.choice(TINY + [1e-300, 5e-324, 2e-8]) * r.choice([1.0, -1.0]) * (1.0 if fixed else r.uniform(1.0, 9.0))
                    case['ctor'] = [g.nice(r, r.uniform(0.5, 6.0)), C]
                    ex = {'exact': True}
                    ops[:] = [['small', 0], ['db', 1.0, ex], ['dba', [1.0, 10.0, 1.0], ex], ['small', 1], ['db', 1.0, ex],
                              ['dba', [10.0, 1.0], ex], ['lin', 1.0], ['lina', [1.0, 10.0]]]
                    ctx.branch('corr:R15:threshold-tiny-loss')
                    cases.append(case)
                    continue
                n = g.nice(r, r.uniform(1.0, 4.0))
                case['ctor'] = [n, 160.0 * n + g.nice(r, r.uniform(10.0, 100.0))] if mode == 1 else \
                    [g.nice(r, r.uniform(0.5, 6.0)), g.nice(r, r.uniform(20.0, 150.0))]
            o, _ = g.build({'kind': kind, 'ctor': case['ctor']})
            o.handle_small_distances_bool = True
            nw = r.choice([0, 0, 1, 3]) if kind == 'ps7' else None
            lo, hi = (0.0, 5.0) if kind == 'ps7' else (-2.0, 3.0)

            def q(name, *a):
                return [name] + ([nw] if kind == 'ps7' else []) + list(a)
            for _ in range(r.randint(2, 4)):
                t = r.below(8)
                if t < 3 and kind in ('fs', 'ps7', 'oh'):
                    # ---- close setter values, each followed by queries
                    if kind == 'fs':
                        name = r.choice(['n', 'fc'])
                        v = g.nice(r, r.uniform(0.3, 6.0)) if name == 'n' else g.nice(r, g.logu(r, 1.0, 5.0))
                    elif kind == 'ps7':
                        name, v = 'fc', g.nice(r, g.logu(r, 2.0, 5.0))
                    else:
                        name = r.choice(['fc', 'hbs', 'hms'])
                        a, z = PARAM_RANGE['oh'][name]
                        v = r.uniform(a * 1.001, z / 1.001)
                    d = g.gen_dist(r, lo + 1.0, hi)
                    for vv in [v] + _neighbours(r, v, r.randint(2, 4)) + [v]:
                        g.apply_setter(o, name, vv)
                        if not _safe(o, d, nw, 1e-6):
                            continue
                        ops += [[name, vv], q('db', d)]
                    ctx.branch('corr:R15:setter-close-values')
                elif t < 5:
                    # ---- close query arguments (scalar and array), also tiny magnitudes
                    d = g.gen_dist(r, lo + 1.0, hi)
                    if kind == 'gen' and case['ctor'][1] > 150.0:
                        d = r.choice(TINY) * r.uniform(1.0, 3.0)
                    ds = [d] + _neighbours(r, d, r.randint(2, 4))
                    if all(_safe(o, x, nw, 1e-6) for x in ds):
                        ops += [q('db', x) for x in ds[:3]] + [q('dba', ds + [ds[0]])]
                        if kind not in ('ps7', 'oh'):
                            ops.append(['lina', ds[::-1]])
                        else:
                            ops += [q('lin', x) for x in ds[:2]]
                    if kind != 'oh':
                        p = g.nice(r, r.uniform(20.0, 220.0))
                        ps = [p] + _neighbours(r, p, 3)
                        ops += [q('wdb', x) for x in ps[:2]] + [q('wdba', ps)]
                        pl = r.choice(TINY) * r.uniform(1.0, 3.0)
                        ops += [q('wl', x) for x in [pl] + _neighbours(r, pl, 2) + [pl / 10.0]]
                    ctx.branch('corr:R15:query-close-values')
                elif t < 7:
                    # ---- either side of the zero-loss distance of the object (margin from the code's own value)
                    d0, slope = zero_loss_distance(o, nw, 10.0 ** (hi - 0.5))
                    if d0 is None:
                        continue
                    rt = {'reltol': 1e-3}
                    for delta in (1e-6, 1e-8):
                        dn, up = d0 * (1 - delta), d0 * (1 + delta)
                        if not (float(g.det_db(o, dn, nw)) < -1e-10 and float(g.det_db(o, up, nw)) > 1e-10):
                            continue
                        fl = r.below(2)
                        ops += [['small', fl], q('db', up, rt), q('db', dn), q('dba', [up, 10.0 * d0], rt), q('dba', [dn, up]),
                                ['small', 1 - fl], q('db', dn), q('dba', [10.0 * d0, dn, up]), ['small', 1]]
                        if kind != 'ps7':
                            ops += [['lin', dn], ['lin', up]]
                        ctx.branch('corr:R15:threshold-zero-loss-distance')
                elif kind == 'oh':
                    if r.chance(0.5):
                        name = r.choice(['fc', 'hbs', 'hms'])
                        a, z = PARAM_RANGE['oh'][name]
                        vals = [a, ulp_dn(a), ulp_up(a), a * (1 - 1e-9), a * (1 + 1e-9), z, ulp_up(z), ulp_dn(z), z * (1 + 1e-9),
                                z * (1 - 1e-9), a - 1e-9, z + 1e-9]
                        r.shuffle(vals)
                        for vv in vals[:r.randint(4, 8)]:
                            g.apply_setter(o, name, vv)
                            ops += [[name, vv], ['db', 5.0]]
                        ctx.branch('corr:R15:guard-adjacent-doubles')
                    else:
                        ops += [['area', 'large city'], ['hms', g.nice(r, r.uniform(1.0, 10.0))]]
                        for vv in (300.0, ulp_up(300.0), ulp_dn(300.0), 300.0 * (1 + 1e-9), 300.0 * (1 - 1e-9), 300.0 + 1e-9, 300.0):
                            ops += [['fc', vv], ['db', 5.0], ['dba', [1.0, 20.0]]]
                        g.apply_setter(o, 'area', 'large city')
                        g.apply_setter(o, 'fc', 300.0)
                        ctx.branch('corr:R15:large-city-switch')
        except core.Infra:
            raise
        except Exception as e:
            g.library_exception(ctx, kind, e, {'kind': kind, 'ctor': case['ctor'], 'ops': []})
            continue
        if len(ops) > 1:
            cases.append(case)
            n_fixed += int(fixed)
    # the fixed part always contains one scenario per decision site
    cases.append({'kind': 'oh', 'ctor': None, 'ops': sum([[[nm, vv], ['db', 5.0]] for nm, (a, z) in sorted(PARAM_RANGE['oh'].items())
                                                          for vv in (ulp_dn(a), a, ulp_up(a), ulp_dn(z), z, ulp_up(z))], [['small', 1]])})
    ctx.branch('corr:R15:guard-adjacent-doubles')
    sw = [['small', 1], ['area', 'large city']]
    for vv in (300.0, ulp_up(300.0), ulp_dn(300.0), 300.0 * (1 + 1e-9), 300.0):
        sw += [['fc', vv], ['db', 5.0]]
    cases.append({'kind': 'oh', 'ctor': None, 'ops': sw})
    ctx.branch('corr:R15:large-city-switch')
    for C in (1e-9, -1e-9, 4e-13, -4e-13, 5e-324, -5e-324):
        ex = {'exact': True}
        cases.append({'kind': 'gen', 'ctor': [2.0, C], 'ops': [['small', 0], ['db', 1.0, ex], ['dba', [1.0, 10.0], ex], ['small', 1],
                                                               ['db', 1.0, ex], ['dba', [10.0, 1.0, 1.0], ex], ['lin', 1.0]]})
        ctx.branch('corr:R15:threshold-tiny-loss')
    return cases


BUF_FMTS = [{'buf': 'a'}, {'buf': 'a', 'layout': 'list'}, {'buf': 'a', 'shape': 2, 'layout': 'C'},
            {'buf': 'a', 'shape': 2, 'layout': 'F'}, {'buf': 'a', 'dtype': 'int64'}, {'buf': 'a', 'layout': 'stride2'},
            {'buf': 'a', 'dtype': 'float32'}]


def corr_buffer_cases(ctx, rng, n_random):
    """histories in which EVERY array argument of a kind is one preallocated object refilled in place; the model is
    given the logical contents at call time"""
    g = P()
    cases = []
    for i in range(n_random + 12):
        fixed = i < 12
        r = rng if not fixed else core.Rng(2000 + i, 'c13-r16-fixed')
        kind = ['fs', 'gen', 'gpp', 'ps7', 'oh', 'ant', 'fs', 'ps7', 'oh', 'ps7', 'gen', 'ant'][i % 12] if fixed else \
            r.choice(['fs', 'gen', 'gpp', 'ps7', 'ps7', 'oh', 'ant'])
        f0 = dict(BUF_FMTS[i % len(BUF_FMTS)] if fixed else r.choice(BUF_FMTS))
        n = r.choice([2, 4, 6])
        if f0.get('shape') == 2:
            f0['shape'] = [2, n // 2]
        ints = f0.get('dtype') == 'int64'
        f32 = f0.get('dtype') == 'float32'
        case = {'kind': kind, 'ctor': None, 'ops': [['small', 1]]}
        ops = case['ops']
        try:
            if kind == 'gen':
                case['ctor'] = [g.nice(r, r.uniform(0.5, 5.0)), g.nice(r, r.uniform(20.0, 140.0))]
            if kind == 'ant':
                case['ctor'] = [r.choice([3, 6])]
                ops.pop()
                fa = dict(f0)
                if fa.get('layout') == 'list':
                    fa.pop('layout')
                for _ in range(r.randint(2, 4)):
                    vals = [float(r.randint(-180, 180)) if ints else g.conv_value(r.uniform(-180.0, 180.0), 'float32' if f32 else 'float64', 'angle')
                            for _ in range(n)]
                    ops.append(['ga', vals, dict(fa)])
            else:
                o, _ = g.build({'kind': kind, 'ctor': case['ctor']})
                lo, hi = (0.0, 4.0) if kind == 'ps7' else (0.0, 2.3)
                for k in range(r.randint(2, 4)):
                    if kind in ('fs', 'ps7', 'oh') and r.chance(0.4):
                        op = g.fs_setter(r) if kind == 'fs' else g.oh_setter(r) if kind == 'oh' else ['fc', g.nice(r, g.logu(r, 2.0, 5.0))]
                        if op[0] != 'small':
                            g.apply_setter(o, op[0], op[1])
                            ops.append(op)
                    vals = [10.0 ** r.uniform(lo, hi) for _ in range(n)]
                    if ints:
                        vals = [float(max(1, int(round(v)))) for v in vals]
                    elif f32:
                        vals = [float(np.float32(v)) for v in vals]
                    elif k >= 1 and r.chance(0.3):
                        vals[r.below(n)] = 1e-30
                    fm = {'dtype': f0.get('dtype', 'float64')}
                    nw = r.choice([0, 1, 2, 5])
                    walls = nw
                    t = r.below(6)
                    if kind == 'ps7' and t < 2 and not f32:
                        walls = [0 if r.chance(0.4) else r.randint(1, 6) for _ in range(n)]
                    if not g.safe_values(o, vals, walls if kind == 'ps7' else None, fm):
                        continue
                    if kind == 'ps7':
                        if isinstance(walls, list):
                            if r.chance(0.35) and f0.get('layout') != 'list':
                                same = [float(r.randint(1, 40)) for _ in range(n)]
                                if g.safe_values(o, same, [int(x) for x in same], fm):
                                    ops.append(['dbw', [int(x) for x in same], same, dict(f0, same=1)])
                                    ctx.branch('corr:R16:same-object-two-roles')
                            ops.append(['dbw', walls, vals, dict(f0)])
                        elif t < 5:
                            ops.append(['dba', nw, vals, dict(f0)])
                        elif not f32 and f0.get('layout') != 'list':
                            ops.append(['wdba', nw, [float(r.randint(30, 200)) if ints else g.nice(r, r.uniform(30.0, 220.0)) for _ in range(n)], dict(f0)])
                    else:
                        opn = 'dba' if (kind == 'oh' or t < 3) else 'lina' if t < 4 else 'wdba' if t < 5 else 'wla'
                        if opn in ('wdba', 'wla') and (f32 or f0.get('layout') == 'list'):
                            opn = 'dba'
                        if opn == 'wdba':
                            vals = [float(r.randint(30, 200)) if ints else g.nice(r, r.uniform(30.0, 220.0)) for _ in range(n)]
                        if opn == 'wla':
                            if ints:
                                opn = 'dba'
                            else:
                                vals = [g.logu(r, -15.0, -3.0) for _ in range(n)]
                        ops.append([opn, vals, dict(f0)])
        except core.Infra:
            raise
        except Exception as e:
            g.library_exception(ctx, kind, e, {'kind': kind, 'ctor': case['ctor'], 'ops': []})
            continue
        nbuf = sum(1 for op in ops if isinstance(op[-1], dict) and op[-1].get('buf'))
        if nbuf >= 2:
            cases.append(case)
            ctx.branch('corr:R16:argument-buffer-refilled-in-place')
            ctx.branch('corr:R16:kind:' + kind)
            ctx.branch('corr:R16:buffer:' + ('list' if f0.get('layout') == 'list' else '2d' if isinstance(f0.get('shape'), list)
                                             else 'int' if ints else 'strided' if f0.get('layout') == 'stride2' else 'plain'))
    return cases
