"""C04 — MIMO schemes recover data over any full-rank channel within the power
budget (DESIGN.md §5 C04).

Tie to source: hand model `lean/PyPhysim/Model/C04.lean` (polymorphic in the
scalar; theorems at C, driver at binary64).  The kernels the schemes call
(`np.linalg.pinv / solve / svd`, `pyphysim.util.misc.gmd`) are *tapped* while
the real code runs: their actual arguments and results are recorded, the
results are handed to the model as parameters, the arguments are compared with
what the model says the code hands to the kernel, and the contract the
theorems assume of each result is checked numerically on every case.
"""
import functools
import math
import traceback
import warnings

import numpy as np

from harness import core

MODULE = 'PyPhysim.Properties.C04'
DRIVER = 'drv_c04'
CLAIM = {
    'technique': 'Lean 4 theorems (Mathlib matrices over C, complex exponential/argument, positive-definiteness, '
                 'limits) about an executable polymorphic model of mimo.py; LAPACK kernels are contract '
                 'parameters, the gmd sweep is the proved executable model shared with C20 (the contract-conditional '
                 'forms are kept); seeded differential correspondence at binary64 with tapped kernel calls',
    'text': 'Kernel-checked for every antenna configuration, every channel of full column rank (no bound on size or '
            'condition number), every block length and every noise variance: decode(H encode(x)) = x symbol by '
            'symbol for Blast and MRC with the zero-forcing filter (under the Moore-Penrose contract of pinv), SVD '
            'MIMO (under the svd contract, code after the full_matrices=False repair), GMD MIMO (twice: '
            'gmd_roundtrip under the Q R P^H = H, P^H P = 1 contract, for any routine satisfying it; and '
            'gmd_roundtrip_from_svd / gmd_encode_energy_from_svd / gmd_equal_gain_layers_from_svd from the contract '
            'of the full np.linalg.svd ALONE, 1 <= Nt <= Nr, positive sorted singular values: the executable model '
            'of the Givens sweep of util.misc.gmd raises nothing and the Q, R, P it returns give the round trip, '
            'the energy clauses, Q^H (H P) = R upper triangular with the geometric mean of the singular values on '
            'the whole diagonal, Q R = H P; positive singular values with Nt <= Nr are proved to be full column '
            'rank), MRT (any channel with a non-zero tap; uses '
            'z exp(-j arg z) = |z|) and Alamouti (pure algebra, any non-zero Nr x 2 channel); encode rejects exactly '
            'the block lengths that are not a multiple of the layers and the constructors reject exactly the channel '
            'shapes the scheme cannot use; every channel use radiates 1/Nt of the energy of the symbols it carries '
            '(MRT, Alamouti: exactly the symbol / codeword mean) so the average transmitted energy per channel use '
            'equals the mean symbol energy for every Nt >= 1 and every unitary precoder; the pinv contract gives '
            'W_zf H = 1 and W_zf = (H^H H)^-1 H^H uniquely; what solve returns satisfies (H^H H + s I) W = H^H, is '
            'unique, minimises the mean square error over all linear receivers, satisfies '
            '(H^H H + s I)(W_zf - W) = s W_zf and tends to W_zf entrywise as s -> 0+. The same definitions, compiled '
            'at binary64, are compared with the real classes on every case: arguments the code hands to pinv / '
            'solve / svd / gmd, precoder, receive filter, encoded block, decoded block, guards; first-principles '
            'oracles (round trip, energy with unit-modulus symbols, W H = 1, normal equation + MSE perturbation, '
            'MMSE-ZF distance bound, gmd contract, guards) run on the real code. Objects as state machines '
            '(Model/C04Obj.lean): after ANY history of set_channel_matrix / set_noise_var / encode / decode / '
            'precoder-filter / SINR calls the state is exactly the last accepted channel and noise variance '
            '(rejected calls and observations leave no trace), so every observation equals that of a freshly '
            'configured object; a Blast/MRC object whose configured noise variance is None/0 recovers noise-free '
            'data whatever it decoded before, and on one object the filter after set_noise_var(s) tends to the one '
            'after set_noise_var(0|None). Seeded histories of 2-6 reconfigurations on ONE object per scheme (noise '
            'only, channel only, both in either order, rejected arguments, decodes in between) are replayed step by '
            'step on the model object (kernel results of each step tapped) and compared with a fresh object; the '
            'filter decode() really applies (decoded identity block) is checked against the ZF / MMSE defining '
            'equations of the CURRENT configuration, plus an SNR sweep s -> 0 then None on one object. Every way '
            'of handing the channel over -- constructor argument, set_channel_matrix on a channel-less object, '
            'later replacement (also from the other layout), the same array set twice; vector or matrix layout for '
            'MRC / MRT / Alamouti -- is one object: theorems constructor_is_setter, replacement_is_constructor, '
            'channel_layouts_agree; the stored 2-D channel is read back (model op `channel`) after every '
            'configuration step of every history, and an entry-point oracle checks stored shape, Nr/Nt/layers, '
            'round trip, energy and all observables against a setter-configured object for every scheme x path x '
            'layout on each run. An exception raised by the library anywhere in a correspondence step is recorded as '
            'a broken correspondence and the run continues to the oracles (never a harness crash).',
    'note': 'Oracle-conditional: correctness of the LAPACK kernels np.linalg.pinv / solve / svd is a contract '
            'checked numerically on every case (Moore-Penrose conditions, A W = B, U S V^H = A with orthonormal '
            'factors), not a theorem. The Givens sweep inside util.misc.gmd is NO LONGER only a contract: '
            'gmd_contract_from_svd (Proofs/C04GmdFromSvd.lean on top of Proofs/C20GmdInv*.lean, gmd_sound at K = C) '
            'proves that the executable array model of the sweep (Model/C20Gmd.lean, statement by statement the body '
            'of gmd, instantiated at C as the drivers instantiate it at binary64; sigma_bar = exp(mean(log S)) read '
            'over the reals) returns, for every full SVD contract with p = min(Nr, Nt) >= 1 positive non-increasing '
            'singular values, .ok (Q, R, P) with Q R P^H = H, P^H P = 1, Q^H Q = 1, R upper triangular with constant '
            'diagonal sigma_bar -- the hypothesis of gmd_roundtrip / encode_energy_gmd -- and the ..._from_svd '
            'theorems instantiate them with it. What is proved is a statement about that MODEL of the sweep; the '
            'model is hand-written (not regenerated from the AST) and tied to util.misc.gmd by the C20 correspondence '
            '(drv_c20 `gmd` lines: Q, R, P of the real function against the compiled model on the same U, S, V^H, '
            'real and complex, tol = 0 and tol > 0) and, in this check, by the per-case numeric contract check of '
            'what the real gmd returned inside GMDMimo (Q R P^H = A, unitary Q, P, triangular R with constant '
            'diagonal = geometric mean; a violation is reported with the channel as a finding, call `gmd`) together '
            'with the tapped-call comparison that gmd is handed exactly what svd(channel) returned; a change of the '
            'C20 model breaks the build of this property. gmd_roundtrip / encode_energy_gmd are kept as the '
            'contract-conditional forms (any gmd satisfying the contract). Still contract, not theorem, in the '
            '..._from_svd forms: LAPACK svd (IsFullSvd) and pinv (Moore-Penrose on the equivalent channel Q R; solve '
            'for the MMSE branch, which has no round-trip claim); binary64 rounding of the sweep is outside every '
            'theorem. The real GMDMimo (and SVDMimo) calls numpy`s SVD TWICE on the same array -- once in '
            '_calc_precoder (keeps P, resp. V^H) and once in _calc_receive_filter (keeps Q, R, resp. U, S): the '
            'theorems use ONE triple (U, S, V^H) for both calls, i.e. assume that np.linalg.svd is a deterministic '
            'function of the array contents (two different valid SVDs of one channel would not fit together); the '
            'harness checks Q R (filter call) P^H (precoder call) = H on every case (contract gmd-two-calls). Only '
            'the 2x2 algebra of one Givens step is restated on its own (gmd_step_preserves). '
            'Trusted additions: binary64 rounding (comparisons at 1e-9 relative; measured agreement ~1e-15), the '
            'tap on the kernel calls, the harness. Defects found and fixed: SVDMimo receive filter for Nr > Nt; '
            'Alamouti negations wrapping for unsigned-integer arrays; MRT phases in half/single precision for '
            'narrow-integer channels. Robustness classes: R1 element types (int16/32/64/uint8/float32/complex64 '
            'arrays, Python / numpy scalar noise variances incl. float16 and 0-d arrays) and R2 layouts (Fortran, '
            'transposed, strided, reversed, read-only views; (1,N)/(N,1) data; empty blocks): by theorem only in the '
            'sense that the model is a function of the logical values, so the checks are correspondence (the exotic '
            'input is run on the real code, the model sees its values) + oracles (float64/C-contiguous twin, round '
            'trip, energy, normal equation of the filter decode() applies, result dtypes). R3 immutability / '
            'independence of results: oracle (snapshots of every argument and every earlier result, '
            'shares_memory, scribbling over returned blocks) + arguments-unchanged check in the correspondence; '
            'model outputs are values. R4 rejected calls: theorem rejected_call_keeps_state + histories with '
            'rejected steps in the correspondence + before/after oracle. R5 boundary values (0, 0.0, None, 1, 1.0 '
            'noise variance after a positive one, 1x1, one symbol, 0/1 channels, sizes 7..33): covered by the '
            'all-inputs theorems; correspondence + oracles. R6 scale 1e-12..1e12 on channel and data: theorems are '
            'over C (scale-free); correspondence + oracles, every comparison relative to the input scale. R7 life '
            'cycle: theorems same_configuration_same_object / object_state_is_configuration (objects built with or '
            'without a channel, any order, repeated setters); correspondence on channel-less and repeated-setter '
            'histories; shared channel array between two objects by oracle only. R8 argument forms (applies): '
            'constructor vs setter vs replacement and vector vs matrix layout by theorem (constructor_is_setter, '
            'replacement_is_constructor, channel_layouts_agree, filter_default_noise_var) + correspondence (stored '
            'channel read back, `flt;none`) + oracle; positional vs keyword, omitted vs None vs 0.0, scalar vs 0-d vs '
            'length-1 noise variance, calc_SINRs = dB(calc_linear_SINRs), calc_post_processing_SINRs = '
            'dB(..._linear_SINRs), calc_linear_SINRs forwarding to the module function: oracle + keyword-driven '
            'histories in the correspondence (a keyword is not a value: nothing to state in the model). R9 index / '
            'count arguments: does not apply (no public function of mimo.py takes an index or a count). R10 '
            'heterogeneous collections: does not apply (no list-of-arrays / per-user arguments; mixed element types '
            'ACROSS the arguments of one object are covered by R1). R11 (applies): theorems observation_keeps_state, '
            'configuration_read_back; queries (getNumberOfLayers, Nr, Nt, repr, calc_*SINRs, _calc_precoder / '
            '_calc_receive_filter, module SINR functions) inside the histories with all attributes compared before / '
            'after, configuration read back through the model ops channel / noiseVar / layers. R12 order of '
            'containers: does not apply (no dict / set / named containers). R13 derived objects (applies, generic '
            'Python protocols only: copy, deepcopy, pickle of a scheme object): correspondence (the history continues '
            'on the child; the model says a copy is the same value) + oracle (child = parent, independent both ways, '
            'round trip of the child). R14 counts (applies): 300 receive antennas (MRC), 257 transmit antennas (MRT), '
            '258 x 2 (Alamouti, 300 code words), 258 x 3 (Blast), in thorough also SVD / GMD 257 x 3 and a '
            '65537-antenna MRC: correspondence (<= 300) + oracles; the theorems have no size bound. R15 close-but-distinct '
            'values (applies: `noise_var > 0` decides MMSE / ZF, `>= 0.0` guards, gmd compares singular values with their '
            'geometric mean and counts `S >= tol`, SVD divides by S, both setters): theorems '
            'setter_takes_effect_for_every_new_value, channel_setter_takes_effect_for_every_new_value, '
            'close_channels_give_distinct_objects (no tolerance anywhere in the model: the stored value is the value handed '
            'over), filter_decision_is_exact (every positive noise variance, however small, selects what solve returned for '
            'that very value), mmse_filter_separates_noise_variances (two different noise variances never share an MMSE '
            'filter for a non-zero channel) and zf_filter_is_not_an_mmse_filter (a negligible noise variance is not zero); '
            'oracle `close` on ONE object per scheme: noise variances 4e-12 / 4e-13 / 2e-15 / 0 with a channel of path-loss '
            'scale, 1e-9 vs 1.0000001e-9, relative 1e-6, 2.4e9 vs 2.4e9 + 2e4, adjacent doubles, beyond the 12th decimal; '
            'channels below 1e-8 (all `allclose` to each other), differing by 8e-6 relative, by one ulp, by 1e-13; singular '
            'values 1 + 2e-7 / 1 / 1 - 3e-7, two clusters, tiny, adjacent (gmd function, SVD and GMD schemes): each value gives '
            'the defining equation of the filter decode() applies / the SINR of its definition / the round trip / the gmd '
            'contract for THAT value, and is read back bit for bit; the same sequences as histories in the correspondence, '
            'where read-back of channel and noise variance is now compared exactly and the kernel called (solve vs pinv) must '
            'be the one the exact test selects. R16 argument identity and buffer reuse (applies): Model/C04Buf.lean models the '
            'caller with ONE preallocated channel array against the code as it is (set_channel_matrix keeps the array object) '
            'and against value semantics; theorems refilled_buffer_equals_fresh_object (handing the array over again after '
            'every refill makes the two indistinguishable), last_handed_over_contents_win, and the negative witness '
            'channel_kept_by_reference_fails; correspondence: random caller programs (refill / set(buf) / set(fresh) / '
            'observe through decode) on real objects vs both machines (driver op `buf`), and seeded + Monte Carlo loop '
            'histories whose every array reaches the object through ONE refilled buffer per role; oracle `reuse`: 2-4 rounds '
            'on one object driven ALONE (an identity-keyed memo is not refreshed by the reference computation), references '
            'from fresh objects afterwards, earlier results / buffers unchanged, no result aliasing a buffer; static and '
            'module functions (ZF / MMSE filter, SINR functions, gmd) with refilled arguments; one array in two roles (channel '
            '= transmit data, = received data, encoded block as received data, channel = precoder = filter, U = V^H of gmd); '
            'argument modified right after the call. KNOWN FINDING (genuine, not repaired in this round): '
            'set_channel_matrix / the constructors keep the caller\'s array, so refilling it without handing it over again '
            'changes the object (C04:set_channel_matrix:keeps-the-callers-array; one-line repair np.array(channel); a library '
            'that copies is accepted by the buffer correspondence as value semantics).',
}

RTOL = 1e-9
EPS = 2.220446049250313e-16
MAX_COND = 1e4


def _mimo():
    from pyphysim.mimo import mimo
    return mimo


# ------------------------------------------------------------------ helpers
def enc(a):
    a = np.asarray(a)
    flat = a.reshape(-1)
    if np.iscomplexobj(a):
        return {'shape': list(a.shape), 'kind': 'c', 'data': [[float(z.real), float(z.imag)] for z in flat]}
    return {'shape': list(a.shape), 'kind': 'f', 'data': [float(z) for z in flat]}


def dec(d):
    if d['kind'] == 'c':
        a = np.array([complex(re, im) for re, im in d['data']], dtype=complex)
    else:
        a = np.array(d['data'], dtype=float)
    return a.reshape(d['shape'])


def Hm(a):
    return np.asarray(a).conj().T


def cline(a):
    """row-major, every scalar as re,im bit patterns"""
    flat = np.asarray(a, dtype=complex).reshape(-1)
    if flat.size == 0:
        return '-'
    return ','.join(core.f2s(z.real) + ',' + core.f2s(z.imag) for z in flat)


def parse_c(s, shape):
    if s == '':
        return np.zeros(shape, dtype=complex)
    v = [core.s2f(t) for t in s.split(',')]
    return (np.array(v[0::2]) + 1j * np.array(v[1::2])).reshape(shape)


TOL = {'factor': 1.0}   # widened only while single-precision (float32 / complex64) inputs are exercised


def amax(a):
    """largest modulus of an array (the scale every comparison is relative to); never zero"""
    a = np.asarray(a)
    return max(float(np.abs(a).max()) if a.size else 0.0, 1e-300)


def near(a, b, rtol=RTOL, scale=None):
    """max |a-b| <= rtol * max(max|a|, max|b|) (or the given scale): RELATIVE to the data; shapes must agree"""
    a = np.asarray(a)
    b = np.asarray(b)
    if a.shape != b.shape:
        return False, 'shape %s vs %s' % (a.shape, b.shape)
    if a.size == 0:
        return True, ''
    if not (np.all(np.isfinite(a)) and np.all(np.isfinite(b))):
        return False, 'non-finite'
    s = scale if scale is not None else max(amax(a), amax(b))
    rtol = rtol * TOL['factor']
    err = float(np.abs(a - b).max())
    if err > rtol * s:
        return False, 'max err %.3e (limit %.3e)' % (err, rtol * s)
    return True, ''


def cond2(a):
    s = np.linalg.svd(np.asarray(a, dtype=complex), compute_uv=False)
    return float(s[0] / s[-1]) if s[-1] > 0 else float('inf')


def shape_class(nr, nt):
    if nr == 1 and nt == 1:
        return '1x1'
    if nr == nt:
        return 'Nr=Nt'
    return 'Nr>Nt' if nr > nt else 'Nr<Nt'


class Tap:
    """record (name, args, kwargs, result) of every kernel call made while the real code runs"""
    NAMES = ('pinv', 'solve', 'svd')

    def __enter__(self):
        self.log = []
        self.depth = 0
        self.saved = {n: getattr(np.linalg, n) for n in self.NAMES}
        for n, f in self.saved.items():
            setattr(np.linalg, n, self._wrap(n, f))
        m = _mimo()
        self.saved_gmd = m.gmd
        m.gmd = self._wrap('gmd', m.gmd)
        return self

    def _wrap(self, name, f):
        def g(*a, **kw):
            self.depth += 1
            try:
                r = f(*a, **kw)
            finally:
                self.depth -= 1
            if self.depth == 0:
                self.log.append((name, [np.array(x, copy=True) if isinstance(x, np.ndarray) else x for x in a], dict(kw),
                                 tuple(np.array(x, copy=True) for x in r) if isinstance(r, tuple)
                                 else np.array(r, copy=True)))
            return r
        return g

    def __exit__(self, *exc):
        for n, f in self.saved.items():
            setattr(np.linalg, n, f)
        _mimo().gmd = self.saved_gmd
        return False

    def calls(self, name):
        return [c for c in self.log if c[0] == name]


# --------------------------------------------------------------- generators
class Gen:
    def __init__(self, rng):
        self.rng = rng
        self.rs = np.random.RandomState(rng.u64() % (2 ** 32))

    def raw(self, m, k, cplx=True):
        a = self.rs.randn(m, k)
        return (a + 1j * self.rs.randn(m, k)) / math.sqrt(2) if cplx else a

    def unitary(self, n, cplx=True):
        q, r = np.linalg.qr(self.raw(n, n, cplx))
        d = np.diag(r)
        return q * (d / np.abs(d))

    def channel(self, nr, nt, kind=None):
        """nr x nt, nt <= nr, full column rank, cond <= MAX_COND; returns (H, kind)"""
        kind = kind or self.rng.choice(['gauss', 'gauss', 'gint', 'cond', 'cond', 'neardep', 'real', 'scaled'])
        for _ in range(200):
            if kind == 'gauss':
                a = self.raw(nr, nt)
            elif kind == 'real':
                a = self.raw(nr, nt, False)
            elif kind == 'scaled':
                a = self.raw(nr, nt) * 10.0 ** self.rng.uniform(-3, 3)
            elif kind == 'gint':
                a = self.rs.randint(-3, 4, size=(nr, nt)) + 1j * self.rs.randint(-3, 4, size=(nr, nt))
            elif kind == 'cond':
                c = 10.0 ** self.rng.uniform(0, math.log10(MAX_COND) - 0.05)
                s = np.exp(np.linspace(0, -math.log(c), nt)) if nt > 1 else np.ones(1)
                u = self.unitary(nr)[:, :nt]
                v = self.unitary(nt)
                a = (u * s) @ Hm(v) * 10.0 ** self.rng.uniform(-1, 1)
            else:  # nearly dependent columns
                a = self.raw(nr, nt)
                if nt >= 2:
                    eps = 10.0 ** self.rng.uniform(-math.log10(MAX_COND) + 1.0, -1)
                    w = self.raw(nt - 1, 1)
                    a[:, -1:] = a[:, :-1] @ w + eps * a[:, -1:]
            if np.linalg.matrix_rank(a) == min(nr, nt) and cond2(a) <= MAX_COND:
                return a, kind
            if kind in ('neardep', 'gint'):
                continue
        return self.raw(nr, nt), 'gauss'

    def data(self, n, kind=None):
        kind = kind or self.rng.choice(['psk', 'psk', 'qam', 'gauss', 'gint'])
        if kind == 'psk':
            M = self.rng.choice([2, 4, 8, 16])
            k = self.rs.randint(0, M, size=n)
            x = np.exp(2j * np.pi * k / M)
        elif kind == 'qam':
            lv = np.array([-3, -1, 1, 3])
            x = (lv[self.rs.randint(0, 4, size=n)] + 1j * lv[self.rs.randint(0, 4, size=n)]) / math.sqrt(10.0)
        elif kind == 'gint':
            x = (self.rs.randint(-4, 5, size=n) + 1j * self.rs.randint(-4, 5, size=n)).astype(complex)
        else:
            x = self.raw(n, 1).reshape(-1)
        return x.astype(complex), kind


def make(scheme, H):
    m = _mimo()
    cls = {'blast': m.Blast, 'mrc': m.MRC, 'mrt': m.MRT, 'svd': m.SVDMimo, 'gmd': m.GMDMimo,
           'alamouti': m.Alamouti}[scheme]
    with warnings.catch_warnings():
        warnings.simplefilter('ignore')
        return cls(H)


def layers(scheme, H2):
    """symbols per channel use"""
    return {'blast': H2.shape[1], 'svd': H2.shape[1], 'gmd': H2.shape[1], 'mrc': 1, 'mrt': 1, 'alamouti': 1}[scheme]


def as2d(scheme, H):
    H = np.asarray(H)
    if H.ndim == 1:
        return H[:, None] if scheme == 'mrc' else H[None, :]
    return H


# --------------------------------------------------------------- kernel contracts
def c_pinv(A, G, cond):
    """Moore-Penrose conditions"""
    tol = 1e-11 * max(1.0, cond)
    sA = amax(A)
    sG = amax(G)
    for name, lhs, rhs, s in (('AGA=A', A @ G @ A, A, sA * sA * sG), ('GAG=G', G @ A @ G, G, sG * sG * sA),
                              ('(AG)^H=AG', Hm(A @ G), A @ G, sA * sG), ('(GA)^H=GA', Hm(G @ A), G @ A, sA * sG)):
        ok, why = near(lhs, rhs, tol, scale=s * max(A.shape))
        if not ok:
            return 'pinv %s: %s' % (name, why)
    return None


def c_solve(A, B, W, cond):
    """the residual of a backward-stable solve does not grow with the condition number"""
    s = amax(A) * amax(W) * A.shape[0] ** 2
    ok, why = near(A @ W, B, 1e-10, scale=s)
    return None if ok else 'solve A W = B: ' + why


def c_svd(A, U, S, VH, thin):
    """U S V^H = A, orthonormal columns, S >= 0 non-increasing"""
    k = min(A.shape)
    sA = amax(A) * max(A.shape)
    if S.shape != (k,) or np.any(S < 0) or np.any(np.diff(S) > 0):
        return 'svd S not non-negative non-increasing of length %d' % k
    want_u = (A.shape[0], k) if thin else (A.shape[0], A.shape[0])
    want_v = (k, A.shape[1]) if thin else (A.shape[1], A.shape[1])
    if U.shape != want_u or VH.shape != want_v:
        return 'svd shapes U%s VH%s (thin=%s)' % (U.shape, VH.shape, thin)
    ok, why = near((U[:, :k] * S) @ VH[:k, :], A, 1e-11, scale=sA)
    if not ok:
        return 'svd U S VH = A: ' + why
    ok, why = near(Hm(U) @ U, np.eye(U.shape[1]), 1e-11)
    if not ok:
        return 'svd U^H U = 1: ' + why
    ok, why = near(VH @ Hm(VH), np.eye(VH.shape[0]), 1e-11)
    if not ok:
        return 'svd VH VH^H = 1: ' + why
    return None


def c_gmd(A, Q, R, P, S):
    """Q R P^H = A, Q and P unitary, R real upper triangular with constant diagonal = geometric mean of S"""
    nr, nt = A.shape
    k = min(nr, nt)
    sA = amax(A) * max(A.shape)
    if Q.shape != (nr, nr) or R.shape != (nr, nt) or P.shape != (nt, nt):
        return 'gmd shapes Q%s R%s P%s' % (Q.shape, R.shape, P.shape)
    ok, why = near(Q @ R @ Hm(P), A, 1e-10, scale=sA)
    if not ok:
        return 'gmd Q R P^H = A: ' + why
    ok, why = near(Hm(Q) @ Q, np.eye(nr), 1e-10)
    if not ok:
        return 'gmd Q^H Q = 1: ' + why
    ok, why = near(Hm(P) @ P, np.eye(nt), 1e-10)
    if not ok:
        return 'gmd P^H P = 1: ' + why
    if np.abs(np.tril(R, -1)).max() if R.size else 0.0:
        return 'gmd R not upper triangular'
    gm = float(np.exp(np.mean(np.log(S[:k]))))
    ok, why = near(np.diag(R)[:k], gm * np.ones(k), 1e-10, scale=gm)
    if not ok:
        return 'gmd diag R != geometric mean: ' + why
    return None


# --------------------------------------------------------------- oracles (implementation only)
def case_arrays(case):
    H = dec(case['H'])
    x = dec(case['x']) if 'x' in case else None
    return H, x


def o_roundtrip(case):
    """decode(H . encode(x)) == x for the noise-free channel output (ZF receive filter)"""
    scheme = case['scheme']
    H, x = case_arrays(case)
    H2 = as2d(scheme, H)
    nr, nt = H2.shape
    cls = 'roundtrip:%s:%s' % (scheme, shape_class(nr, nt))
    try:
        obj = make(scheme, H)
        e = obj.encode(x)
        y = H2 @ e
        d = obj.decode(y)
    except Exception as ex:  # the scheme could not carry the block at all
        return cls, 'raised %s: %s' % (type(ex).__name__, str(ex)[:200])
    d = np.asarray(d)
    if d.shape != x.shape:
        return cls, 'decoded shape %s, data shape %s' % (d.shape, x.shape)
    tol = 1e-10 * TOL['factor'] * max(1.0, cond2(H2)) * amax(x)
    err = float(np.abs(d - x).max()) if x.size else 0.0
    if not (err <= tol):
        return cls, 'max |decoded - data| = %.3e > %.3e' % (err, tol)
    return None


def o_energy(case):
    """energy per channel use of encode(x) == mean symbol energy of x (== 1 for unit-energy symbols)"""
    scheme = case['scheme']
    H, x = case_arrays(case)
    H2 = as2d(scheme, H)
    nr, nt = H2.shape
    cls = 'energy:%s:Nt=%d' % (scheme, nt) if nt <= 2 else 'energy:%s:Nt>2' % scheme
    try:
        obj = make(scheme, H)
        e = np.asarray(obj.encode(x))
    except Exception as ex:
        return cls, 'raised %s: %s' % (type(ex).__name__, str(ex)[:200])
    if e.ndim != 2 or e.shape[0] != nt:
        return cls, 'encoded shape %s for Nt=%d' % (e.shape, nt)
    uses = e.shape[1]
    if uses * layers(scheme, H2) != x.size:
        return cls, '%d channel uses for %d symbols on %d layers' % (uses, x.size, layers(scheme, H2))
    if uses == 0:
        return None
    per_use = float((np.abs(e) ** 2).sum()) / uses
    mean_sym = float((np.abs(x) ** 2).mean())
    if abs(per_use - mean_sym) > 1e-10 * TOL['factor'] * mean_sym:
        return cls, 'energy per channel use %.12g, mean symbol energy %.12g' % (per_use, mean_sym)
    if np.all(np.abs(np.abs(x) - 1.0) < 1e-12):
        col = (np.abs(e) ** 2).sum(axis=0)
        if np.abs(col - 1.0).max() > 1e-10 * TOL['factor']:
            return cls, 'unit-modulus symbols but a channel use radiates %.12g' % float(col[np.argmax(np.abs(col - 1))])
    return None


def o_zf(case):
    """W_zf . H == 1"""
    H, _ = case_arrays(case)
    nr, nt = H.shape
    cls = 'zf:' + shape_class(nr, nt)
    W = np.asarray(_mimo().MimoBase._calcZeroForceFilter(H))
    if W.shape != (nt, nr):
        return cls, 'shape %s' % (W.shape,)
    ok, why = near(W @ H, np.eye(nt), 1e-10 * max(1.0, cond2(H)))
    return None if ok else (cls, 'W H != 1: ' + why)


def mse(W, H, nv):
    """E||W(Hx+n) - x||^2 for E[xx^H] = 1, E[nn^H] = nv 1"""
    d = W @ H - np.eye(H.shape[1])
    return float((np.abs(d) ** 2).sum() + nv * (np.abs(W) ** 2).sum())


def o_mmse(case):
    """(H^H H + nv 1) W == H^H, and W minimises the mean square error"""
    H, _ = case_arrays(case)
    nv = case['nv']
    nr, nt = H.shape
    cls = 'mmse:' + shape_class(nr, nt)
    W = np.asarray(_mimo().MimoBase._calcMMSEFilter(H, nv))
    if W.shape != (nt, nr):
        return cls, 'shape %s' % (W.shape,)
    A = Hm(H) @ H + nv * np.eye(nt)
    ok, why = near(A @ W, Hm(H), 1e-9, scale=amax(A) * amax(W) * nt * nt)
    if not ok:
        return cls, 'normal equation: ' + why
    base = mse(W, H, nv)
    rs = np.random.RandomState(case.get('pseed', 0))
    for t in (1e-1, 1e-3):
        D = (rs.randn(nt, nr) + 1j * rs.randn(nt, nr)) * float(np.abs(W).max())
        if mse(W + t * D, H, nv) < base * (1 - 1e-9) - 1e-13:
            return cls, 'a perturbed filter has a smaller mean square error'
    return None


def o_mmse_limit(case):
    """||W_mmse(nv) - W_zf|| <= nv ||(H^H H)^-1|| ||W_zf||  ->  0"""
    H, _ = case_arrays(case)
    nr, nt = H.shape
    cls = 'mmse-limit:' + shape_class(nr, nt)
    m = _mimo()
    Wz = np.asarray(m.MimoBase._calcZeroForceFilter(H))
    s = np.linalg.svd(H, compute_uv=False)
    inv_norm = 1.0 / float(s[-1]) ** 2
    wz = float(np.linalg.norm(Wz, 2))
    base = float(s[0]) ** 2
    prev = None
    for k in case['exps']:
        nv = base * 10.0 ** (-k)
        W = np.asarray(m.MimoBase._calcMMSEFilter(H, nv))
        d = float(np.linalg.norm(W - Wz, 2))
        bound = nv * inv_norm * wz
        slack = 1e-9 * max(1.0, cond2(H)) ** 2 * wz * 1e-3
        if not (d <= bound * (1 + 1e-6) + slack):
            return cls, 'nv=%.3e: ||W_mmse - W_zf|| = %.3e > bound %.3e' % (nv, d, bound)
        prev = d
    if prev is not None and not (prev <= 1e-6 * wz + 1e-9 * max(1.0, cond2(H)) ** 2 * wz * 1e-3):
        return cls, 'does not tend to the ZF filter: last distance %.3e' % prev
    return None


def o_reject(case):
    """the guards: block length not a multiple of the layers, wrong channel shape, negative noise variance"""
    m = _mimo()
    kind = case['kind']
    cls = 'guard:' + kind
    want = {'length': lambda: case['n'] % case['nt'] != 0,
            'alamouti-shape': lambda: case['nt'] != 2,
            'miso-shape': lambda: case['nr'] != 1,
            'noise-var': lambda: case['nv'] is not None and case['nv'] < 0}.get(kind, lambda: None)()
    if want is None:
        return cls, 'unknown guard'
    try:
        if kind == 'length':
            obj = make(case['scheme'], np.eye(case['nr'], case['nt'], dtype=complex) * 2.0
                       + 0.25j * np.ones((case['nr'], case['nt'])))
            obj.encode(np.ones(case['n'], dtype=complex))
        elif kind == 'alamouti-shape':
            m.Alamouti(np.ones((case['nr'], case['nt']), dtype=complex))
        elif kind == 'miso-shape':
            m.MRT(np.ones((case['nr'], case['nt']), dtype=complex))
        else:
            obj = make('blast', np.eye(2, dtype=complex))
            obj.set_noise_var(case['nv'])
            if not want:
                exp = 0.0 if case['nv'] is None else case['nv']
                if obj._noise_var != exp:
                    return cls, 'stored %r for %r' % (obj._noise_var, case['nv'])
    except ValueError:
        return None if want else (cls, 'ValueError for a valid input')
    except Exception as ex:
        return cls, 'raised %s' % type(ex).__name__
    return (cls, 'accepted an input the scheme cannot carry') if want else None


def o_gmd(case):
    """contract of util.misc.gmd on the SVD of the channel"""
    from pyphysim.util.misc import gmd
    H, _ = case_arrays(case)
    nr, nt = H.shape
    cls = 'gmd:' + shape_class(nr, nt)
    U, S, VH = np.linalg.svd(H)
    try:
        Q, R, P = gmd(U, S, VH)
    except Exception as ex:
        return cls, 'raised %s: %s' % (type(ex).__name__, str(ex)[:200])
    why = c_gmd(H, np.asarray(Q), np.asarray(R), np.asarray(P), S)
    return None if why is None else (cls, why)


# ---- object histories: one object, several reconfigurations (real code only) -------------
_BUF = {}


def reuse_buffer(role, a):
    """R16: the caller keeps ONE preallocated array per role (channel / transmit data / received data) and shape
    and refills it in place before every call; what a call does must depend on the contents handed over, not on
    the identity of the array object"""
    a = np.asarray(a)
    key = (role, a.shape, a.dtype.str)
    b = _BUF.get(key)
    if b is None:
        b = _BUF[key] = np.empty(a.shape, dtype=a.dtype)
    b[...] = a
    return b


def arg_wrap(case):
    """how the arrays of a history reach the library: as they are, or (case['reuse'], R16) through refilled buffers"""
    if case.get('reuse'):
        _BUF.clear()
        return reuse_buffer
    return lambda role, a: a


def hist_ops_from_case(case):
    out = []
    for op in case['ops']:
        k = op['op']
        if k == 'sc':
            out.append(('sc', dec(op['H'])))
        elif k == 'nv':
            out.append(('nv', op['v']))
        elif k == 'rt':
            out.append(('rt', dec(op['x'])))
        elif k in ('flt', 'sinr'):
            out.append((k, op['v']))
        elif k == 'cfg':
            out.append(('cfg', None))
        elif k == 'q':
            out.append(('q', op['v']))
        elif k == 'derive':
            out.append(('derive', op['how']))
    return out


KWNAME = {'encode': 'transmit_data', 'decode': 'received_data', 'set_noise_var': 'noise_var',
          'set_channel_matrix': 'channel', 'calc_linear_SINRs': 'noise_var', 'calc_SINRs': 'noise_var'}


def call_m(obj, name, arg, kw=False):
    """one public method, its documented parameter given positionally or by keyword"""
    return getattr(obj, name)(**{KWNAME[name]: arg}) if kw else getattr(obj, name)(arg)


def recv_filter(obj, v, kw=False):
    """`_calc_receive_filter(channel, noise_var=None)`; v = 'omit' leaves the default"""
    if isinstance(v, str):
        return obj._calc_receive_filter(channel=obj._channel) if kw else obj._calc_receive_filter(obj._channel)
    return obj._calc_receive_filter(channel=obj._channel, noise_var=v) if kw else obj._calc_receive_filter(obj._channel, v)


def cfg_of(obj):
    """every attribute of the object, by value"""
    return {k: (np.array(v) if isinstance(v, np.ndarray) else v) for k, v in vars(obj).items()}


def cfg_diff(a, b):
    if set(a) != set(b):
        return 'attributes %s' % sorted(set(a) ^ set(b))
    for k in a:
        u, v = a[k], b[k]
        if isinstance(u, np.ndarray) or isinstance(v, np.ndarray):
            if not (isinstance(u, np.ndarray) and isinstance(v, np.ndarray) and u.shape == v.shape and u.dtype == v.dtype
                    and np.array_equal(u, v)):
                return k
        elif not (u is v or u == v):
            return k
    return None


def derive(obj, how):
    import copy
    import pickle
    return {'copy': copy.copy, 'deepcopy': copy.deepcopy, 'pickle': lambda o: pickle.loads(pickle.dumps(o))}[how](obj)


def run_queries(obj, scheme, v, kw=False):
    """the public non-setters: none of them may change the object"""
    call_impl(lambda: obj.getNumberOfLayers())
    call_impl(lambda: (obj.Nr, obj.Nt))
    call_impl(lambda: (repr(obj), str(obj)))
    call_impl(lambda: call_m(obj, 'calc_linear_SINRs', v, kw))
    call_impl(lambda: call_m(obj, 'calc_SINRs', v, kw))
    call_impl(lambda: (obj._calc_precoder(obj._channel), recv_filter(obj, v, kw), recv_filter(obj, 'omit', kw)))
    call_impl(lambda: _mimo().calc_post_processing_linear_SINRs(obj._channel, obj._calc_precoder(obj._channel),
                                                                recv_filter(obj, v), v))


def used_filter(obj, nr):
    """the receive filter decode() actually applies: decode the identity block"""
    scheme = type(obj).__name__
    d = np.asarray(obj.decode(np.eye(nr, dtype=complex)))
    k = d.size // nr
    return d.reshape((k, nr), order='F' if scheme in ('Blast', 'MRC') else 'C')


def fresh_like(scheme, chan_arg, nv):
    f = make(scheme, chan_arg)
    if hasattr(f, 'set_noise_var'):
        f.set_noise_var(nv)
    return f


def accepted(scheme, Harg):
    """does set_channel_matrix of the class accept this argument (first principles, from the class docs)"""
    Harg = np.asarray(Harg)
    if scheme in ('blast', 'svd', 'gmd'):
        return Harg.ndim == 2
    if scheme == 'mrc':
        return True
    if scheme == 'mrt':
        return Harg.ndim == 1 or Harg.shape[0] == 1
    return Harg.ndim == 1 or Harg.shape[1] == 2


def o_history(case):
    """a reconfigured object behaves like a freshly configured one, its decode() uses the filter defined by the
    CURRENT channel and noise variance (ZF / MMSE defining equations), and recovers noise-free data when the
    noise variance is None / 0; queries (R11) never change an attribute; copies / pickles (R13) are independent of
    and equal to their parent; methods called positionally or by keyword (R8)"""
    scheme = case['scheme']
    kw = bool(case.get('kw'))
    H0 = dec(case['H0']) if case['H0'] is not None else None
    wrap = arg_wrap(case)
    obj = make(scheme, wrap('H', H0) if H0 is not None else None)
    cur_arg, cur_nv = H0, 0.0
    last, since = ('construct' if H0 is not None else 'construct-without-channel'), set()
    fam = scheme in ('blast', 'mrc', 'svd', 'gmd')
    parents = []   # (parent object, its attributes when the child was derived, how)
    with warnings.catch_warnings():
        warnings.simplefilter('ignore')
        for step_i, (k, a) in enumerate(hist_ops_from_case(case)):
            if since:
                last = {('c',): 'channel-only', ('n',): 'noise-only'}.get(tuple(sorted(since)), 'both')
            cls = 'history:%s:after-%s' % (scheme, last)
            where = 'step %d (%s): ' % (step_i, k)
            if k == 'derive':
                snap = cfg_of(obj)
                try:
                    child = derive(obj, a)
                except Exception as ex:
                    return 'R13:%s:%s' % (scheme, a), where + 'raised %s' % type(ex).__name__
                d = cfg_diff(snap, cfg_of(child))
                if d is not None:
                    return 'R13:%s:%s' % (scheme, a), where + 'the %s differs from its parent in %s' % (a, d)
                parents.append((obj, snap, a))
                obj = child
                continue
            if k == 'sc':
                ok = accepted(scheme, a)
                try:
                    call_m(obj, 'set_channel_matrix', wrap('H', a), kw)
                    if not ok:
                        return 'history:%s:guard' % scheme, where + 'accepted a channel the scheme cannot use'
                    cur_arg = a
                    since.add('c')
                except ValueError:
                    if ok:
                        return 'history:%s:guard' % scheme, where + 'rejected a valid channel'
            elif k == 'nv':
                try:
                    call_m(obj, 'set_noise_var', a, kw)
                    if not fam or (a is not None and a < 0):
                        return 'history:%s:guard' % scheme, where + 'accepted noise variance %r' % (a,)
                    cur_nv = 0.0 if a is None else a
                    since.add('n')
                except (ValueError, AttributeError):
                    if fam and (a is None or a >= 0):
                        return 'history:%s:guard' % scheme, where + 'rejected noise variance %r' % (a,)
            if k in ('sc', 'nv'):
                for par, snap, how in parents:   # R13: configuring the child must not reach the parent
                    d = cfg_diff(snap, cfg_of(par))
                    if d is not None:
                        return 'R13:%s:%s' % (scheme, how), where + 'changed %s of the object it was derived from' % d
                continue
            before = cfg_of(obj)
            r = _observe_step(obj, scheme, k, a, cur_arg, cur_nv, cls, where, kw, wrap)
            if r is not None:
                return r
            d = cfg_diff(before, cfg_of(obj))
            if d is not None:
                return 'R11:%s:%s' % (scheme, k), where + 'a call that is not a setter changed %s' % d
            since = set()
    return None


def _observe_step(obj, scheme, k, a, cur_arg, cur_nv, cls, where, kw, wrap=lambda role, a: a):
    """one non-mutating step of a history, compared with a fresh object of the current configuration (the fresh
    object always gets arrays of its own; the object under test gets them through `wrap`, see arg_wrap)"""
    fam = scheme in ('blast', 'mrc', 'svd', 'gmd')
    f = fresh_like(scheme, cur_arg, cur_nv)
    if k == 'q':
        run_queries(obj, scheme, a, kw)
        return None
    if k == 'cfg':
        for nm, g_ in (('_channel', lambda o: o._channel), ('_noise_var', lambda o: o._noise_var),
                       ('getNumberOfLayers', lambda o: o.getNumberOfLayers()), ('Nr, Nt', lambda o: (o.Nr, o.Nt))):
            r1, r2 = call_impl(lambda: g_(obj)), call_impl(lambda: g_(f))
            same = r1[0] == r2[0] and (r1[0] != 'ok' or (np.shape(r1[1]) == np.shape(r2[1]) and (
                np.array_equal(r1[1], r2[1]) if isinstance(r1[1], np.ndarray) else r1[1] == r2[1] or (r1[1] is None and r2[1] is None))))
            if not same:
                return cls, where + '%s reads %s, a fresh object %s' % (nm, str(r1)[:60], str(r2)[:60])
        return None
    if cur_arg is None:
        # no channel yet: the object must answer exactly like a fresh channel-less one
        probe = {'rt': [lambda o: call_m(o, 'encode', np.array(a), kw), lambda o: call_m(o, 'decode', np.ones((1, 2), dtype=complex), kw)],
                 'flt': [lambda o: (o._calc_precoder(o._channel), recv_filter(o, 'omit' if a is None else a, kw))],
                 'sinr': [lambda o: call_m(o, 'calc_linear_SINRs', a, kw)]}[k]
        for fn in probe:
            r1, r2 = call_impl(lambda: fn(obj)), call_impl(lambda: fn(f))
            if r1[0] != r2[0] or (r1[0] == 'ok' and not near(np.asarray(r1[1]), np.asarray(r2[1]))[0]):
                return cls, where + 'without a channel: %s, fresh object: %s' % (r1[0], r2[0])
        return None
    H2 = as2d(scheme, cur_arg)
    nr, nt = H2.shape
    c = cond2(H2) if min(H2.shape) else 1.0
    if k == 'rt':
        x = a
        try:
            e, ef = call_m(obj, 'encode', wrap('x', x), kw), f.encode(x)
            y = H2 @ e
            d, df = np.asarray(call_m(obj, 'decode', wrap('y', y), kw)), np.asarray(f.decode(y))
        except Exception as ex:
            return cls, where + 'raised %s: %s' % (type(ex).__name__, str(ex)[:150])
        ok, why = near(e, ef)
        if not ok:
            return cls, where + 'encode differs from a fresh object: ' + why
        sc = xscale(c, x)
        ok, why = near(d, df, scale=sc)
        if not ok:
            return cls, where + 'decode differs from a fresh object (noise_var=%r): %s' % (cur_nv, why)
        if (not fam) or cur_nv == 0.0 or scheme == 'svd':
            ok, why = near(d, x, 1e-10, scale=sc)
            if not ok:
                return cls, where + 'noise-free round trip with noise_var=%r: %s' % (cur_nv, why)
        if scheme in ('blast', 'mrc', 'gmd'):
            # defining equation of the filter decode() really used, for the CURRENT configuration
            G = used_filter(obj, nr) / math.sqrt(nt)
            Heq = H2 @ (np.asarray(f._calc_precoder(H2)) * math.sqrt(nt))
            if cur_nv > 0:
                A = Hm(Heq) @ Heq + cur_nv * np.eye(nt)
                ok, why = near(A @ G, Hm(Heq), 1e-9, scale=amax(A) * amax(G) * nt * nt)
                if not ok:
                    return cls, where + 'filter used by decode is not the MMSE filter for noise_var=%r: %s' % (cur_nv, why)
            else:
                ok, why = near(G @ Heq, np.eye(nt), 1e-10 * max(1.0, c))
                if not ok:
                    return cls, where + 'filter used by decode is not the zero-forcing filter: ' + why
    elif k == 'flt':
        if scheme == 'alamouti':
            return None
        try:
            W, G = obj._calc_precoder(obj._channel), recv_filter(obj, 'omit' if a is None else a, kw)
            Wf, Gf = f._calc_precoder(f._channel), f._calc_receive_filter(f._channel, 0.0 if a is None else a)
        except Exception as ex:
            return cls, where + 'raised %s' % type(ex).__name__
        for u, v, nm in ((W, Wf, 'precoder'), (G, Gf, 'filter')):
            ok, why = near(np.asarray(u), np.asarray(v), scale=max(1.0, c) * 4 * amax(np.asarray(v)))
            if not ok:
                return cls, where + nm + ' differs from a fresh object: ' + why
    elif k == 'sinr':
        try:
            s1, s2 = sinr_lin(scheme, call_m(obj, 'calc_linear_SINRs', a, kw)), sinr_lin(scheme, f.calc_linear_SINRs(a))
        except Exception as ex:
            return cls, where + 'raised %s' % type(ex).__name__
        ok, why = near(s1, s2, 1e-7)
        if not ok:
            return cls, where + 'calc_linear_SINRs differs from a fresh object: ' + why
    return None


def o_sweep(case):
    """SNR sweep on ONE object: decode with decreasing noise variances, then None: the filter decode() uses tends
    to the zero-forcing filter and the noise-free round trip comes back"""
    scheme = case['scheme']
    H = dec(case['H'])
    H2 = as2d(scheme, H)
    nr, nt = H2.shape
    cls = 'sweep:%s:%s' % (scheme, shape_class(nr, nt))
    x = dec(case['x'])
    with warnings.catch_warnings():
        warnings.simplefilter('ignore')
        obj = make(scheme, H)
        Wp = np.asarray(obj._calc_precoder(H2)) * math.sqrt(nt)
        Heq = H2 @ Wp
        sv = np.linalg.svd(Heq, compute_uv=False)
        Gz = np.linalg.pinv(Heq)  # reference zero-forcing filter of the (equivalent) channel
        inv_norm, wz, base = 1.0 / float(sv[-1]) ** 2, float(np.linalg.norm(Gz, 2)), float(sv[0]) ** 2
        c = cond2(H2)
        e = obj.encode(x)
        y = H2 @ e
        for k in case['exps']:
            nv = base * 10.0 ** (-k)
            obj.set_noise_var(nv)
            obj.decode(y)
            G = used_filter(obj, nr) / math.sqrt(nt)
            dist = float(np.linalg.norm(G - Gz, 2))
            bound = nv * inv_norm * wz
            slack = 1e-12 * max(1.0, c) ** 2 * wz
            if not (dist <= bound * (1 + 1e-6) + slack):
                return cls, 'noise_var=%.3e: ||filter used by decode - W_zf|| = %.3e > %.3e' % (nv, dist, bound)
        obj.set_noise_var(case.get('final'))
        d = np.asarray(obj.decode(y))
        ok, why = near(d, x, 1e-10, scale=xscale(c, x))
        if not ok:
            return cls, 'after the sweep, set_noise_var(%r) does not give back the noise-free round trip: %s' % (case.get('final'), why)
        G = used_filter(obj, nr) / math.sqrt(nt)
        ok, why = near(G @ Heq, np.eye(nt), 1e-10 * max(1.0, c))
        if not ok:
            return cls, 'after the sweep the filter used by decode is not zero forcing: ' + why
    return None


# ================= robustness classes R1-R7 (real code only; first principles / float64 twin) =================
class tol_factor:
    """widen every tolerance while single-precision inputs are exercised"""

    def __init__(self, f):
        self.f = f

    def __enter__(self):
        self.old = TOL['factor']
        TOL['factor'] = self.f

    def __exit__(self, *a):
        TOL['factor'] = self.old
        return False


INT_DT = ('int16', 'int32', 'int64', 'uint8')
F32_DT = ('float32', 'complex64')
SCALAR_T = {'float': float, 'int': int, 'int8': np.int8, 'uint8': np.uint8, 'int16': np.int16, 'uint16': np.uint16,
            'int32': np.int32, 'int64': np.int64, 'float32': np.float32, 'float16': np.float16,
            'array0d': lambda v: np.array(float(v))}


def cast_arr(a, dt):
    """the same VALUES in another element type (values are chosen representable)"""
    a = np.asarray(a)
    if dt in ('complex128', None):
        return np.array(a, dtype=complex)
    if dt == 'float64':
        return np.array(a.real, dtype=float)
    if dt == 'complex64':
        return np.array(a, dtype=np.complex64)
    out = np.array(a.real, dtype=dt)
    assert np.array_equal(out.astype(float), a.real) and not np.any(a.imag), 'value not representable in ' + dt
    return out


def mk_scalar(v, t):
    if v is None or t in (None, 'none'):
        return v
    return SCALAR_T[t](v)


def is_single(*dts):
    return any(d in F32_DT for d in dts)


def sinr_lin(scheme, v):
    """calc_linear_SINRs answers in dB for every class but Alamouti; compare ratios, not dB values near 0"""
    v = np.atleast_1d(np.asarray(v, dtype=float))
    return v if scheme == 'alamouti' else 10.0 ** (v / 10.0)


def observe_all(obj, scheme, x, nv_q):
    """every observable of an object for data x: encode, channel output, decode, filter used by decode,
    precoder / filter pair and SINRs for noise variance nv_q"""
    out = {}
    e = np.asarray(obj.encode(x))
    out['encode'] = e
    H2 = np.asarray(obj._channel)
    y = H2 @ e
    out['decode'] = np.asarray(obj.decode(y))
    if scheme != 'alamouti':
        out['precoder'] = np.asarray(obj._calc_precoder(obj._channel))
        out['filter'] = np.atleast_2d(np.asarray(obj._calc_receive_filter(obj._channel, nv_q)))
    out['sinr'] = sinr_lin(scheme, obj.calc_linear_SINRs(nv_q))
    return out


def cmp_obs(a, b, c, x, what, skip=()):
    for k in a:
        if k in skip:
            continue
        sc = None
        if k == 'decode':
            sc = xscale(c, x)
        elif k == 'filter':
            sc = max(1.0, c) * 4 * amax(b[k])
        ok, why = near(a[k], np.asarray(b[k]).reshape(np.asarray(a[k]).shape) if np.asarray(a[k]).size == np.asarray(b[k]).size
                       else b[k], 1e-7 if k == 'sinr' else RTOL, scale=sc)
        if not ok:
            return '%s: %s differs from %s: %s' % (k, k, what, why)
    return None


def first_principles(obj, scheme, H2f, x, nv, c):
    """round trip (ZF) / normal equation of the filter decode() really applies (MMSE) for the logical values"""
    nr, nt = H2f.shape
    fam = scheme in ('blast', 'mrc', 'svd', 'gmd')
    e = np.asarray(obj.encode(x))
    if e.dtype.kind not in 'fc':
        return 'encode returned dtype %s' % e.dtype
    d = np.asarray(obj.decode(np.asarray(obj._channel) @ e))
    if d.dtype.kind not in 'fc':
        return 'decode returned dtype %s' % d.dtype
    xf = np.asarray(x, dtype=complex).reshape(-1)
    uses = e.shape[1]
    if uses:
        per_use, mean_sym = float((np.abs(e.astype(complex)) ** 2).sum()) / uses, float((np.abs(xf) ** 2).mean())
        if abs(per_use - mean_sym) > 1e-10 * TOL['factor'] * mean_sym:
            return 'energy per channel use %.12g, mean symbol energy %.12g' % (per_use, mean_sym)
    if (not fam) or scheme == 'svd' or nv is None or float(nv) == 0.0:
        ok, why = near(d, xf, 1e-10, scale=xscale(c, xf))
        return None if ok else 'noise-free round trip: ' + why
    nvf = float(nv)
    G = used_filter(obj, nr) / math.sqrt(nt)
    Wp = np.asarray(obj._calc_precoder(obj._channel), dtype=complex) * math.sqrt(nt)  # what the object transmits with
    Heq = H2f @ Wp
    A = Hm(Heq) @ Heq + nvf * np.eye(nt)
    ok, why = near(A @ G, Hm(Heq), 1e-9, scale=amax(A) * amax(G) * nt * nt)
    return None if ok else 'filter used by decode is not the MMSE filter for noise_var=%r: %s' % (nvf, why)


def o_dtype(case):
    """R1: the same values in another element type give the result of the float64 / complex128 twin"""
    scheme = case['scheme']
    H, x = dec(case['H']), dec(case['x'])
    hdt, xdt, nvt, nv = case.get('hdt'), case.get('xdt'), case.get('nvt'), case.get('nv')
    tag = ','.join(t for t in ('H=%s' % hdt if hdt else '', 'x=%s' % xdt if xdt else '', 'nv=%s' % nvt if nvt else '') if t)
    cls = 'R1:%s:%s' % (scheme, tag or 'float64')
    fam = scheme in ('blast', 'mrc', 'svd', 'gmd')
    with warnings.catch_warnings(), tol_factor(1e5 if is_single(hdt, xdt) else 1.0):
        warnings.simplefilter('ignore')
        try:
            Hv, xv, nvv = cast_arr(H, hdt), cast_arr(x, xdt), mk_scalar(nv, nvt)
            # real element types get a real twin: LAPACK's real and complex drivers may pick different phases
            Ht = np.array(H.real, dtype=float) if Hv.dtype.kind in 'iuf' else np.array(H, dtype=complex)
            xt = np.array(x, dtype=complex)
            obj, twin = make(scheme, Hv), make(scheme, Ht)
            if fam:
                obj.set_noise_var(nvv)
                twin.set_noise_var(None if nv is None else float(nv))
            H2f = as2d(scheme, np.array(H, dtype=complex))
            c = cond2(H2f)
            nv_q = 0.5 * amax(H) ** 2
            a, bt = observe_all(obj, scheme, xv, nv_q), observe_all(twin, scheme, xt, nv_q)
            for k, v in a.items():
                if v.dtype.kind not in 'fc':
                    return cls, '%s returned dtype %s (truncating)' % (k, v.dtype)
            # singular vectors are fixed only up to a phase: a single-precision LAPACK run may pick another one
            skip = ('encode', 'precoder', 'filter') if (scheme in ('svd', 'gmd') and is_single(hdt)) else ()
            why = cmp_obs(a, bt, c, xt, 'the float64 twin', skip) or first_principles(obj, scheme, H2f, xv, nv, c)
        except Exception as ex:
            return cls, 'raised %s: %s' % (type(ex).__name__, str(ex)[:150])
    return None if why is None else (cls, why)


LAYOUTS = ('F', 'T', 'strided', 'rev', 'readonly')


def relayout(A, lay):
    """the same values in another memory layout"""
    A = np.asarray(A)
    if lay in (None, 'C'):
        return np.ascontiguousarray(A)
    if lay == 'F':
        return np.asfortranarray(A)
    if lay == 'readonly':
        out = np.array(A)
        out.setflags(write=False)
        return out
    if lay == 'rev':
        return np.ascontiguousarray(A[(slice(None, None, -1),) * A.ndim])[(slice(None, None, -1),) * A.ndim]
    if lay == 'T':
        return np.ascontiguousarray(A.T).T if A.ndim == 2 else relayout(A, 'strided')
    big = np.zeros(tuple(3 * d for d in A.shape), dtype=A.dtype)
    view = big[(slice(1, None, 3),) * A.ndim]
    view[...] = A
    return view


def o_layout(case):
    """R2: non-contiguous / Fortran / reversed / read-only views and (1,N)/(N,1) data give, position by position,
    the result of the C-contiguous copy"""
    scheme = case['scheme']
    H, x = dec(case['H']), dec(case['x'])
    hl, xl, yl, nv = case.get('hl'), case.get('xl'), case.get('yl'), case.get('nv', 0.0)
    tag = ','.join(t for t in ('H=%s' % hl if hl else '', 'x=%s' % xl if xl else '', 'Y=%s' % yl if yl else '') if t)
    cls = 'R2:%s:%s' % (scheme, tag or 'C')
    fam = scheme in ('blast', 'mrc', 'svd', 'gmd')
    with warnings.catch_warnings():
        warnings.simplefilter('ignore')
        try:
            Hv = relayout(H, hl)
            xv = x.reshape(1, -1) if xl == 'row' else x.reshape(-1, 1) if xl == 'col' else relayout(x, xl)
            obj, twin = make(scheme, Hv), make(scheme, np.ascontiguousarray(H))
            if fam:
                obj.set_noise_var(nv)
                twin.set_noise_var(nv)
            e, et = np.asarray(obj.encode(xv)), np.asarray(twin.encode(np.ascontiguousarray(x)))
            ok, why = near(e, et, 1e-12)
            if not ok:
                return cls, 'encode differs from the C-contiguous copy: ' + why
            H2 = as2d(scheme, H)
            y = np.ascontiguousarray(H2 @ et)
            d, dt_ = np.asarray(obj.decode(relayout(y, yl))), np.asarray(twin.decode(y))
            ok, why = near(d, dt_, 1e-12, scale=xscale(cond2(H2), x))
            if not ok:
                return cls, 'decode differs from the C-contiguous copy: ' + why
            if d.ndim != 1:
                return cls, 'decode returned shape %s' % (d.shape,)
        except Exception as ex:
            return cls, 'raised %s: %s' % (type(ex).__name__, str(ex)[:150])
    return None


def o_immutable(case):
    """R3: no call changes an argument, results of earlier calls never change later, results are fresh arrays"""
    scheme = case['scheme']
    H, x, nv = dec(case['H']), dec(case['x']), case.get('nv', 0.0)
    fam = scheme in ('blast', 'mrc', 'svd', 'gmd')
    cls0 = 'R3:%s:' % scheme
    kept = []   # (name, live array, snapshot, is_input)

    def keep(name, a, is_input):
        kept.append((name, a, np.array(a, copy=True), is_input))

    def verify(after):
        for name, a, snap, is_input in kept:
            if a.shape != snap.shape or not np.array_equal(a, snap):
                return (cls0 + ('input-mutated:' if is_input else 'output-changed:') + name,
                        '%s changed after %s' % (name, after))
        return None

    def fresh_output(name, out, inputs):
        for nm, arr in inputs:
            if np.shares_memory(out, arr):
                return cls0 + 'output-aliases-input:' + name, '%s shares memory with %s' % (name, nm)
        return None
    with warnings.catch_warnings():
        warnings.simplefilter('ignore')
        try:
            Hin = np.array(H)
            keep('channel', Hin, True)
            obj = make(scheme, Hin)
            if fam:
                obj.set_noise_var(nv)
            for rnd in range(2):
                x1 = np.array(x) * (1 + rnd)
                keep('transmit_data#%d' % rnd, x1, True)
                e1 = obj.encode(x1)
                r = verify('encode') or fresh_output('encode', e1, [('transmit_data', x1), ('channel', Hin)])
                if r:
                    return r
                keep('encode#%d' % rnd, e1, False)
                y = np.array(as2d(scheme, Hin) @ e1)
                keep('received_data#%d' % rnd, y, True)
                d1 = obj.decode(y)
                r = verify('decode') or fresh_output('decode', d1, [('received_data', y), ('channel', Hin), ('encode', e1)])
                if r:
                    return r
                keep('decode#%d' % rnd, d1, False)
                if scheme != 'alamouti':
                    W, G = obj._calc_precoder(obj._channel), obj._calc_receive_filter(obj._channel, 0.3 * amax(H) ** 2)
                    if isinstance(W, np.ndarray):
                        keep('precoder#%d' % rnd, W, False)
                    if isinstance(G, np.ndarray):
                        keep('filter#%d' % rnd, G, False)
                s1 = obj.calc_linear_SINRs(0.3 * amax(H) ** 2)
                if isinstance(s1, np.ndarray) and s1.ndim:
                    keep('sinr#%d' % rnd, s1, False)
                r = verify('the precoder / filter / SINR queries')
                if r:
                    return r
                if fam:
                    obj.set_noise_var(0.2 * amax(H) ** 2 if rnd == 0 else None)
                    obj.decode(y)
                H2n = np.array(H) * 1.5
                keep('channel(new)#%d' % rnd, H2n, True)
                obj.set_channel_matrix(H2n)
                obj.decode(np.array(as2d(scheme, H2n) @ obj.encode(x1)))
                r = verify('reconfiguring and decoding again')
                if r:
                    return r
            # scribbling over a returned array must not reach into the object
            ref = np.array(obj.encode(x))
            out = obj.encode(x)
            out[...] = 0
            again = obj.encode(x)
            if not np.array_equal(np.asarray(again), ref):
                return cls0 + 'internal-buffer:encode', 'overwriting a returned block changed the next encode'
            y = np.array(np.asarray(obj._channel) @ ref)
            refd = np.array(obj.decode(y))
            out = obj.decode(y)
            out[...] = 0
            if not np.array_equal(np.asarray(obj.decode(y)), refd):
                return cls0 + 'internal-buffer:decode', 'overwriting a returned block changed the next decode'
        except Exception as ex:
            return cls0 + 'exception', 'raised %s: %s' % (type(ex).__name__, str(ex)[:150])
    return None


def bad_channel(scheme, H):
    H2 = as2d(scheme, H)
    if scheme in ('blast', 'svd', 'gmd'):
        return H2[:, 0].copy()           # 1-D
    if scheme == 'mrt':
        return np.vstack([H2, H2])       # two receive antennas
    if scheme == 'alamouti':
        return np.hstack([H2, H2[:, :1]])  # three transmit antennas
    return None


def state_of(obj, scheme, x):
    """everything observable about the object (values, not identities)"""
    st = {'channel': None if obj._channel is None else np.array(obj._channel),
          'noise_var': getattr(obj, '_noise_var', None),
          'layers': call_impl(obj.getNumberOfLayers)[1]}
    if obj._channel is not None:
        st.update({k: np.array(v) for k, v in observe_all(obj, scheme, x, 0.3 * amax(obj._channel) ** 2).items()})
    return st


def same_state(a, b):
    for k in a:
        u, v = a[k], b[k]
        if isinstance(u, np.ndarray) or isinstance(v, np.ndarray):
            if u is None or v is None or np.asarray(u).shape != np.asarray(v).shape or not np.array_equal(u, v):
                return k
        elif u != v:
            return k
    return None


def o_rejected(case):
    """R4: a call that raises leaves the object exactly as it was; afterwards it still behaves like a fresh one"""
    scheme, bad = case['scheme'], case['bad']
    H, x, nv = dec(case['H']), dec(case['x']), case.get('nv', 0.0)
    fam = scheme in ('blast', 'mrc', 'svd', 'gmd')
    cls = 'R4:%s:%s' % (scheme, bad)
    with warnings.catch_warnings():
        warnings.simplefilter('ignore')
        try:
            obj = make(scheme, np.array(H))
            if fam:
                obj.set_noise_var(nv)
            before = state_of(obj, scheme, x)
            H2 = as2d(scheme, H)
            call = {'channel': lambda: obj.set_channel_matrix(bad_channel(scheme, H)),
                    'noise': lambda: obj.set_noise_var(-0.5),
                    'length': lambda: obj.encode(np.concatenate([x, x[:1]])),
                    'rows': lambda: obj.decode(np.ones((H2.shape[0] + 1, 2), dtype=complex))}[bad]
            try:
                call()
                return cls, 'the call was accepted'
            except Exception:
                pass
            k = same_state(before, state_of(obj, scheme, x))
            if k is not None:
                return cls, 'the rejected call changed %s' % k
            f = make(scheme, np.array(H))
            nv2 = 0.1 * amax(H) ** 2
            if fam:
                obj.set_noise_var(nv2)
                f.set_noise_var(nv2)
            k = same_state(state_of(f, scheme, x), state_of(obj, scheme, x))
            if k is not None:
                return cls, 'after the rejected call %s differs from an object that never saw it' % k
        except Exception as ex:
            return cls, 'raised %s: %s' % (type(ex).__name__, str(ex)[:150])
    return None


def relabel(r, cls):
    return None if r is None else (cls, '[%s] %s' % r)


def o_boundary(case):
    """R5: exact 0 / 0.0 / None / 1 noise variances (also right after a positive one), 1x1 channels, one symbol,
    0/1 channels, size boundaries -- through the round-trip, energy and history oracles"""
    scheme, kind = case['scheme'], case['kind']
    cls = 'R5:%s:%s' % (scheme, kind)
    if kind == 'noise-values':
        x = case['x']
        ops = []
        for v in case['values']:
            ops += [{'op': 'nv', 'v': v}, {'op': 'rt', 'x': x}]
        return relabel(o_history({'scheme': scheme, 'H0': case['H'], 'ops': ops}), cls)
    sub = {'scheme': scheme, 'H': case['H'], 'x': case['x']}
    return relabel(o_roundtrip(sub) or o_energy(sub) or o_immutable(dict(sub, nv=0.0)), cls)


def o_scale(case):
    """R6: the whole input multiplied by 1e-12 ... 1e12 (channel and/or data): every property still holds, all
    comparisons relative to the input scale"""
    scheme = case['scheme']
    hs, xs = case['hs'], case['xs']
    cls = 'R6:%s:H*%.0e,x*%.0e' % (scheme, hs, xs)
    H, x = dec(case['H']) * hs, dec(case['x']) * xs
    sub = {'scheme': scheme, 'H': enc(H), 'x': enc(x)}
    r = o_roundtrip(sub) or o_energy(sub)
    if r is None and scheme in ('blast', 'mrc', 'gmd'):
        nv = case['nv_rel'] * amax(H) ** 2
        hist = {'scheme': scheme, 'H0': enc(H), 'ops': [{'op': 'nv', 'v': nv}, {'op': 'rt', 'x': enc(x)}, {'op': 'sinr', 'v': nv},
                                                         {'op': 'nv', 'v': None}, {'op': 'rt', 'x': enc(x)}]}
        r = o_history(hist) or o_sweep({'scheme': scheme, 'H': enc(H), 'x': enc(x), 'exps': [2, 6, 12], 'final': None})
        if r is None and scheme == 'blast':
            r = o_zf({'H': enc(H)}) or o_mmse({'H': enc(H), 'nv': nv, 'pseed': 1}) or o_gmd({'H': enc(H)})
    return relabel(r, cls)


def o_lifecycle(case):
    """R7: objects built without a channel, setters in any order and repeated, one channel array shared by two
    objects: always the behaviour of a freshly built object with the current configuration"""
    scheme, kind = case['scheme'], case['kind']
    cls = 'R7:%s:%s' % (scheme, kind)
    if kind in ('late-channel', 'repeated-setters'):
        return relabel(o_history(case['history']), cls)
    # shared-channel: the SAME ndarray configures two objects; work on one must not show in the other
    H, x = dec(case['H']), dec(case['x'])
    other = case['other']
    with warnings.catch_warnings():
        warnings.simplefilter('ignore')
        try:
            shared = np.array(H)
            snap = shared.copy()
            a, b_ = make(scheme, shared), make(other, shared)
            xb = dec(case['xb'])
            ref_b = state_of(make(other, np.array(H)), other, xb)
            for _ in range(2):
                e = a.encode(x)
                a.decode(as2d(scheme, shared) @ e)
                if hasattr(a, 'set_noise_var'):
                    a.set_noise_var(0.3 * amax(H) ** 2)
                    a.decode(as2d(scheme, shared) @ e)
                    a.set_noise_var(None)
                if not np.array_equal(shared, snap):
                    return cls, 'using one object changed the shared channel array'
                k = same_state(ref_b, state_of(b_, other, xb))
                if k is not None:
                    return cls, 'using one object changed %s of the object sharing its channel' % k
            a.set_channel_matrix(np.array(H) * 2.0)
            k = same_state(ref_b, state_of(b_, other, xb))
            if k is not None:
                return cls, 're-pointing one object changed %s of the other' % k
        except Exception as ex:
            return cls, 'raised %s: %s' % (type(ex).__name__, str(ex)[:150])
    return None


# ---- every way of handing the channel to a scheme ------------------------------------------------------
ENTRY_PATHS = ('ctor', 'setter', 'replace', 'replace-other-layout', 'set-twice')


def stored_shape(scheme, H2):
    """what the class documents it keeps: always the 2-D channel (MRC Nr x 1, MRT 1 x Nt, Alamouti Nr x 2)"""
    return tuple(H2.shape)


def channel_arg(scheme, H2, layout):
    """the documented layouts of one logical channel: 'matrix' (2-D) or 'vector' (MRC: Nr gains, MRT: Nt gains,
    Alamouti: the two gains of a single receive antenna)"""
    H2 = np.asarray(H2)
    if layout == 'matrix':
        return np.array(H2)
    assert (scheme == 'mrc' and H2.shape[1] == 1) or (scheme in ('mrt', 'alamouti') and H2.shape[0] == 1)
    return np.array(H2.reshape(-1))


def build_by(scheme, path, arg, other):
    """the object configured with `arg` through one of the entry points"""
    m = _mimo()
    cls = {'blast': m.Blast, 'mrc': m.MRC, 'mrt': m.MRT, 'svd': m.SVDMimo, 'gmd': m.GMDMimo, 'alamouti': m.Alamouti}[scheme]
    if path == 'ctor':
        return cls(arg)
    if path == 'setter':
        o = cls()
        o.set_channel_matrix(arg)
        return o
    if path in ('replace', 'replace-other-layout'):
        o = cls(other)
        o.set_channel_matrix(arg)
        return o
    o = cls(arg)          # set-twice: the constructor and then the setter again with the same array
    o.set_channel_matrix(arg)
    o.set_channel_matrix(arg)
    return o


def o_entry(case):
    """constructor argument, set_channel_matrix on a channel-less object, later replacement (also from the other
    layout), vector or matrix layout: always the same stored 2-D channel, Nr / Nt / layers, round trip, energy and
    observables"""
    scheme, path, layout = case['scheme'], case['path'], case['layout']
    H2, x, nv = dec(case['H']), dec(case['x']), case.get('nv', 0.0)
    cls = 'entry:%s:%s:%s' % (scheme, path, layout)
    fam = scheme in ('blast', 'mrc', 'svd', 'gmd')
    with warnings.catch_warnings():
        warnings.simplefilter('ignore')
        try:
            arg = channel_arg(scheme, H2, layout)
            can_vec = (scheme == 'mrc' and H2.shape[1] == 1) or (scheme in ('mrt', 'alamouti') and H2.shape[0] == 1)
            other_layout = 'vector' if (layout == 'matrix' and can_vec) else 'matrix'
            if path == 'replace-other-layout':
                other = channel_arg(scheme, H2 * (0.5 + 0.25j), other_layout)
            else:
                other = np.array(dec(case['other'])) if case.get('other') is not None else None
            obj = build_by(scheme, path, arg, other)
        except Exception as ex:
            return cls, 'configuring the object raised %s: %s' % (type(ex).__name__, str(ex)[:150])
        try:
            ch = obj._channel
            if not isinstance(ch, np.ndarray) or ch.ndim != 2 or tuple(ch.shape) != stored_shape(scheme, H2):
                return cls, 'stored channel has shape %s, the %s scheme keeps %s' % (np.shape(ch), scheme, stored_shape(scheme, H2))
            if not np.array_equal(ch, H2):
                return cls, 'stored channel differs from the one handed over'
            if (obj.Nr, obj.Nt) != tuple(H2.shape):
                return cls, 'Nr, Nt = %r, %r for a %s channel' % (obj.Nr, obj.Nt, H2.shape)
            want_layers = H2.shape[1] if scheme in ('blast', 'svd', 'gmd', 'mrc') else 1
            if obj.getNumberOfLayers() != want_layers:
                return cls, 'getNumberOfLayers() = %r' % obj.getNumberOfLayers()
            if fam:
                obj.set_noise_var(nv)
            c = cond2(H2)
            why = first_principles(obj, scheme, np.asarray(H2, dtype=complex), x, nv if fam else None, c)
            if why:
                return cls, why
            ref = build_by(scheme, 'setter', np.array(H2), None)      # reference: setter path, matrix layout
            if fam:
                ref.set_noise_var(nv)
            nv_q = 0.5 * amax(H2) ** 2
            why = cmp_obs(observe_all(obj, scheme, x, nv_q), observe_all(ref, scheme, x, nv_q), c, x,
                          'an object configured by set_channel_matrix with the 2-D channel')
            if why:
                return cls, why
        except Exception as ex:
            return cls, 'raised %s: %s' % (type(ex).__name__, str(ex)[:150])
    return None


# ---- R8 argument forms, R13 derived objects, R14 counts ---------------------------------------------------
def same_result(r1, r2):
    """two outcomes of call_impl: same exception kind, or bit-identical values (nan == nan)"""
    if r1[0] != r2[0]:
        return False
    if r1[0] != 'ok':
        return True
    return same_value(r1[1], r2[1])


def same_value(a, b_):
    if isinstance(a, (tuple, list)):
        return isinstance(b_, (tuple, list)) and len(a) == len(b_) and all(same_value(u, v) for u, v in zip(a, b_))
    if a is None or b_ is None:
        return a is None and b_ is None
    if isinstance(a, np.ndarray) or isinstance(b_, np.ndarray) or isinstance(a, np.generic):
        a, b_ = np.asarray(a), np.asarray(b_)
        if a.shape != b_.shape:
            return False
        return bool(np.array_equal(a, b_, equal_nan=True)) if a.dtype.kind in 'fc' and b_.dtype.kind in 'fc' else bool(np.array_equal(a, b_))
    if isinstance(a, float) and isinstance(b_, float) and a != a and b_ != b_:
        return True
    return a == b_


def o_argforms(case):
    """R8: every documented parameter positionally / by keyword / at its default / as the explicit default; noise
    variance as scalar, 0-d and length-1 array; wrappers documented as equivalent agree"""
    scheme = case['scheme']
    H, x, nv = dec(case['H']), dec(case['x']), case['nv']
    fam = scheme in ('blast', 'mrc', 'svd', 'gmd')
    m = _mimo()
    klass = type(make(scheme, H))
    H2 = as2d(scheme, H)
    lin2db = lambda v: 10.0 * np.log10(v)

    def conf(o):
        if fam:
            o.set_noise_var(nv)
        return o
    pairs = []   # (entry point, form, thunk A, thunk B)  -- both must give the same outcome

    def obs(o):
        e = o.encode(x)
        return (np.asarray(e), np.asarray(o.decode(H2 @ e)), cfg_of(o).get('_noise_var'), np.array(o._channel))
    pairs.append(('constructor', 'channel=', lambda: obs(conf(klass(H))), lambda: obs(conf(klass(channel=H)))))
    pairs.append(('constructor', 'default-vs-None', lambda: sorted(cfg_of(klass()).items(), key=str), lambda: sorted(cfg_of(klass(None)).items(), key=str)))
    pairs.append(('constructor', 'channel=None', lambda: sorted(cfg_of(klass()).items(), key=str), lambda: sorted(cfg_of(klass(channel=None)).items(), key=str)))

    def via_setter(kw_):
        o = klass()
        if kw_:
            o.set_channel_matrix(channel=H)
        else:
            o.set_channel_matrix(H)
        return obs(conf(o))
    pairs.append(('set_channel_matrix', 'channel=', lambda: via_setter(False), lambda: via_setter(True)))
    pairs.append(('set_channel_matrix', 'vs-constructor', lambda: via_setter(False), lambda: obs(conf(klass(H)))))
    o1, o2 = conf(klass(H)), conf(klass(H))
    e = np.asarray(o1.encode(x))
    y = H2 @ e
    pairs.append(('encode', 'transmit_data=', lambda: o1.encode(x), lambda: o2.encode(transmit_data=x)))
    pairs.append(('decode', 'received_data=', lambda: o1.decode(y), lambda: o2.decode(received_data=y)))
    vq = 0.3 * amax(H) ** 2
    pairs.append(('calc_linear_SINRs', 'noise_var=', lambda: o1.calc_linear_SINRs(vq), lambda: o2.calc_linear_SINRs(noise_var=vq)))
    pairs.append(('calc_SINRs', 'noise_var=', lambda: o1.calc_SINRs(vq), lambda: o2.calc_SINRs(noise_var=vq)))
    pairs.append(('calc_SINRs', 'is-dB-of-calc_linear_SINRs', lambda: o1.calc_SINRs(vq), lambda: lin2db(o2.calc_linear_SINRs(vq))))
    if fam:
        for form, mk in (('noise_var=', None), ('0-d array', lambda v: np.array(v)), ('length-1 array', lambda v: np.array([v])),
                         ('python int', None)):
            v = nv
            if form == 'python int':
                v = 2
            a_, b_ = klass(H), klass(H)

            def fa(a_=a_, v=v):
                a_.set_noise_var(v)
                return np.asarray(a_.decode(y))

            def fb(b_=b_, v=v, mk=mk, form=form):
                if form == 'noise_var=':
                    b_.set_noise_var(noise_var=v)
                elif form == 'python int':
                    b_.set_noise_var(float(v))
                else:
                    b_.set_noise_var(mk(v))
                return np.asarray(b_.decode(y))
            pairs.append(('set_noise_var', form, fa, fb))
        a_, b_ = klass(H), klass(H)

        def f_none_a():
            a_.set_noise_var(0.5 * vq)
            a_.set_noise_var(None)
            return np.asarray(a_.decode(y))

        def f_none_b():
            b_.set_noise_var(0.5 * vq)
            b_.set_noise_var(noise_var=0.0)
            return np.asarray(b_.decode(y))
        pairs.append(('set_noise_var', 'None-vs-0.0', f_none_a, f_none_b))
    if scheme != 'alamouti':
        ch = o1._channel
        pairs.append(('_calc_receive_filter', 'omitted-vs-None', lambda: klass._calc_receive_filter(ch), lambda: klass._calc_receive_filter(ch, None)))
        pairs.append(('_calc_receive_filter', 'omitted-vs-noise_var=None', lambda: klass._calc_receive_filter(ch),
                      lambda: klass._calc_receive_filter(channel=ch, noise_var=None)))
        pairs.append(('_calc_receive_filter', 'None-vs-0.0', lambda: klass._calc_receive_filter(ch, None), lambda: klass._calc_receive_filter(ch, 0.0)))
        pairs.append(('_calc_receive_filter', 'keywords', lambda: klass._calc_receive_filter(ch, vq),
                      lambda: klass._calc_receive_filter(noise_var=vq, channel=ch)))
        pairs.append(('_calc_precoder', 'channel=', lambda: klass._calc_precoder(ch), lambda: klass._calc_precoder(channel=ch)))
        W, G = klass._calc_precoder(ch), klass._calc_receive_filter(ch, vq)
        pairs.append(('calc_post_processing_SINRs', 'keywords', lambda: m.calc_post_processing_SINRs(ch, W, G, vq),
                      lambda: m.calc_post_processing_SINRs(noise_var=vq, G_H=G, W=W, channel=ch)))
        pairs.append(('calc_post_processing_SINRs', 'is-dB-of-linear', lambda: m.calc_post_processing_SINRs(ch, W, G, vq),
                      lambda: lin2db(m.calc_post_processing_linear_SINRs(ch, W, G, vq))))
        pairs.append(('calc_post_processing_linear_SINRs', 'keywords', lambda: m.calc_post_processing_linear_SINRs(ch, W, G, vq),
                      lambda: m.calc_post_processing_linear_SINRs(channel=ch, W=W, G_H=G, noise_var=vq)))
        pairs.append(('calc_linear_SINRs', 'forwards-to-module-function', lambda: o1.calc_linear_SINRs(vq),
                      lambda: m.calc_post_processing_SINRs(ch, W, G, vq)))
    with warnings.catch_warnings():
        warnings.simplefilter('ignore')
        for ep, form, fa, fb in pairs:
            r1, r2 = call_impl(fa), call_impl(fb)
            if not same_result(r1, r2):
                return 'R8:%s:%s:%s' % (scheme, ep, form), 'the two argument forms disagree: %s vs %s' % (str(r1)[:110], str(r2)[:110])
            if r1[0] != 'ok' and not (ep == 'constructor'):
                return 'R8:%s:%s:%s' % (scheme, ep, form), 'both forms raised %s' % r1[0]
    return None


def o_derived(case):
    """R13: a copy / deep copy / pickle of a configured object equals its parent and is independent of it, in both
    directions (child reconfigured: parent unchanged; parent reconfigured: child unchanged); a round trip of the
    child gives back the child"""
    scheme, how = case['scheme'], case['how']
    H, x, nv = dec(case['H']), dec(case['x']), case['nv']
    Hn = dec(case['Hn'])
    fam = scheme in ('blast', 'mrc', 'svd', 'gmd')
    cls = 'R13:%s:%s' % (scheme, how)
    with warnings.catch_warnings():
        warnings.simplefilter('ignore')
        try:
            par = make(scheme, np.array(H))
            if fam:
                par.set_noise_var(nv)
            ref = state_of(par, scheme, x)
            child = derive(par, how)
            k = same_state(ref, state_of(child, scheme, x))
            if k is not None:
                return cls, 'the child differs from its parent in %s' % k
            if fam:
                child.set_noise_var(0.5 * nv if nv else 0.3 * amax(H) ** 2)
            child.set_channel_matrix(np.array(Hn))
            k = same_state(ref, state_of(par, scheme, x))
            if k is not None:
                return cls, 'reconfiguring the child changed %s of the parent' % k
            cref = state_of(child, scheme, dec(case['xn']))
            again = derive(child, how)
            k = same_state(cref, state_of(again, scheme, dec(case['xn'])))
            if k is not None:
                return cls, 'a round trip of the child gives back something that differs in %s' % k
            if fam:
                par.set_noise_var(None)
            par.set_channel_matrix(np.array(H) * 2.0)
            k = same_state(cref, state_of(child, scheme, dec(case['xn'])))
            if k is not None:
                return cls, 'reconfiguring the parent changed %s of the child' % k
        except Exception as ex:
            return cls, 'raised %s: %s' % (type(ex).__name__, str(ex)[:150])
    return None


def o_counts(case):
    """R14: antenna / symbol COUNTS of 257, 258, 300: round trip, energy and every entry point as for small sizes"""
    scheme = case['scheme']
    cls = 'R14:%s:%s' % (scheme, 'x'.join(str(d) for d in case['H']['shape']) + ',n=%d' % case['x']['shape'][0])
    sub = {'scheme': scheme, 'H': case['H'], 'x': case['x']}
    H2 = as2d(scheme, dec(case['H']))
    r = o_roundtrip(sub) or o_energy(sub)
    if r is None:
        lay = 'vector' if dec(case['H']).ndim == 1 else 'matrix'
        for path in ('ctor', 'setter'):
            r = r or o_entry({'scheme': scheme, 'path': path, 'layout': lay, 'H': enc(H2), 'x': case['x'], 'nv': case.get('nv', 0.0), 'other': None})
    return relabel(r, cls)


ORACLES = {'roundtrip': o_roundtrip, 'energy': o_energy, 'zf': o_zf, 'mmse': o_mmse, 'mmse-limit': o_mmse_limit,
           'guard': o_reject, 'gmd': o_gmd, 'history': o_history, 'sweep': o_sweep,
           'dtype': o_dtype, 'layout': o_layout, 'immutable': o_immutable, 'rejected': o_rejected,
           'boundary': o_boundary, 'scale': o_scale, 'lifecycle': o_lifecycle, 'entry': o_entry,
           'argforms': o_argforms, 'derived': o_derived, 'counts': o_counts}


def _r1516():
    """R15 / R16 live in the helper module harness/props/c04_r1516.py; its oracles are replayable like the others"""
    from harness.props import c04_r1516
    for k_, v_ in c04_r1516.ORACLES.items():
        ORACLES.setdefault(k_, v_)
    return c04_r1516


def run_oracle(ctx, call, case, key=None, nontrivial=True):
    ctx.count((call, key if key is not None else repr(case)), nontrivial)
    try:
        r = ORACLES[call](case)
    except Exception as e:
        r = ('harness-exception:' + call, repr(e)[:300])
    if r is not None:
        ctx.fail(call, r[0], case, r[1])
        ctx.branch('oracle-fail:' + call)
    else:
        ctx.branch('oracle-ok:' + call)
    return r


def replay(ctx, rep):
    _r1516()
    return ORACLES[rep['call']](rep['case']) is not None


# --------------------------------------------------------------- correspondence
PYERR = (AssertionError, AttributeError, IndexError, KeyError, ZeroDivisionError, TypeError, ValueError, RuntimeError)


def err_kind(ex):
    """the model's exception kinds (np.linalg.LinAlgError is a ValueError)"""
    for t in PYERR:
        if isinstance(ex, t):
            return t.__name__
    return type(ex).__name__


def call_impl(f):
    try:
        with warnings.catch_warnings():
            warnings.simplefilter('ignore')
            return 'ok', f()
    except Exception as ex:
        return 'error:' + err_kind(ex), None


def cmp_corr(ctx, name, case, impl, model_str, shape, key, scale=None):
    """impl = ('ok', array) | ('error:X', None); model_str = driver reply field"""
    st, val = impl
    if model_str.startswith('error:') or st != 'ok':
        ctx.corr(name, case, st if st != 'ok' else 'value', model_str if model_str.startswith('error:') else 'value', key=key)
        return
    try:
        mv = parse_c(model_str, shape)
    except Exception:
        ctx.corr(name, case, 'shape %s' % (np.asarray(val).shape,), 'unparsable for shape %s: %s' % (shape, model_str[:80]), key=key)
        return
    va = np.asarray(val, dtype=complex)
    if va.size == int(np.prod(shape)):
        va = va.reshape(shape)
    ok, why = near(va, mv, scale=scale)
    if (len(ctx.samples) < 5 and va.size and name.split('.')[-1] in ('decode', 'filter')
            and case['H']['shape'][-1] >= 2 and case.get('scheme') not in [s_.get('scheme') for s_ in ctx.samples]):
        ctx.sample({'compare': name, 'scheme': case.get('scheme'), 'channel_shape': case['H']['shape'],
                    'block_length': case['x']['shape'], 'noise_var': case.get('nv'),
                    'impl_first': [complex(z) for z in va.reshape(-1)[:2]],
                    'model_first': [complex(z) for z in mv.reshape(-1)[:2]], 'agree_1e-9': ok})
    ctx.corr(name, case, 'match' if ok else 'impl %s' % why, 'match', key=key)


def contract(ctx, name, why, case):
    if why is not None:
        ctx.branch('contract-fail:' + name)
        ctx.tie_broken('tie', 'contract:' + name, why, case)
    else:
        ctx.branch('contract-ok:' + name)


class Batch:
    """queue driver lines with the comparison to run on each reply; one process per flush"""

    def __init__(self, drv, ctx=None):
        self.drv = drv
        self.ctx = ctx
        self.items = []

    def add(self, line, fn):
        self.items.append((line, fn))

    def flush(self):
        items, self.items = self.items, []
        out = self.drv.ask([l for l, _ in items]) if items else []
        for (line, fn), o in zip(items, out):
            try:
                fn(o)
            except core.Infra:
                raise
            except Exception:  # a comparison that cannot even be carried out is a broken correspondence, not a crash
                if self.ctx is None:
                    raise
                self.ctx.branch('harness-exception:compare')
                self.ctx.tie_broken('correspondence', 'compare.exception:' + line.split(' ')[0],
                                    traceback.format_exc()[-1500:], None)


def xscale(c, x):
    return max(1.0, c) * amax(x)


def corr_blast(ctx, b, scheme, H, x, nv, ck):
    """Blast / MRC: tapped pinv / solve"""
    H2 = as2d(scheme, H)
    nr, nt = H2.shape
    case = {'scheme': scheme, 'H': enc(H), 'x': enc(x), 'nv': nv}
    obj = make(scheme, H)
    obj.set_noise_var(nv)
    cls = type(obj)
    with Tap() as t0:
        W = call_impl(lambda: cls._calc_precoder(H2))
        G = call_impl(lambda: cls._calc_receive_filter(H2, nv))
    with Tap() as t1:
        e = call_impl(lambda: obj.encode(x))
    L = x.size // nt if nt else 0
    zero = np.zeros((nt, nr), dtype=complex)
    mm = nv > 0
    kname = 'solve' if mm else 'pinv'
    ctx.branch('corr:%s:%s' % (scheme, 'mmse' if mm else 'zf'))
    ctx.branch('shape:%s:%s' % (scheme, shape_class(nr, nt)))
    ks = [c for c in t0.log if c[0] in ('pinv', 'solve')]
    if len(ks) != 1 or ks[0][0] != kname or t1.log:
        ctx.corr(scheme + '.kernel-calls', case, [c[0] for c in t0.log + t1.log], [kname], key=ck + ('calls',))
        return
    _, args, _, res = ks[0]
    c = cond2(H2)
    if mm:
        def f_args(o, args=args):
            out = o.split('|')
            cmp_corr(ctx, scheme + '.solve-arg-A', case, ('ok', args[0]), out[0], (nt, nt), ck + ('sa',))
            cmp_corr(ctx, scheme + '.solve-arg-B', case, ('ok', args[1]), out[1], (nt, nr), ck + ('sb',))
        b.add('mmseargs %d %d %s %s' % (nr, nt, cline(H2), cline([nv])), f_args)
        contract(ctx, 'solve', c_solve(np.asarray(args[0], dtype=complex), np.asarray(args[1], dtype=complex), res,
                                       cond2(args[0])), case)
        Gp, Ws = zero, res
    else:
        ctx.corr(scheme + '.pinv-arg', case, 'match' if np.array_equal(args[0], H2) else 'other', 'match', key=ck + ('pa',))
        contract(ctx, 'pinv', c_pinv(np.asarray(H2, dtype=complex), res, c), case)
        Gp, Ws = res, zero

    def f_flt(o):
        out = o.split('|')
        cmp_corr(ctx, scheme + '.precoder', case, W, out[0], (nt, nt), ck + ('W',))
        cmp_corr(ctx, scheme + '.filter', case, G, out[1], (nt, nr), ck + ('G',), scale=amax(res) * 4)
    b.add('blastflt %d %d %s %s %s' % (nr, nt, cline([nv]), cline(Gp), cline(Ws)), f_flt)
    b.add('blastenc %d %d %s' % (nt, x.size, cline(x)),
          lambda o: cmp_corr(ctx, scheme + '.encode', case, e, o, (nt, L), ck + ('e',)))
    if e[0] == 'ok':
        y = H2 @ e[1]
        with Tap() as t2:
            d = call_impl(lambda: obj.decode(y))
        ks2 = [c_ for c_ in t2.log if c_[0] in ('pinv', 'solve')]
        if len(ks2) == 1 and ks2[0][0] == kname:
            r2 = ks2[0][3]
            Gp2, Ws2 = (zero, r2) if mm else (r2, zero)
            b.add('blastdec %d %d %d %s %s %s %s' % (nr, nt, L, cline([nv]), cline(Gp2), cline(Ws2), cline(y)),
                  lambda o: cmp_corr(ctx, scheme + '.decode', case, d, o, (nt * L,), ck + ('d',), scale=xscale(c, x)))
        else:
            ctx.corr(scheme + '.kernel-calls', case, [c_[0] for c_ in t2.log], [kname], key=ck + ('calls2',))
    else:
        ctx.branch('corr:%s:encode-rejected' % scheme)


def corr_svd(ctx, b, H, x, ck):
    nr, nt = H.shape
    case = {'scheme': 'svd', 'H': enc(H), 'x': enc(x)}
    obj = make('svd', H)
    m = _mimo()
    k = min(nr, nt)
    ctx.branch('corr:svd:' + ('square' if nr == nt else 'tall'))
    with Tap() as t0:
        W = call_impl(lambda: m.SVDMimo._calc_precoder(H))
    with Tap() as t1:
        G = call_impl(lambda: m.SVDMimo._calc_receive_filter(H))
    with Tap() as t2:
        e = call_impl(lambda: obj.encode(x))
    L = x.size // nt
    for t, nm in ((t0, 'precoder'), (t1, 'filter'), (t2, 'encode')):
        if nm == 'encode' and e[0] != 'ok' and not t.log:
            continue
        if [c[0] for c in t.log] != ['svd'] or not np.array_equal(t.log[0][1][0], H):
            ctx.corr('svd.kernel-calls.' + nm, case, [c[0] for c in t.log], ['svd(channel)'], key=ck + ('calls', nm))
            return
    U1, S1, VH1 = t0.log[0][3]
    U2, S2, VH2 = t1.log[0][3]
    VH3 = t2.log[0][3][2] if t2.log else VH1
    Hc = np.asarray(H, dtype=complex)
    contract(ctx, 'svd', c_svd(Hc, U1, S1, VH1, thin=False), case)
    # the model (repaired code) takes the thin factor U : Nr x K from the receive-filter call
    if U2.shape != (nr, k) or S2.shape != (k,):
        ctx.corr('svd.filter', case, G[0] if G[0] != 'ok' else 'U%s S%s' % (U2.shape, S2.shape),
                 'thin SVD U(%d,%d) S(%d,)' % (nr, k, k), key=ck + ('thin',))
        return
    contract(ctx, 'svd', c_svd(Hc, U2, S2, VH2, thin=True), case)
    # what svd_roundtrip assumes of the two calls together: U2 diag(S2) VH1 = H
    ok, why = near((U2 * S2) @ VH1[:k, :], Hc, 1e-11, scale=amax(H) * max(H.shape))
    contract(ctx, 'svd-two-calls', None if ok else 'U(filter) S VH(precoder) = H: ' + why, case)
    b.add('svdenc %d %d %s %s' % (nt, x.size, cline(VH1), cline(x)),
          lambda o: cmp_corr(ctx, 'svd.precoder', case, W, o.split('|')[0], (nt, nt), ck + ('W',)))
    b.add('svdenc %d %d %s %s' % (nt, x.size, cline(VH3), cline(x)),
          lambda o: cmp_corr(ctx, 'svd.encode', case, e, o.split('|')[1], (nt, L), ck + ('e',)))
    c = cond2(H)
    gscale = float(1.0 / S2.min()) * 4 * math.sqrt(nt)
    if e[0] == 'ok':
        y = H @ e[1]
        with Tap() as t3:
            d = call_impl(lambda: obj.decode(y))
        if [c_[0] for c_ in t3.log] == ['svd'] and t3.log[0][3][0].shape == (nr, k):
            U4, S4, _ = t3.log[0][3]
            b.add('svddec %d %d %d %d %s %s %s' % (nr, k, nt, L, cline(U4), cline(S4), cline(y)),
                  lambda o: cmp_corr(ctx, 'svd.decode', case, d, o.split('|')[1], (k * L,), ck + ('d',), scale=xscale(c, x)))
        else:
            ctx.corr('svd.kernel-calls.decode', case, [c_[0] for c_ in t3.log], ['svd thin'], key=ck + ('calls3',))
    else:
        ctx.branch('corr:svd:encode-rejected')
    b.add('svddec %d %d %d %d %s %s %s' % (nr, k, nt, 0, cline(U2), cline(S2), '-'),
          lambda o: cmp_corr(ctx, 'svd.filter', case, G, o.split('|')[0], (k, nr), ck + ('G',), scale=gscale))


def corr_gmd(ctx, b, H, x, nv, ck):
    nr, nt = H.shape
    case = {'scheme': 'gmd', 'H': enc(H), 'x': enc(x), 'nv': nv}
    obj = make('gmd', H)
    obj.set_noise_var(nv)
    m = _mimo()
    mm = nv > 0
    ctx.branch('corr:gmd:' + ('mmse' if mm else 'zf'))
    ctx.branch('shape:gmd:' + shape_class(nr, nt))
    with Tap() as t0:
        W = call_impl(lambda: m.GMDMimo._calc_precoder(H))
    with Tap() as t1:
        G = call_impl(lambda: m.GMDMimo._calc_receive_filter(H, nv))
    with Tap() as t2:
        e = call_impl(lambda: obj.encode(x))
    L = x.size // nt
    kname = 'solve' if mm else 'pinv'
    want = {'precoder': ['svd', 'gmd'], 'filter': ['svd', 'gmd', kname], 'encode': ['svd', 'gmd']}
    for t, nm in ((t0, 'precoder'), (t1, 'filter'), (t2, 'encode')):
        names = [c[0] for c in t.log]
        if nm == 'encode' and e[0] != 'ok' and not names:
            continue
        good = names == want[nm] and np.array_equal(t.log[0][1][0], H)
        if good:  # gmd is handed exactly what svd(channel) returned
            good = all(np.array_equal(a, b_) for a, b_ in zip(t.log[1][1][:3], t.log[0][3]))
        if not good:
            ctx.corr('gmd.kernel-calls.' + nm, case, names, want[nm], key=ck + ('calls', nm))
            return
    U1, S1, VH1 = t0.log[0][3]
    Q1, R1, P1 = t0.log[1][3]
    Q2, R2, P2 = t1.log[1][3]
    P3 = t2.log[1][3][2] if t2.log else P1
    Hc = np.asarray(H, dtype=complex)
    contract(ctx, 'svd', c_svd(Hc, U1, S1, VH1, thin=False), case)
    for (Q, R, P) in ((Q1, R1, P1), (Q2, R2, P2)):
        why = c_gmd(Hc, Q, R, P, S1)
        if why is not None:  # gmd is pyphysim's own code: a broken contract is a finding with an input
            r = run_oracle(ctx, 'gmd', {'H': enc(H)}, key=ck + ('gmdc',))
            if r is None:
                contract(ctx, 'gmd', why, case)
            return
    ctx.branch('contract-ok:gmd')
    # what gmd_roundtrip assumes of the two calls together: Q2 R2 P1^H = H
    ok, why = near(Q2 @ R2 @ Hm(P1), Hc, 1e-10, scale=amax(H) * max(H.shape))
    contract(ctx, 'gmd-two-calls', None if ok else 'Q R (filter) P^H (precoder) = H: ' + why, case)
    b.add('gmdenc %d %d %s %s' % (nt, x.size, cline(P1), cline(x)),
          lambda o: cmp_corr(ctx, 'gmd.precoder', case, W, o.split('|')[0], (nt, nt), ck + ('W',)))
    b.add('gmdenc %d %d %s %s' % (nt, x.size, cline(P3), cline(x)),
          lambda o: cmp_corr(ctx, 'gmd.encode', case, e, o.split('|')[1], (nt, L), ck + ('e',)))
    # the equivalent channel handed to pinv / solve
    kc = t1.log[2]
    zero = np.zeros((nt, nr), dtype=complex)

    def f_eq(o):
        out = o.split('|')
        if mm:
            cmp_corr(ctx, 'gmd.solve-arg-A', case, ('ok', kc[1][0]), out[1], (nt, nt), ck + ('sa',))
            cmp_corr(ctx, 'gmd.solve-arg-B', case, ('ok', kc[1][1]), out[2], (nt, nr), ck + ('sb',))
        else:
            cmp_corr(ctx, 'gmd.pinv-arg', case, ('ok', kc[1][0]), out[0], (nr, nt), ck + ('pa',))
    b.add('gmdeq %d %d %s %s %s' % (nr, nt, cline(Q2), cline(R2), cline([nv])), f_eq)
    if mm:
        contract(ctx, 'solve', c_solve(np.asarray(kc[1][0], dtype=complex), np.asarray(kc[1][1], dtype=complex), kc[3],
                                       cond2(kc[1][0])), case)
        Gp, Ws = zero, kc[3]
    else:
        contract(ctx, 'pinv', c_pinv(np.asarray(kc[1][0], dtype=complex), kc[3], cond2(Q2 @ R2)), case)
        Gp, Ws = kc[3], zero
    c = cond2(H)
    if e[0] == 'ok':
        y = H @ e[1]
        with Tap() as t3:
            d = call_impl(lambda: obj.decode(y))
        if [c_[0] for c_ in t3.log] == want['filter']:
            r3 = t3.log[2][3]
            Gp3, Ws3 = (zero, r3) if mm else (r3, zero)
            b.add('gmddec %d %d %d %s %s %s %s' % (nr, nt, L, cline([nv]), cline(Gp3), cline(Ws3), cline(y)),
                  lambda o: cmp_corr(ctx, 'gmd.decode', case, d, o.split('|')[1], (nt * L,), ck + ('d',), scale=xscale(c, x)))
        else:
            ctx.corr('gmd.kernel-calls.decode', case, [c_[0] for c_ in t3.log], want['filter'], key=ck + ('calls3',))
    else:
        ctx.branch('corr:gmd:encode-rejected')
    b.add('gmddec %d %d %d %s %s %s %s' % (nr, nt, 0, cline([nv]), cline(Gp), cline(Ws), '-'),
          lambda o: cmp_corr(ctx, 'gmd.filter', case, G, o.split('|')[0], (nt, nr), ck + ('G',),
                             scale=amax(kc[3]) * 4))


def corr_mrt(ctx, b, h, x, ck, two_d):
    nt = h.size
    Hin = h[None, :] if two_d else h
    case = {'scheme': 'mrt', 'H': enc(Hin), 'x': enc(x)}
    obj = make('mrt', Hin)
    H2 = h[None, :]
    ctx.branch('corr:mrt')
    with Tap() as t:
        W = call_impl(lambda: obj._calc_precoder(H2))
        G = call_impl(lambda: obj._calc_receive_filter(H2))
        e = call_impl(lambda: obj.encode(x))
        y = H2 @ e[1] if e[0] == 'ok' else np.zeros((1, x.size), dtype=complex)
        d = call_impl(lambda: obj.decode(y.copy()))
    if t.log:
        ctx.corr('mrt.kernel-calls', case, [c[0] for c in t.log], [], key=ck + ('calls',))
        return

    def f(o):
        out = o.split('|')
        cmp_corr(ctx, 'mrt.precoder', case, W, out[0], (nt, 1), ck + ('W',))
        cmp_corr(ctx, 'mrt.filter', case, G, out[1], (), ck + ('G',), scale=abs(G[1]) if G[0] == 'ok' else 1.0)
        cmp_corr(ctx, 'mrt.encode', case, e, out[2], (nt, x.size), ck + ('e',))
        cmp_corr(ctx, 'mrt.decode', case, d, out[3], (x.size,), ck + ('d',))
    b.add('mrt %d %d %s %s %s' % (nt, x.size, cline(h), cline(x), cline(y)), f)


def corr_alamouti(ctx, b, H, x, ck):
    H2 = as2d('alamouti', H)
    nr = H2.shape[0]
    case = {'scheme': 'alamouti', 'H': enc(H), 'x': enc(x)}
    obj = make('alamouti', H)
    ctx.branch('corr:alamouti')
    with Tap() as t:
        e = call_impl(lambda: obj.encode(x))
    b.add('alaenc %d %s' % (x.size, cline(x)),
          lambda o: cmp_corr(ctx, 'alamouti.encode', case, e, o, (2, x.size), ck + ('e',)))
    if e[0] == 'ok':
        y = H2 @ e[1]
        with Tap() as t2:
            d = call_impl(lambda: obj.decode(y))
        b.add('aladec %d %d %s %s' % (nr, x.size // 2, cline(H2), cline(y)),
              lambda o: cmp_corr(ctx, 'alamouti.decode', case, d, o, (x.size,), ck + ('d',)))
        if t.log or t2.log:
            ctx.corr('alamouti.kernel-calls', case, [c[0] for c in t.log + t2.log], [], key=ck + ('calls',))
    else:
        ctx.branch('corr:alamouti:encode-rejected')


def corr_guards(ctx, drv):
    m = _mimo()
    lines, impl, cases = [], [], []
    for kind, cls in (('miso', m.MRT), ('mrc', m.MRC), ('alamouti', m.Alamouti)):
        for dims in [[1], [2], [3], [5], [1, 1], [1, 2], [1, 4], [2, 1], [2, 2], [3, 2], [2, 3], [4, 1], [3, 3], [1, 3]]:
            for path in ('ctor', 'setter'):   # the guard and the stored shape must not depend on the entry point
                def build():
                    if path == 'ctor':
                        return cls(np.ones(dims, dtype=complex))
                    o = cls()
                    o.set_channel_matrix(np.ones(dims, dtype=complex))
                    return o
                st, obj = call_impl(build)
                impl.append(','.join(str(d) for d in np.shape(obj._channel)) if st == 'ok' else st)
                lines.append('shape %s %s' % (kind, ','.join(map(str, dims))))
                cases.append({'kind': kind, 'dims': dims, 'path': path})
    for nv in [None, 0.0, 1e-300, 0.5, 3.0, -1e-300, -0.25, -7.0]:
        obj = make('blast', np.eye(2, dtype=complex))
        st, _ = call_impl(lambda: obj.set_noise_var(nv))
        impl.append(cline([obj._noise_var]) if st == 'ok' else st)
        lines.append('setnv %s' % ('none' if nv is None else cline([nv])))
        cases.append({'kind': 'setnv', 'nv': nv})
    out = drv.ask(lines)
    for c, i, o in zip(cases, impl, out):
        ctx.corr('guard.' + c['kind'], c, i, o, key=('guard', repr(c)))
        ctx.branch('guard:' + ('error' if i.startswith('error') else 'ok'))


# ---- object histories: correspondence with the state-machine model -------------------------
def chan_tok(Harg):
    if Harg is None:
        return 'none'
    Harg = np.asarray(Harg)
    if Harg.ndim == 1:
        return 'v:%d:%s' % (Harg.size, cline(Harg))
    return 'm:%d:%d:%s' % (Harg.shape[0], Harg.shape[1], cline(Harg))


def expected_calls(scheme, kind, nv_used, enc_ok=True):
    k = 'solve' if (nv_used is not None and nv_used > 0) else 'pinv'
    if scheme in ('blast', 'mrc'):
        return [] if kind == 'enc' else [k]
    if scheme == 'svd':
        return {'enc': ['svd'] if enc_ok else [], 'dec': ['svd'], 'flt': ['svd', 'svd'], 'sinr': ['svd', 'svd']}[kind]
    if scheme == 'gmd':
        return {'enc': ['svd', 'gmd'] if enc_ok else [], 'dec': ['svd', 'gmd', k],
                'flt': ['svd', 'gmd', 'svd', 'gmd', k], 'sinr': ['svd', 'gmd', 'svd', 'gmd', k]}[kind]
    return []


def kernel_fields(scheme, kind, log):
    """key=data fields handing the recorded kernel results of one step to the model"""
    f = []
    for c in log:
        if c[0] in ('pinv', 'solve'):
            f.append('%s=%s' % (c[0], cline(c[3])))
    svds = [c for c in log if c[0] == 'svd']
    gmds = [c for c in log if c[0] == 'gmd']
    if scheme == 'svd':
        if kind == 'enc' and svds:
            f.append('vh=' + cline(svds[0][3][2]))
        elif kind == 'dec' and svds:
            f += ['u=' + cline(svds[0][3][0]), 's=' + cline(svds[0][3][1])]
        elif len(svds) == 2:
            f += ['vh=' + cline(svds[0][3][2]), 'u=' + cline(svds[1][3][0]), 's=' + cline(svds[1][3][1])]
    if scheme == 'gmd':
        if kind == 'enc' and gmds:
            f.append('p=' + cline(gmds[0][3][2]))
        elif kind == 'dec' and gmds:
            f += ['q=' + cline(gmds[0][3][0]), 'r=' + cline(gmds[0][3][1])]
        elif len(gmds) == 2:
            f += ['p=' + cline(gmds[0][3][2]), 'q=' + cline(gmds[1][3][0]), 'r=' + cline(gmds[1][3][1])]
    return f


def parse_out(o):
    """reply field of the model -> ('error:X' | 'done' | 'mat' | 'vec' | 'two', arrays)"""
    t = o.split(':')
    if t[0] == 'error':
        return o, None
    if t[0] == 'done':
        return 'done', None
    if t[0] == 'nat':
        return o, None
    if t[0] == 'mat':
        return 'mat', [parse_c(t[3], (int(t[1]), int(t[2])))]
    if t[0] == 'vec':
        return 'vec', [parse_c(t[2], (int(t[1]),))]
    if t[0] == 'two':
        return 'two', [parse_c(t[3], (int(t[1]), int(t[2]))), parse_c(t[6], (int(t[4]), int(t[5])))]
    return 'unparsable:' + o[:40], None


def corr_history(ctx, b, case, ck):
    """drive ONE real object through the history, tap every step, replay the same steps on the model object"""
    scheme = case['scheme']
    m = _mimo()
    H0 = dec(case['H0']) if case['H0'] is not None else None
    wrap = arg_wrap(case)     # R16: every array reaches the real object through ONE refilled buffer per role
    st, obj = call_impl(lambda: make(scheme, wrap('H', H0) if H0 is not None else None))
    toks, impl = [], []       # model op tokens; impl (name, status, arrays, scale)
    ctx.branch('hist:' + scheme)
    if case.get('reuse'):
        ctx.branch('R16:corr')
    if H0 is None:
        ctx.branch('R7:corr')
    if st != 'ok':
        b.add('hist %s %s' % (scheme, chan_tok(H0)), lambda o: ctx.corr('history.construct', case, st, o, key=ck + ('c',)))
        return
    fam = scheme in ('blast', 'mrc', 'svd', 'gmd')
    kw = bool(case.get('kw'))
    if kw:
        ctx.branch('R8:corr')

    def read_config():
        """`_noise_var` and `getNumberOfLayers()` read back (model ops `noiseVar`, `layers`)"""
        st_, v_ = call_impl(lambda: obj._noise_var)
        toks.append('nvq')
        impl.append(('noise_var', st_, None if st_ != 'ok' else np.array([v_], dtype=complex), None))
        st_, v_ = call_impl(lambda: obj.getNumberOfLayers())
        toks.append('layers')
        impl.append(('layers', st_ if st_ != 'ok' else 'nat:%d' % v_, None, None))

    def read_channel():
        """the stored `_channel` (the model keeps it 2-D whichever way / layout it came in)"""
        ch = obj._channel
        toks.append('chan')
        impl.append(('chan', 'done', None, None) if ch is None else ('chan', 'ok', np.array(ch), None))
        ctx.branch('hist-op:chan')
    read_channel()
    for k, a in hist_ops_from_case(case):
        if k == 'derive':      # a copy / pickle is the same VALUE: nothing happens on the model side
            st, child = call_impl(lambda: derive(obj, a))
            if st != 'ok':
                ctx.corr('history.derive.' + a, case, st, 'ok', key=ck + ('derive', len(toks)))
                return
            obj = child
            ctx.branch('R13:corr')
            read_channel()
            read_config()
            continue
        if k == 'q':           # queries: no model step either; the configuration read back must be untouched
            run_queries(obj, scheme, a, kw)
            read_channel()
            read_config()
            ctx.branch('R11:corr')
            continue
        if k == 'cfg':
            read_channel()
            read_config()
            ctx.branch('hist-op:cfg')
            continue
        if k == 'sc':
            st, _ = call_impl(lambda: call_m(obj, 'set_channel_matrix', wrap('H', a), kw))
            toks.append('sc;' + chan_tok(a))
            impl.append(('set_channel', 'done' if st == 'ok' else st, None, None))
            read_channel()
            ctx.branch('hist-op:set_channel:' + ('ok' if st == 'ok' else 'rejected'))
            if st != 'ok':
                ctx.branch('R4:corr')
            continue
        if k == 'nv':
            st, _ = call_impl(lambda: call_m(obj, 'set_noise_var', a, kw))
            toks.append('nv;' + ('none' if a is None else cline([a])))
            impl.append(('set_noise_var', 'done' if st == 'ok' else st, None, None))
            ctx.branch('hist-op:set_noise_var:' + ('ok' if st == 'ok' else 'rejected'))
            if st != 'ok':
                ctx.branch('R4:corr')
            continue
        H2 = obj._channel
        c = cond2(H2) if (H2 is not None and min(H2.shape)) else 1.0
        nv_obj = getattr(obj, '_noise_var', None)
        steps = []
        if k == 'rt':
            with Tap() as t:
                e = call_impl(lambda: call_m(obj, 'encode', wrap('x', a), kw))
            steps.append(('enc', t.log, e, 'enc;%d;%s' % (a.size, cline(a)), None, e[0] == 'ok', None))
            if e[0] == 'ok':
                y = H2 @ e[1] if H2 is not None else np.ones((1, e[1].shape[1]), dtype=complex)
                with Tap() as t:
                    d = call_impl(lambda: call_m(obj, 'decode', wrap('y', y), kw))
                steps.append(('dec', t.log, d, 'dec;%d;%d;%s' % (y.shape[0], y.shape[1], cline(y)), nv_obj, True, xscale(c, a)))
        elif k == 'flt':
            with Tap() as t:
                r = call_impl(lambda: (np.asarray(obj._calc_precoder(obj._channel)),
                                       np.atleast_2d(np.asarray(recv_filter(obj, 'omit' if a is None else a, kw)))))
            steps.append(('flt', t.log, r, 'flt;' + ('none' if a is None else cline([a])), a, True, None))
        else:
            def f_sinr():
                if scheme == 'alamouti':
                    return np.atleast_1d(np.asarray(obj.calc_linear_SINRs(a)))
                W = obj._calc_precoder(obj._channel)
                G = obj._calc_receive_filter(obj._channel, a)
                return np.atleast_1d(m.calc_post_processing_linear_SINRs(obj._channel, W, G, a))
            with Tap() as t:
                r = call_impl(f_sinr)
            steps.append(('sinr', t.log, r, 'sinr;' + cline([a]), a, True, None))
        for kind, log, res, tok, nv_used, enc_ok, scale in steps:
            got = [c_[0] for c_ in log]
            want = expected_calls(scheme, kind, nv_used, enc_ok) if res[0] == 'ok' or kind == 'enc' else got
            if got != want:  # e.g. a cached filter: no kernel call where the code (and the model) recompute
                ctx.corr('history.kernel-calls.' + kind, case, got, want, key=ck + ('calls', len(toks)))
                return
            toks.append(';'.join([tok] + kernel_fields(scheme, kind, log)))
            impl.append((kind, res[0], res[1], scale))
            ctx.branch('hist-op:' + kind)

    def f(o):
        parts = o.split('|')
        if parts[0] != 'ok' or len(parts) != len(impl) + 1:
            ctx.corr('history.run', case, 'ok, %d steps' % len(impl), o[:200], key=ck + ('run',))
            return
        for i, ((kind, st, val, scale), mo) in enumerate(zip(impl, parts[1:])):
            tag, arrs = parse_out(mo)
            name = 'history.%s.%s' % (scheme, kind)
            key = ck + (i,)
            if kind == 'layers':
                ctx.corr(name, case, st, mo, key=key)
                continue
            if st != 'ok' and st != 'done' or arrs is None:
                ctx.corr(name, case, st if st != 'ok' else 'value', tag if arrs is None else 'value', key=key)
                continue
            vals = list(val) if isinstance(val, tuple) else [val]
            good = len(vals) == len(arrs)
            why = 'arity'
            for v, a_ in zip(vals, arrs):
                va = np.asarray(v, dtype=complex)
                if va.size == a_.size and kind != 'chan':   # the stored channel must have the model's SHAPE too
                    va = va.reshape(a_.shape)
                sc = scale
                if kind == 'flt':
                    sc = amax(va) * 4
                if kind in ('chan', 'noise_var'):   # what is read back is the value handed over, bit for bit (R15)
                    ok, why = bool(va.shape == a_.shape and np.array_equal(va, a_)), 'the stored value is not the one handed over'
                else:
                    ok, why = near(va, a_, 1e-7 if kind == 'sinr' else RTOL, scale=sc)
                good = good and ok
                if not ok:
                    break
            ctx.corr(name, case, 'match' if good else 'impl step %d: %s' % (i, why), 'match', key=key)
    b.add('hist %s %s %s' % (scheme, chan_tok(H0), ' '.join(toks)), f)


def gen_history(rng, g, scheme, max_n, n_reconf=None, late=None):
    """2-6 reconfigurations of one object (noise variance only / channel only / both in either order), with
    observations in between; a few rejected arguments"""
    fam = scheme in ('blast', 'mrc', 'svd', 'gmd')

    def chan(valid=True):
        if scheme in ('blast', 'svd', 'gmd'):
            nt = rng.randint(1, max_n)
            nr = rng.randint(nt, max_n)
            H = g.channel(nr, nt)[0]
            return H if valid else H[:, 0]
        if scheme == 'mrc':
            h = g.channel(rng.randint(1, max_n), 1)[0]
            return h.reshape(-1) if rng.chance(0.5) else h
        if scheme == 'mrt':
            h = g.channel(rng.randint(1, max_n), 1)[0].reshape(-1).astype(complex)
            if not valid:
                return np.vstack([h, h])
            return h if rng.chance(0.5) else h.reshape(1, -1)
        H = g.channel(max(rng.randint(1, max_n), 2), 2)[0]
        H = H[:rng.randint(1, H.shape[0]), :]
        if not np.any(H):
            H = H + 1.0
        if not valid:
            return np.hstack([H, H[:, :1]])
        return H.reshape(-1) if (H.shape[0] == 1 and rng.chance(0.5)) else H

    def noise(Hc):
        r = rng.uniform()
        sc = amax(Hc) ** 2
        if r < 0.2:
            return None
        if r < 0.4:
            return 0.0
        if r < 0.45:
            return -10.0 ** rng.uniform(-3, 0)
        return 10.0 ** rng.uniform(-6, 1) * sc

    late = rng.chance(0.25) if late is None else late
    H0 = None if late else chan()
    cur = H0
    ops = []

    def observe():
        if cur is None:  # no channel yet: every observation is an error (Alamouti.encode excepted)
            out = [{'op': 'rt', 'x': enc(g.data(2)[0])}]
            if rng.chance(0.5):
                out.append({'op': rng.choice(['flt', 'sinr']), 'v': 0.1})
            return out
        nt = as2d(scheme, cur).shape[1]
        L = rng.choice([1, 2, 3])
        n = 2 * L if scheme == 'alamouti' else (nt * L if scheme in ('blast', 'svd', 'gmd') else L)
        out = [{'op': 'rt', 'x': enc(g.data(n)[0])}]
        sc2 = amax(cur) ** 2
        if rng.chance(0.4):
            out.append({'op': 'flt', 'v': 0.0 if rng.chance(0.3) else 10.0 ** rng.uniform(-4, 1) * sc2})
        if rng.chance(0.4):
            out.append({'op': 'sinr', 'v': 10.0 ** rng.uniform(-4, 1) * sc2})
        rng.shuffle(out)
        if rng.chance(0.35):   # R11: queries between the mutators, then read the configuration back
            out.insert(rng.below(len(out) + 1), {'op': 'q', 'v': 10.0 ** rng.uniform(-3, 0) * sc2})
        if rng.chance(0.35):
            out.append({'op': 'cfg'})
        if rng.chance(0.2):    # R8: the noise variance argument of the receive filter left at its default
            out.append({'op': 'flt', 'v': None})
        if rng.chance(0.12):   # R13: go on with a copy / a pickle of the object
            out.append({'op': 'derive', 'how': rng.choice(['copy', 'deepcopy', 'pickle'])})
        return out
    ops += observe()
    for _ in range(n_reconf or rng.randint(2, 6)):
        kind = rng.choice(['nv', 'sc', 'nv-sc', 'sc-nv', 'nv'] if fam else ['sc', 'sc', 'sc', 'nv'])
        for part in kind.split('-'):
            if part == 'nv':
                op = {'op': 'nv', 'v': noise(cur if cur is not None else np.ones(1))}
            else:
                valid = not rng.chance(0.1)
                Hn = chan(valid)
                op = {'op': 'sc', 'H': enc(Hn)}
                if valid:
                    cur = Hn
            ops.append(op)
            if rng.chance(0.15):  # the same setter call repeated
                ops.append(dict(op))
        ops += observe()
    return {'scheme': scheme, 'H0': enc(H0) if H0 is not None else None, 'ops': ops, 'kw': rng.chance(0.3)}


SCHEMES = ('blast', 'mrc', 'mrt', 'svd', 'gmd', 'alamouti')


def histories(ctx, g, reps, max_n):
    """correspondence + fresh-object oracle on seeded histories, every scheme"""
    drv = core.Driver(DRIVER)
    b = Batch(drv, ctx)
    rng = ctx.rng
    idx = 0
    for rep in range(reps):
        for scheme in SCHEMES:
            idx += 1
            case = gen_history(rng, g, scheme, max_n)
            corr_history(ctx, b, case, ('hist', idx))
            run_oracle(ctx, 'history', case, key=('hist-o', idx))
            if any(op['op'] == 'q' for op in case['ops']):
                ctx.branch('R11:oracle')
        for scheme in ('blast', 'mrc', 'gmd'):
            idx += 1
            nt = 1 if scheme == 'mrc' else rng.randint(1, max_n)
            nr = rng.randint(nt, max_n)
            H = g.channel(nr, nt)[0]
            x = g.data(nt * 2)[0]
            run_oracle(ctx, 'sweep', {'scheme': scheme, 'H': enc(H.reshape(-1) if scheme == 'mrc' and rng.chance(0.5) else H),
                                      'x': enc(x), 'exps': [2, 4, 8, 12], 'final': rng.choice([None, 0.0])},
                       key=('sweep', idx))
        if len(b.items) > 300:
            b.flush()
    b.flush()


# ---- robustness classes: case generation, oracles and correspondence ------------------------------------
def scheme_shape(rng, scheme, max_n):
    if scheme in ('blast', 'svd', 'gmd'):
        nt = rng.randint(1, min(max_n, 4))
        return rng.randint(nt, min(max_n, 5)), nt
    if scheme == 'mrc':
        return rng.randint(1, max_n), 1
    if scheme == 'mrt':
        return 1, rng.randint(1, max_n)
    return rng.randint(1, max_n), 2


def int_channel(g, nr, nt, nonneg=False, cplx=False, max_cond=50.0):
    """integer-valued (hence exactly representable in every element type), well conditioned"""
    lo, hi = (0, 5) if nonneg else (-3, 4)
    for _ in range(400):
        H = g.rs.randint(lo, hi, size=(nr, nt)).astype(complex)
        if cplx:
            H = H + 1j * g.rs.randint(lo, hi, size=(nr, nt))
        if np.linalg.matrix_rank(H) == min(nr, nt) and cond2(H) <= max_cond:
            return H
    return np.eye(nr, nt, dtype=complex) * 2 + (0 if nonneg else 0) + np.ones((nr, nt))


def int_data(g, n, nonneg=False, cplx=False):
    x = g.rs.randint(0 if nonneg else -4, 5, size=n).astype(complex)
    if cplx:
        x = x + 1j * g.rs.randint(0 if nonneg else -4, 5, size=n)
    if n and not np.any(x):
        x[0] = 1
    return x


def n_symbols(rng, scheme, nt):
    L = rng.choice([1, 2, 3])
    return 2 * L if scheme == 'alamouti' else (nt * L if scheme in ('blast', 'svd', 'gmd') else L)


def squeeze_arg(scheme, H):
    """the 1-D form of a vector channel where the class takes one"""
    if scheme == 'mrc':
        return H.reshape(-1)
    if scheme == 'mrt':
        return H.reshape(-1)
    return H


def corr_variant(ctx, b, scheme, Hv, xv, nv, ck):
    """correspondence of one (possibly exotic) input with the model, which sees the logical values only;
    R3 on the way: the arguments must come back unchanged"""
    hs, xs = np.array(Hv, copy=True), np.array(xv, copy=True)
    if scheme in ('blast', 'mrc'):
        corr_blast(ctx, b, scheme, Hv, xv, nv, ck)
    elif scheme == 'svd':
        corr_svd(ctx, b, Hv, xv, ck)
    elif scheme == 'gmd':
        corr_gmd(ctx, b, Hv, xv, nv, ck)
    elif scheme == 'mrt':
        corr_mrt(ctx, b, np.asarray(Hv).reshape(-1), xv, ck, np.asarray(Hv).ndim == 2)
    else:
        corr_alamouti(ctx, b, Hv, xv, ck)
    same = np.array_equal(Hv, hs) and np.array_equal(xv, xs)
    ctx.corr('R3.arguments-unchanged.' + scheme, {'scheme': scheme, 'H': enc(hs), 'x': enc(xs)},
             'unchanged' if same else 'changed', 'unchanged', key=ck + ('r3',))
    ctx.branch('R3:corr')


def guarded(fn):
    """an exception while driving the REAL code through a correspondence step (a changed tree may raise anywhere)
    is a broken correspondence -- recorded, and the run goes on to the oracles that turn it into a failing input --
    never a harness crash (exit 2)"""
    @functools.wraps(fn)
    def wrapper(ctx, *a, **k):
        try:
            return fn(ctx, *a, **k)
        except core.Infra:
            raise
        except Exception:
            ctx.branch('harness-exception:' + fn.__name__)
            ctx.tie_broken('correspondence', fn.__name__ + '.exception', traceback.format_exc()[-1500:], None)
            return None
    return wrapper


corr_blast, corr_svd, corr_gmd, corr_mrt, corr_alamouti = map(guarded, (corr_blast, corr_svd, corr_gmd, corr_mrt, corr_alamouti))
corr_guards, corr_history, corr_variant = map(guarded, (corr_guards, corr_history, corr_variant))


NV_VARIANTS = [(0.5, 'float'), (0.5, 'float32'), (0.5, 'float16'), (0.5, 'array0d'), (2, 'int'), (2, 'int8'), (2, 'uint8'),
               (1, 'int16'), (3, 'uint16'), (2, 'int32'), (2, 'int64'), (0, 'int'), (1, 'int'), (0, 'uint8')]


def robustness(ctx, g, reps, max_n):
    """R1-R7 for every scheme: first-principles / twin oracles on the real code and correspondence with the model"""
    rng = ctx.rng
    drv = core.Driver(DRIVER)
    b = Batch(drv, ctx)
    idx = 0
    for rep in range(reps):
        for scheme in SCHEMES:
            idx += 1
            fam = scheme in ('blast', 'mrc', 'svd', 'gmd')
            nr, nt = scheme_shape(rng, scheme, max_n)
            # ---------------- R1 element types
            hdt = rng.choice(INT_DT + F32_DT + ('float64',))
            nonneg = hdt == 'uint8'
            Hb = int_channel(g, nr, nt, nonneg=nonneg, cplx=hdt in ('complex64',))
            xdt = rng.choice(INT_DT + F32_DT + (None, None))
            xb = int_data(g, n_symbols(rng, scheme, nt), nonneg=(xdt == 'uint8'), cplx=xdt in ('complex64', None))
            nv, nvt = rng.choice(NV_VARIANTS) if fam else (None, None)
            which = rng.choice(['H', 'x', 'nv', 'H+x', 'H+nv'] if fam else ['H', 'x', 'H+x'])
            case = {'scheme': scheme, 'H': enc(squeeze_arg(scheme, Hb)), 'x': enc(xb), 'nv': nv if 'nv' in which else (0.5 if fam else None),
                    'hdt': hdt if 'H' in which else None, 'xdt': xdt if 'x' in which else None,
                    'nvt': nvt if 'nv' in which else None}
            if case['hdt'] is None and np.any(Hb.imag):
                case['H'] = enc(squeeze_arg(scheme, Hb))
            if case['xdt'] in INT_DT + ('float32',) and np.any(xb.imag):
                case['x'] = enc(xb.real.astype(complex))
            run_oracle(ctx, 'dtype', case, key=('R1', idx))
            ctx.branch('R1:oracle')
            ctx.branch('R1:' + (case['hdt'] or case['xdt'] or ('nv=' + str(case['nvt']))))
            Hv, xv = cast_arr(dec(case['H']), case['hdt']), cast_arr(dec(case['x']), case['xdt'])
            nvv = mk_scalar(case['nv'], case['nvt']) if fam else 0.0
            with tol_factor(1e5 if is_single(case['hdt'], case['xdt']) else 1.0):
                b1 = Batch(drv, ctx)
                corr_variant(ctx, b1, scheme, Hv, xv, 0.0 if nvv is None else nvv, ('R1c', idx))
                b1.flush()
            ctx.branch('R1:corr')
            # ---------------- R2 layout and shape
            H = squeeze_arg(scheme, g.channel(nr, nt)[0]) if scheme != 'alamouti' else g.channel(max(nr, 2), 2)[0][:nr, :] + 0.1
            x = g.data(n_symbols(rng, scheme, nt))[0]
            hl = rng.choice(LAYOUTS + (None,))
            xl = rng.choice(LAYOUTS + (None,) + (('row', 'col') if scheme in ('blast', 'svd', 'gmd', 'mrc') else ()))
            yl = rng.choice(LAYOUTS + (None,))
            if hl is None and xl is None and yl is None:
                hl = 'F'
            nv2 = (0.0 if rng.chance(0.5) else 0.3 * amax(H) ** 2) if fam else 0.0
            case = {'scheme': scheme, 'H': enc(H), 'x': enc(x), 'nv': nv2, 'hl': hl, 'xl': xl, 'yl': yl}
            run_oracle(ctx, 'layout', case, key=('R2', idx))
            ctx.branch('R2:oracle')
            corr_variant(ctx, b, scheme, relayout(H, hl), relayout(x, xl if xl not in ('row', 'col') else None), nv2, ('R2c', idx))
            ctx.branch('R2:corr')
            # ---------------- R3 immutability / independence of results
            run_oracle(ctx, 'immutable', {'scheme': scheme, 'H': enc(H), 'x': enc(x), 'nv': nv2}, key=('R3', idx))
            ctx.branch('R3:oracle')
            # ---------------- R4 rejected calls
            bads = [k for k in ('channel', 'noise', 'length', 'rows')
                    if not ((k == 'channel' and scheme == 'mrc') or (k == 'length' and (scheme in ('mrt', 'mrc') or
                                                                                       (scheme != 'alamouti' and nt == 1)))
                            or (k == 'rows' and scheme == 'mrt'))]
            run_oracle(ctx, 'rejected', {'scheme': scheme, 'H': enc(H), 'x': enc(x), 'nv': nv2, 'bad': rng.choice(bads)},
                       key=('R4', idx))
            ctx.branch('R4:oracle')
            # ---------------- R5 boundary values
            kind = rng.choice(['noise-values', '1x1', 'one-symbol', 'zeros-ones', 'sizes'] if fam else
                              ['1x1', 'one-symbol', 'zeros-ones', 'sizes'])
            if kind == 'noise-values':
                vals = [0.7 * amax(H) ** 2, 0, 0.7 * amax(H) ** 2, 0.0, 0.7 * amax(H) ** 2, None, 1, 1.0, 0.0]
                case = {'scheme': scheme, 'kind': kind, 'H': enc(H), 'x': enc(x), 'values': vals}
                Hc, xc = H, x
            else:
                if kind == '1x1':
                    Hc = {'alamouti': np.array([[1.0 + 0j, 1j]]), 'mrt': np.array([2.0 + 0j]), 'mrc': np.array([1j])}.get(
                        scheme, np.array([[rng.choice([1.0, -1.0, 1j, 0.5])]], dtype=complex))
                    xc = g.data(2 if scheme == 'alamouti' else 1)[0]
                elif kind == 'one-symbol':
                    Hc, xc = H, g.data(2 if scheme == 'alamouti' else as2d(scheme, H).shape[1] if scheme in ('blast', 'svd', 'gmd') else 1)[0]
                elif kind == 'zeros-ones':
                    Hc = squeeze_arg(scheme, int_channel(g, nr, nt, nonneg=True, max_cond=1e4).clip(0, 1)
                                     if np.linalg.matrix_rank(int_channel(g, nr, nt, nonneg=True).clip(0, 1)) == min(nr, nt)
                                     else np.eye(nr, nt, dtype=complex))
                    if scheme == 'alamouti' or np.linalg.matrix_rank(as2d(scheme, Hc)) < min(as2d(scheme, Hc).shape):
                        Hc = squeeze_arg(scheme, np.eye(nr, nt, dtype=complex)) if scheme != 'alamouti' else np.eye(nr, 2, dtype=complex)
                    xc = g.data(n_symbols(rng, scheme, as2d(scheme, Hc).shape[1]))[0]
                else:
                    n_big = rng.choice([7, 8, 9, 15, 16, 17, 25, 31, 32, 33])
                    Hc = H
                    ntc = as2d(scheme, H).shape[1]
                    xc = g.data(2 * n_big if scheme == 'alamouti' else ntc * n_big if scheme in ('blast', 'svd', 'gmd') else n_big)[0]
                case = {'scheme': scheme, 'kind': kind, 'H': enc(Hc), 'x': enc(xc)}
            run_oracle(ctx, 'boundary', case, key=('R5', idx))
            ctx.branch('R5:oracle')
            ctx.branch('R5:' + kind)
            corr_variant(ctx, b, scheme, Hc, xc, 0 if rng.chance(0.5) else 1, ('R5c', idx))
            ctx.branch('R5:corr')
            # ---------------- R6 scale
            hs = 10.0 ** rng.choice([-12, -9, -6, -3, 3, 6, 9, 12])
            xs = 10.0 ** rng.choice([-12, -6, 0, 0, 6, 12])
            case = {'scheme': scheme, 'H': enc(H), 'x': enc(x), 'hs': hs, 'xs': xs, 'nv_rel': 10.0 ** rng.uniform(-4, 0)}
            run_oracle(ctx, 'scale', case, key=('R6', idx))
            ctx.branch('R6:oracle')
            corr_variant(ctx, b, scheme, H * hs, x * xs, (case['nv_rel'] * amax(H * hs) ** 2) if (fam and rng.chance(0.5)) else 0.0,
                         ('R6c', idx))
            ctx.branch('R6:corr')
            # ---------------- R7 life cycle
            kind = rng.choice(['late-channel', 'repeated-setters', 'shared-channel'])
            if kind == 'shared-channel':
                H2 = as2d(scheme, H)
                comp = [o for o in ('blast', 'svd', 'gmd') if H2.shape[0] >= H2.shape[1]] + (['alamouti'] if H2.shape[1] == 2 else []) \
                    + (['mrt'] if H2.shape[0] == 1 else [])
                if scheme in ('mrc', 'mrt'):
                    comp = [scheme, 'alamouti'] if (scheme == 'mrt' and H2.shape[1] == 2) else [scheme]
                other = rng.choice(comp)
                ntb = as2d(other, H).shape[1]
                case = {'scheme': scheme, 'kind': kind, 'H': enc(H), 'x': enc(x), 'other': other,
                        'xb': enc(g.data(n_symbols(rng, other, ntb))[0])}
            else:
                hist = gen_history(rng, g, scheme, max_n, late=(kind == 'late-channel'))
                if kind == 'repeated-setters':
                    ops = []
                    for op in hist['ops']:
                        ops += [op, dict(op), dict(op)] if op['op'] in ('sc', 'nv') else [op]
                    hist['ops'] = ops
                case = {'scheme': scheme, 'kind': kind, 'history': hist}
                corr_history(ctx, b, hist, ('R7c', idx))
                ctx.branch('R7:corr')
            run_oracle(ctx, 'lifecycle', case, key=('R7', idx))
            ctx.branch('R7:oracle')
            ctx.branch('R7:' + kind)
        if len(b.items) > 400:
            b.flush()
    b.flush()


def entry_paths(ctx, g, reps, max_n):
    """every scheme x every entry point x every documented channel layout: oracle on the real code and the same
    life cycle replayed on the model object (constructor / channel-less + setter / replacement), reading the stored
    channel after every configuration step"""
    rng = ctx.rng
    drv = core.Driver(DRIVER)
    b = Batch(drv, ctx)
    idx = 0
    for rep in range(reps):
        for scheme in SCHEMES:
            fam = scheme in ('blast', 'mrc', 'svd', 'gmd')
            for layout in ('matrix', 'vector'):
                if layout == 'vector' and scheme in ('blast', 'svd', 'gmd'):
                    continue
                for path in ENTRY_PATHS:
                    idx += 1
                    if scheme in ('blast', 'svd', 'gmd'):
                        nt = rng.randint(1, min(max_n, 4))
                        H2 = g.channel(rng.randint(nt, max_n), nt)[0]
                    elif scheme == 'mrc':
                        H2 = g.channel(rng.randint(1, max_n), 1)[0]
                    elif scheme == 'mrt':
                        H2 = g.channel(rng.randint(1, max_n), 1)[0].reshape(1, -1)
                    else:
                        nr = 1 if layout == 'vector' else rng.randint(1, max_n)
                        H2 = g.channel(max(nr, 2), 2)[0][:nr, :] + 0.1
                    H2 = np.array(H2, dtype=complex)
                    x = g.data(n_symbols(rng, scheme, H2.shape[1]))[0]
                    nv = (0.0 if rng.chance(0.5) else 10.0 ** rng.uniform(-3, 0) * amax(H2) ** 2) if fam else 0.0
                    other = None
                    if path == 'replace':   # a different channel, possibly of another size, in either layout
                        oth2 = np.array(H2[::-1] * 2.0) if rng.chance(0.5) else np.array(H2) * (1.0 - 0.5j)
                        other = channel_arg(scheme, oth2, layout if rng.chance(0.5) else 'matrix')
                    case = {'scheme': scheme, 'path': path, 'layout': layout, 'H': enc(H2), 'x': enc(x), 'nv': nv,
                            'other': enc(other) if other is not None else None}
                    run_oracle(ctx, 'entry', case, key=('entry', idx))
                    ctx.branch('entry:oracle')
                    ctx.branch('entry:%s:%s' % (path, layout))
                    # the same life cycle on the model object
                    arg = channel_arg(scheme, H2, layout)
                    if path == 'replace-other-layout':
                        can_vec = (scheme == 'mrc' and H2.shape[1] == 1) or (scheme in ('mrt', 'alamouti') and H2.shape[0] == 1)
                        other = channel_arg(scheme, H2 * (0.5 + 0.25j), 'vector' if (layout == 'matrix' and can_vec) else 'matrix')
                    ops = [{'op': 'nv', 'v': nv}] if fam else []
                    ops += [{'op': 'rt', 'x': enc(x)}, {'op': 'sinr', 'v': 0.5 * amax(H2) ** 2}]
                    if path == 'ctor':
                        hist = {'scheme': scheme, 'H0': enc(arg), 'ops': ops}
                    elif path == 'setter':
                        hist = {'scheme': scheme, 'H0': None, 'ops': [{'op': 'sc', 'H': enc(arg)}] + ops}
                    elif path == 'set-twice':
                        hist = {'scheme': scheme, 'H0': enc(arg), 'ops': [{'op': 'sc', 'H': enc(arg)}, {'op': 'sc', 'H': enc(arg)}] + ops}
                    else:
                        hist = {'scheme': scheme, 'H0': enc(other), 'ops': [{'op': 'rt', 'x': enc(x)} if np.asarray(other).size == arg.size else {'op': 'sinr', 'v': 0.3},
                                                                             {'op': 'sc', 'H': enc(arg)}] + ops}
                    corr_history(ctx, b, hist, ('entry-c', idx))
                    ctx.branch('entry:corr')
    b.flush()


def robustness2(ctx, g, reps, max_n):
    """R8 argument forms, R13 derived objects, R14 counts (R11 queries run inside every history)"""
    rng = ctx.rng
    drv = core.Driver(DRIVER)
    b = Batch(drv, ctx)
    idx = 0
    for rep in range(reps):
        for scheme in SCHEMES:
            idx += 1
            fam = scheme in ('blast', 'mrc', 'svd', 'gmd')
            nr, nt = scheme_shape(rng, scheme, max_n)
            H = squeeze_arg(scheme, g.channel(nr, nt)[0]) if scheme != 'alamouti' else g.channel(max(nr, 2), 2)[0][:nr, :] + 0.1
            if scheme in ('mrc', 'mrt') and rng.chance(0.5):
                H = as2d(scheme, H)
            x = g.data(n_symbols(rng, scheme, as2d(scheme, H).shape[1]))[0]
            nv = 10.0 ** rng.uniform(-3, 0) * amax(H) ** 2
            run_oracle(ctx, 'argforms', {'scheme': scheme, 'H': enc(H), 'x': enc(x), 'nv': nv}, key=('R8', idx))
            ctx.branch('R8:oracle')
            # R8 correspondence: the whole life cycle driven through keywords
            hist = gen_history(rng, g, scheme, max_n)
            hist['kw'] = True
            corr_history(ctx, b, hist, ('R8c', idx))
            run_oracle(ctx, 'history', hist, key=('R8h', idx))
            # R13
            nr2, nt2 = scheme_shape(rng, scheme, max_n)
            Hn = squeeze_arg(scheme, g.channel(nr2, nt2)[0]) if scheme != 'alamouti' else g.channel(max(nr2, 2), 2)[0][:nr2, :] + 0.1
            xn = g.data(n_symbols(rng, scheme, as2d(scheme, Hn).shape[1]))[0]
            how = rng.choice(['copy', 'deepcopy', 'pickle'])
            run_oracle(ctx, 'derived', {'scheme': scheme, 'how': how, 'H': enc(H), 'x': enc(x), 'nv': nv if fam else 0.0,
                                        'Hn': enc(Hn), 'xn': enc(xn)}, key=('R13', idx))
            ctx.branch('R13:oracle')
    # R14: one large count per scheme family per run (a few more in thorough)
    big = [('mrc', 300), ('mrt', 257), ('alamouti', 258), ('blast', 258)]
    if ctx.tier != 'quick':
        big += [('svd', 257), ('gmd', 257), ('mrc', 65537), ('mrt', 300), ('blast', 300)]
    for scheme, cnt in big:
        idx += 1
        if scheme == 'mrc':
            H = g.raw(cnt, 1).reshape(-1)
            x = g.data(257)[0]
        elif scheme == 'mrt':
            H = g.raw(1, cnt).reshape(-1)
            x = g.data(258)[0]
        elif scheme == 'alamouti':
            H = g.raw(cnt, 2)
            x = g.data(2 * 300)[0]
        else:
            H = g.raw(cnt, 3)
            x = g.data(3 * 257)[0]
        case = {'scheme': scheme, 'H': enc(H), 'x': enc(x), 'nv': 0.0}
        run_oracle(ctx, 'counts', case, key=('R14', idx))
        ctx.branch('R14:oracle')
        if cnt <= 300:
            corr_variant(ctx, b, scheme, H, x, 0.0, ('R14c', idx))
            ctx.branch('R14:corr')
    b.flush()


def shapes(max_n):
    return [(nr, nt) for nt in range(1, max_n + 1) for nr in range(nt, max_n + 1)]


def block_len(rng, nt, quick, allow_bad=True):
    L = rng.choice([1, 1, 2, 3, 4, 8, 0] if quick else [1, 2, 3, 5, 8, 16, 33, 0])
    n = nt * L
    if allow_bad and nt > 1 and rng.chance(0.08):
        n += rng.randint(1, nt - 1)
    return n


def correspondence(ctx, g, reps, max_n):
    drv = core.Driver(DRIVER)
    rng = ctx.rng
    quick = ctx.tier == 'quick'
    corr_guards(ctx, drv)
    b = Batch(drv, ctx)
    idx = 0

    def noise(H):
        return 0.0 if rng.chance(0.6) else 10.0 ** rng.uniform(-6, 1) * float(np.abs(H).max()) ** 2
    for rep in range(reps):
        for (nr, nt) in shapes(max_n):
            idx += 1
            H, hk = g.channel(nr, nt)
            x, xk = g.data(block_len(rng, nt, quick))
            ctx.branch('channel:' + hk)
            ctx.branch('data:' + xk)
            corr_blast(ctx, b, 'blast', H, x, noise(H), ('blast', idx))
            H, hk = g.channel(nr, nt)
            x, xk = g.data(block_len(rng, nt, quick))
            corr_svd(ctx, b, H, x, ('svd', idx))
            H, hk = g.channel(nr, nt)
            x, xk = g.data(block_len(rng, nt, quick))
            corr_gmd(ctx, b, H, x, noise(H), ('gmd', idx))
        for n_ant in range(1, max_n + 1):
            idx += 1
            # MRC: 1-D channel or Nr x 1
            h, _ = g.channel(n_ant, 1)
            x, _ = g.data(rng.choice([1, 2, 5, 8]))
            corr_blast(ctx, b, 'mrc', h.reshape(-1) if rng.chance(0.5) else h, x, noise(h), ('mrc', idx))
            # MRT: 1-D channel or 1 x Nt; sometimes with a zero tap
            h = g.channel(n_ant, 1)[0].reshape(-1).astype(complex)
            if n_ant >= 2 and rng.chance(0.3):
                h[rng.below(n_ant)] = 0.0
                if not np.any(h):  # the property needs a non-zero channel
                    h[0] = 1.0
            x, _ = g.data(rng.choice([1, 2, 5, 8]))
            corr_mrt(ctx, b, h, x, ('mrt', idx), rng.chance(0.5))
            # Alamouti: Nr x 2 (or a 1-D channel of length 2)
            H, _ = g.channel(max(n_ant, 2), 2)
            H = H[:n_ant, :]
            if np.abs(H).max() == 0:
                H = H + 1.0
            if n_ant == 1 and rng.chance(0.5):
                H = H.reshape(-1)
            n = 2 * rng.choice([1, 2, 3, 8]) + (1 if rng.chance(0.08) else 0)
            x, _ = g.data(n)
            corr_alamouti(ctx, b, H, x, ('alamouti', idx))
        if len(b.items) > 1500:
            b.flush()
    b.flush()


def oracle_cases(ctx, g, reps, max_n, deep=False):
    rng = ctx.rng
    quick = ctx.tier == 'quick' and not deep
    idx = 0
    for rep in range(reps):
        for (nr, nt) in shapes(max_n):
            for scheme in ('blast', 'svd', 'gmd'):
                idx += 1
                H, hk = g.channel(nr, nt)
                x, xk = g.data(block_len(rng, nt, quick, allow_bad=False))
                case = {'scheme': scheme, 'H': enc(H), 'x': enc(x)}
                run_oracle(ctx, 'roundtrip', case, key=('rt', idx))
                run_oracle(ctx, 'energy', case, key=('en', idx))
                ctx.branch('oracle:%s:%s' % (scheme, shape_class(nr, nt)))
            H, hk = g.channel(nr, nt)
            run_oracle(ctx, 'zf', {'H': enc(H)}, key=('zf', idx))
            run_oracle(ctx, 'gmd', {'H': enc(H)}, key=('gmd', idx))
            nv = 10.0 ** rng.uniform(-6, 2) * float(np.abs(H).max()) ** 2
            run_oracle(ctx, 'mmse', {'H': enc(H), 'nv': nv, 'pseed': rng.below(1 << 30)}, key=('mmse', idx))
            run_oracle(ctx, 'mmse-limit', {'H': enc(H), 'exps': [4, 8, 12]}, key=('lim', idx))
        for n_ant in range(1, max_n + 1):
            idx += 1
            h = g.channel(n_ant, 1)[0]
            x, _ = g.data(rng.choice([1, 2, 5, 8]))
            for scheme, Hs in (('mrc', h.reshape(-1) if rng.chance(0.5) else h),
                               ('mrt', h.reshape(-1) if rng.chance(0.5) else h.reshape(1, -1))):
                Hs = np.array(Hs, dtype=complex)
                if scheme == 'mrt' and n_ant >= 2 and rng.chance(0.3):
                    Hs.reshape(-1)[rng.below(n_ant)] = 0.0
                    if not np.any(Hs):  # the property needs a non-zero channel
                        Hs.reshape(-1)[0] = 1.0
                case = {'scheme': scheme, 'H': enc(Hs), 'x': enc(x)}
                run_oracle(ctx, 'roundtrip', case, key=('rt', scheme, idx))
                run_oracle(ctx, 'energy', case, key=('en', scheme, idx))
                ctx.branch('oracle:' + scheme)
            H = g.channel(max(n_ant, 2), 2)[0][:n_ant, :]
            if not np.any(H):  # the property needs a non-zero channel
                H = H + 1.0
            x, _ = g.data(2 * rng.choice([1, 2, 3, 8]))
            case = {'scheme': 'alamouti', 'H': enc(H), 'x': enc(x)}
            run_oracle(ctx, 'roundtrip', case, key=('rt', 'ala', idx))
            run_oracle(ctx, 'energy', case, key=('en', 'ala', idx))
            ctx.branch('oracle:alamouti')
    # guards
    for scheme in ('blast', 'svd', 'gmd'):
        for nt in (2, 3, 4):
            for n in (nt, nt + 1, 2 * nt - 1, 3 * nt, 1):
                run_oracle(ctx, 'guard', {'kind': 'length', 'scheme': scheme, 'nr': nt + 1, 'nt': nt, 'n': n})
    for nr, nt in ((1, 2), (2, 2), (3, 2), (2, 1), (2, 3), (3, 3), (1, 1), (4, 4)):
        run_oracle(ctx, 'guard', {'kind': 'alamouti-shape', 'nr': nr, 'nt': nt})
        run_oracle(ctx, 'guard', {'kind': 'miso-shape', 'nr': nr, 'nt': nt})
    for nv in (None, 0.0, 0.1, 5.0, -0.1, -1e-12, -3.0):
        run_oracle(ctx, 'guard', {'kind': 'noise-var', 'nv': nv})


def small_channels():
    """every full-column-rank channel with entries in {0, 1, -1, j, -j} (2x2, 2x1) or {0, 1, j} (3x2) or {0, 1}
    (3x3): permutations, repeated singular values, zero entries"""
    import itertools
    out = []
    for nr, nt, vs in ((2, 2, [0, 1, -1, 1j, -1j]), (2, 1, [0, 1, -1, 1j, -1j]), (3, 2, [0, 1, 1j]), (3, 3, [0, 1])):
        for ent in itertools.product(vs, repeat=nr * nt):
            H = np.array(ent, dtype=complex).reshape(nr, nt)
            if np.linalg.matrix_rank(H) == nt:
                out.append(H)
    return out


def small_scope(ctx):
    """exhaustive (thorough) / sampled (quick) run over the small Gaussian-unit channels"""
    chans = small_channels()
    if ctx.tier == 'quick':
        idx = sorted({ctx.rng.below(len(chans)) for _ in range(60)})
        chans = [chans[i] for i in idx]
    drv = core.Driver(DRIVER)
    b = Batch(drv, ctx)
    for i, H in enumerate(chans):
        nr, nt = H.shape
        x = np.exp(2j * np.pi * ((np.arange(2 * nt) * 3 + i) % 8) / 8)
        ck = ('small', i)
        corr_blast(ctx, b, 'blast', H, x, 0.0, ck + ('b',))
        corr_svd(ctx, b, H, x, ck + ('s',))
        corr_gmd(ctx, b, H, x, 0.0, ck + ('g',))
        for scheme in ('blast', 'svd', 'gmd'):
            case = {'scheme': scheme, 'H': enc(H), 'x': enc(x)}
            run_oracle(ctx, 'roundtrip', case, key=ck + ('rt', scheme))
            run_oracle(ctx, 'energy', case, key=ck + ('en', scheme))
        run_oracle(ctx, 'gmd', {'H': enc(H)}, key=ck + ('gmd',))
        run_oracle(ctx, 'zf', {'H': enc(H)}, key=ck + ('zf',))
        ctx.branch('small-scope')
    b.flush()
    if ctx.tier == 'thorough':
        ctx.extra['small_scope_exhaustive'] = ('all %d full-column-rank channels with entries in {0,+-1,+-j} (2x2, 2x1), '
                                               '{0,1,j} (3x2), {0,1} (3x3)' % len(chans))


def run_corpus(ctx):
    """minimised past failures / boundary inputs: always run, whatever the seed"""
    import glob
    import json
    import os
    for fn in sorted(glob.glob(os.path.join(core.VERIF, 'corpus', 'c04', '*.json'))):
        with open(fn) as f:
            rep = json.load(f)
        _r1516()
        if rep.get('call') in ORACLES:
            run_oracle(ctx, rep['call'], rep['case'], key=('corpus', os.path.basename(fn)))
            ctx.branch('corpus')


def check(ctx):
    quick = ctx.tier == 'quick'
    max_n = 6 if quick else 8
    ctx.rule = ('schemes Blast/MRC/MRT/SVD/GMD/Alamouti x all antenna shapes Nr >= Nt in 1..%d (1-antenna edges, '
                '1-D channels, zero taps for MRT) x channels {Gaussian, real, scaled 1e-3..1e3, Gaussian-integer, '
                'prescribed condition number up to 1e4, nearly dependent columns} x data {PSK, QAM, Gaussian, '
                'Gaussian-integer} x block lengths (incl. non-multiples) x noise variance {0, 1e-6..10 |h|^2}; '
                'non-trivial = distinct (scheme, case, compared quantity)' % max_n)
    core.prove(ctx, MODULE, generated=[], drivers=[DRIVER], scratch=ctx.scratch)
    try:
        run_corpus(ctx)
    except Exception:
        ctx.tie_broken('correspondence', 'section:corpus.exception', traceback.format_exc()[-1500:], None)
    g = Gen(ctx.rng.fork('gen'))
    ctx.required_branches = ['corr:blast:zf', 'corr:blast:mmse', 'corr:mrc:zf', 'corr:mrt', 'corr:svd:square',
                             'corr:svd:tall', 'corr:gmd:zf', 'corr:gmd:mmse', 'corr:alamouti', 'guard:error',
                             'guard:ok', 'hist:blast', 'hist:mrc', 'hist:mrt', 'hist:svd', 'hist:gmd', 'hist:alamouti',
                             'R8:oracle', 'R8:corr', 'R11:oracle', 'R11:corr', 'R13:oracle', 'R13:corr', 'R14:oracle', 'R14:corr',
                             'entry:oracle', 'entry:corr', 'entry:ctor:vector', 'entry:setter:vector', 'entry:replace:vector',
                             'entry:ctor:matrix', 'hist-op:chan', 'R1:oracle', 'R1:corr', 'R2:oracle', 'R2:corr', 'R3:oracle', 'R3:corr', 'R4:oracle', 'R4:corr',
                             'R5:oracle', 'R5:corr', 'R6:oracle', 'R6:corr', 'R7:oracle', 'R7:corr', 'hist-op:set_noise_var:ok', 'hist-op:set_channel:ok', 'hist-op:set_channel:rejected', 'hist-op:dec',
                             'contract-ok:pinv', 'contract-ok:solve', 'contract-ok:svd', 'contract-ok:gmd'] + _r1516().REQUIRED
    sections = [('small_scope', lambda: small_scope(ctx)),
                ('entry_paths', lambda: entry_paths(ctx, Gen(ctx.rng.fork('entry')), 2 if quick else 12, max_n)),
                ('correspondence', lambda: correspondence(ctx, g, 15 if quick else 150, max_n)),
                ('histories', lambda: histories(ctx, Gen(ctx.rng.fork('hist')), 25 if quick else 100, max_n)),
                ('robustness', lambda: robustness(ctx, Gen(ctx.rng.fork('robust')), 12 if quick else 70, max_n)),
                ('robustness2', lambda: robustness2(ctx, Gen(ctx.rng.fork('robust2')), 4 if quick else 40, max_n)),
                ('robustness3', lambda: _r1516().run(ctx, Gen(ctx.rng.fork('robust3')), max_n)),
                ('oracle_cases', lambda: oracle_cases(ctx, Gen(ctx.rng.fork('oracle')), 10 if quick else 100, max_n))]
    for name, fn in sections:
        try:
            fn()
        except core.Infra as e:
            if not ctx.broken:
                raise
            ctx.notes.append('%s skipped: %s' % (name, e))
            ctx.required_branches = []
        except Exception:  # whatever the tree under test makes the harness trip over: a verdict, never exit 2
            ctx.branch('harness-exception:section:' + name)
            ctx.tie_broken('correspondence', 'section:%s.exception' % name, traceback.format_exc()[-1500:], None)


def search(ctx):
    g = Gen(ctx.rng.fork('search'))
    for fn in (lambda: entry_oracles_only(ctx, g, 6, 8), lambda: oracle_cases(ctx, g, 6, 8, deep=True)):
        try:
            fn()
        except Exception:
            ctx.tie_broken('correspondence', 'search.exception', traceback.format_exc()[-1500:], None)


def entry_oracles_only(ctx, g, reps, max_n):
    for rep in range(reps):
        for scheme in ('mrc', 'mrt', 'alamouti', 'blast'):
            for layout in (('matrix',) if scheme == 'blast' else ('matrix', 'vector')):
                for path in ENTRY_PATHS:
                    if scheme == 'blast':
                        H2 = g.channel(3, 2)[0]
                    elif scheme == 'mrc':
                        H2 = g.channel(ctx.rng.randint(1, max_n), 1)[0]
                    elif scheme == 'mrt':
                        H2 = g.channel(ctx.rng.randint(1, max_n), 1)[0].reshape(1, -1)
                    else:
                        H2 = g.channel(2, 2)[0][:1, :] + 0.1
                    x = g.data(n_symbols(ctx.rng, scheme, H2.shape[1]))[0]
                    run_oracle(ctx, 'entry', {'scheme': scheme, 'path': path, 'layout': layout, 'H': enc(np.array(H2, dtype=complex)),
                                              'x': enc(x), 'nv': 0.0, 'other': enc(np.array(H2) * 2.0) if path == 'replace' else None})
